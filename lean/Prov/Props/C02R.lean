/-
  C02 at record level: the children the PROV-XML writer emits for a stored record are read back by `_extract_attributes`
  into arguments from which `add_attributes` rebuilds, in any namespace-manager state, exactly the pairs the writer wrote —
  every (attribute, value) pair left after `_derive_record_label`, each once, same attribute URI, same value and kind.
  The per-kind decisions of the writer's xsi:type web are those of `Props/C02`; here they are put together for all pairs of
  a record, through the sorting step (`Props/C02S`) and the loop of `add_attributes` (`loop_args`, shared with C01 and C09).
-/
import Prov.Props.C02
import Prov.Props.C02S
import Prov.Props.C09C
import Prov.Props.C01R

namespace Prov.C02
open Prov Text Prov.C09 Prov.C05 Prov.C04 Prov.C01

/-- the child element as lxml hands it to the reader: the in-scope namespace map and the element's prefix filled in -/
def parsed (nsmap : List (Option String × String)) (pfx : Option String) (n : XNode) : XNode := { n with nsmap := nsmap, pfx := pfx }

def childOf (ft : Bool) (p : QName × Value) : XNode := childNode p.1 (encodeXmlAttr ft p.1 p.2)

/-- the value read from a child does not depend on the child's own name -/
theorem xmlValue_parsed (nsmap : List (Option String × String)) (pfx : Option String) (n : XNode) :
    xmlValue (parsed nsmap pfx n) = n.attrs.foldl (xmlValueStep (parsed nsmap pfx n) (n.text.getD "")) (.ok (.val (.str (n.text.getD "")))) := rfl

theorem xmlValueStep_nsmap (s1 s2 : XNode) (h : s1.nsmap = s2.nsmap) (text : String) : xmlValueStep s1 text = xmlValueStep s2 text := by
  funext acc a
  unfold xmlValueStep
  rw [h]

/-- reading the value of the child written for `(attr, v)`, in scope `nsmap` -/
def valueBack (nsmap : List (Option String × String)) (ft : Bool) (attr : QName) (v : Value) : Except Err ArgVal :=
  xmlValue (parsed nsmap none (childOf ft (attr, v)))

theorem xmlValue_parsed_eq (nsmap : List (Option String × String)) (pfx : Option String) (ft : Bool) (p : QName × Value) :
    xmlValue (parsed nsmap pfx (childOf ft p)) = valueBack nsmap ft p.1 p.2 := by
  unfold valueBack xmlValue
  simp only [parsed]
  rw [xmlValueStep_nsmap { childOf ft p with nsmap := nsmap, pfx := pfx } { childOf ft p with nsmap := nsmap, pfx := none } rfl]

/-- a child that carries only xsi:type="xsd:<l>" (l ≠ QName) and text t -/
theorem valueBack_typed (nsmap) (hstd : StdMap nsmap) (ft : Bool) (attr : QName) (v : Value) (l t : String)
    (henc : encodeXmlAttr ft attr v = { xsiType := some ("xsd:" ++ l), lang := none, ref := none, text := some t })
    (hl : ((⟨nsXsd, l⟩ : QName).uri == xsdUri ++ "QName") = false) :
    valueBack nsmap ft attr v = .ok (.val (.lit t (some ⟨nsXsd, l⟩) none)) := by
  have hx := xmlQName_xsd hstd l
  have hl' : ¬ ((⟨nsXsd, l⟩ : QName).uri = xsdUri ++ "QName") := by simpa using hl
  simp [valueBack, xmlValue, xmlValueStep, parsed, childOf, childNode, henc, hx, hl']

theorem valueBack_plain (nsmap) (ft : Bool) (attr : QName) (v : Value) (t : String)
    (henc : encodeXmlAttr ft attr v = { xsiType := none, lang := none, ref := none, text := some t }) :
    valueBack nsmap ft attr v = .ok (.val (.str t)) := by
  simp [valueBack, xmlValue, parsed, childOf, childNode, henc]

/-- the float hint the decoder attaches to an argument (A-LEX: the float Python's `float()` makes of that text) -/
def fltOf (hints : List (String × FloatAtom)) : ArgVal → Option FloatAtom
  | .val (.lit lex _ _) => (hints.find? (fun x => x.1 == lex)).map (·.2)
  | _ => none

/-- the argument converts, in every manager state, to `v` up to prefixes -/
def Converts (av : ArgVal) (flt : Option FloatAtom) (v : Value) : Prop :=
  ∀ m : NsMgr, m.Inv1 → ∃ v', (autoLiteral m av flt).2 = .ok v' ∧ vEq v' v

/-- an attribute that is not a formal PROV attribute and not prov:label -/
structure OtherAttr (attr : QName) : Prop where
  notRef : isRefAttr attr = false
  notTimeAttr : isTimeAttr attr = false
  notTime : (attr.uri == provUri ++ "time") = false
  notLabel : (attr.uri == provUri ++ "label") = false

/-- values of such attributes that the XML writer/reader pair carries: everything storable, given that names resolve in the
    element's scope to what they denote, a text that is not mistaken for a PROV name (`startswith("prov:")`), valid
    date-times, and floats whose text is in the float table -/
def XmlValOk (nsmap : List (Option String × String)) (hints : List (String × FloatAtom)) (attr : QName) : Value → Prop
  | .int n => strStartsWithProv (toString n) = false
  | .dt t => ValidDT t ∧ attr.ns.pfx ≠ "prov" ∧ strStartsWithProv (Value.dt t).pyStrFull = false
  | .bool _ => True
  | .uri u => strStartsWithProv u = false
  | .float f => strStartsWithProv f.repr = false ∧ (hints.find? (fun x => x.1 == f.repr)).map (·.2) = some f
  | .str _ => True
  | .qn q => ∃ q', xmlQName nsmap q.print = .ok q' ∧ q'.uri = q.uri
  | .lit _ (some t) none => (t.uri == provUri ++ "InternationalizedString") = false ∧
      (∃ dt, xmlQName nsmap (t.ns.pfx ++ ":" ++ t.loc) = .ok dt ∧ dt.uri = t.uri ∧ (dt.uri == xsdUri ++ "QName") = false) ∧
      xsdParserOf t = none
  | .lit _ (some t) (some l) => t = provQ "InternationalizedString" ∧ l ≠ ""
  | .lit _ none _ => False

theorem parseBoolean_lower (b : Bool) : parseBoolean (if b then "True" else "False").toLower = some b := by
  cases b <;> decide +kernel

theorem xsdParserOf_congr {a b : QName} (h : a.uri = b.uri) : xsdParserOf a = xsdParserOf b := by
  unfold xsdParserOf
  rw [h]

/-- **every value of a non-formal attribute**: the child the writer emits is read back into an argument that
    `_auto_literal_conversion` turns, in any manager state, into the original value (same kind; names up to prefix) -/
theorem c02_value_any (nsmap) (hstd : StdMap nsmap) (hints : List (String × FloatAtom)) (ft : Bool) (attr : QName)
    (ha : OtherAttr attr) (v : Value) (hv : XmlValOk nsmap hints attr v) :
    ∃ av, valueBack nsmap ft attr v = .ok av ∧ Converts av (fltOf hints av) v := by
  cases v with
  | int n =>
    have hp : xsdParserOf (⟨nsXsd, "int"⟩ : QName) = some .int := by decide
    have hlex' : strStartsWithProv n.repr = false := hv
    have henc : encodeXmlAttr ft attr (.int n) = { xsiType := some ("xsd:" ++ "int"), lang := none, ref := none, text := some (toString n) } := by
      simp [encodeXmlAttr, ha.notRef, ha.notTime, ha.notLabel, Value.pyStrFull, Value.pyStr, hlex']
    refine ⟨_, valueBack_typed nsmap hstd ft attr _ "int" _ henc (by decide), fun m _ => ⟨.int n, ?_, rfl⟩⟩
    have : (toString n).toInt? = some n := Int.toInt?_repr n
    simp only [autoLiteral, hp, parseXsd, parseInt, this]
  | dt t =>
    obtain ⟨hval, hpfx, hlex⟩ := hv
    have hp : xsdParserOf (⟨nsXsd, "dateTime"⟩ : QName) = some .dateTime := by decide
    have hpfx' : (attr.ns.pfx != "prov") = true := by simpa using hpfx
    have henc : encodeXmlAttr ft attr (.dt t) = { xsiType := some ("xsd:" ++ "dateTime"), lang := none, ref := none, text := some t.iso } := by
      simp [encodeXmlAttr, ha.notRef, ha.notTime, ha.notLabel, hlex, hpfx']
    refine ⟨_, valueBack_typed nsmap hstd ft attr _ "dateTime" _ henc (by decide), fun m _ => ⟨.dt t, ?_, rfl⟩⟩
    simp only [autoLiteral, hp, parseXsd, parseIso_iso t hval]
  | bool b =>
    have hp : xsdParserOf (⟨nsXsd, "boolean"⟩ : QName) = some .boolean := by decide
    have hs : strStartsWithProv (if b then "True" else "False") = false := by cases b <;> decide
    have henc : encodeXmlAttr ft attr (.bool b) =
        { xsiType := some ("xsd:" ++ "boolean"), lang := none, ref := none, text := some (if b then "True" else "False").toLower } := by
      simp [encodeXmlAttr, ha.notRef, ha.notTime, ha.notLabel, Value.pyStrFull, Value.pyStr, hs]
    refine ⟨_, valueBack_typed nsmap hstd ft attr _ "boolean" _ henc (by decide), fun m _ => ⟨.bool b, ?_, rfl⟩⟩
    simp only [autoLiteral, hp, parseXsd, parseBoolean_lower b]
  | uri u =>
    have hp : xsdParserOf (⟨nsXsd, "anyURI"⟩ : QName) = some .anyURI := by decide
    have hlex : strStartsWithProv u = false := hv
    have henc : encodeXmlAttr ft attr (.uri u) = { xsiType := some ("xsd:" ++ "anyURI"), lang := none, ref := none, text := some u } := by
      simp [encodeXmlAttr, ha.notRef, ha.notTime, ha.notLabel, Value.pyStrFull, Value.pyStr, hlex]
    refine ⟨_, valueBack_typed nsmap hstd ft attr _ "anyURI" _ henc (by decide), fun m _ => ⟨.uri u, ?_, rfl⟩⟩
    simp only [autoLiteral, hp, parseXsd]
  | float f =>
    obtain ⟨hlex, hh⟩ := hv
    have hp : xsdParserOf (⟨nsXsd, "double"⟩ : QName) = some .double := by decide
    have henc : encodeXmlAttr ft attr (.float f) = { xsiType := some ("xsd:" ++ "double"), lang := none, ref := none, text := some f.repr } := by
      simp [encodeXmlAttr, ha.notRef, ha.notTime, ha.notLabel, Value.pyStrFull, Value.pyStr, hlex]
    refine ⟨_, valueBack_typed nsmap hstd ft attr _ "double" _ henc (by decide), fun m _ => ⟨.float f, ?_, rfl⟩⟩
    simp only [fltOf, hh, autoLiteral, hp, parseXsd]
  | str s =>
    have hp : xsdParserOf (⟨nsXsd, "string"⟩ : QName) = some .str := by decide
    have hcases : encodeXmlAttr ft attr (.str s) = { xsiType := some ("xsd:" ++ "string"), lang := none, ref := none, text := some s } ∨
        encodeXmlAttr ft attr (.str s) = { xsiType := none, lang := none, ref := none, text := some s } := by
      simp only [encodeXmlAttr, ha.notRef, ha.notTime, ha.notLabel, Value.pyStrFull, Value.pyStr]
      split <;> simp_all
    rcases hcases with henc | henc
    · refine ⟨_, valueBack_typed nsmap hstd ft attr _ "string" _ henc (by decide), fun m _ => ⟨.str s, ?_, rfl⟩⟩
      simp only [autoLiteral, hp, parseXsd]
    · exact ⟨_, valueBack_plain nsmap ft attr _ s henc, fun m _ => ⟨.str s, rfl, rfl⟩⟩
  | qn q =>
    obtain ⟨q', hres, huri⟩ := hv
    have hxq := xmlQName_xsd hstd "QName"
    have henc : encodeXmlAttr ft attr (.qn q) = { xsiType := some "xsd:QName", lang := none, ref := none, text := some q.print } := by
      simp [encodeXmlAttr, ha.notRef]
    refine ⟨.val (.qn q'), ?_, fun m hm => ⟨.qn (m.validQ q').2, rfl, ?_⟩⟩
    · have e : ("xsd:" ++ "QName" : String) = "xsd:QName" := rfl
      rw [e] at hxq
      have hu : ((⟨nsXsd, "QName"⟩ : QName).uri == xsdUri ++ "QName") = true := by decide
      simp [valueBack, xmlValue, xmlValueStep, parsed, childOf, childNode, henc, hxq, hu, hres, Except.map]
    · show ((m.validQ q').2).uri = q.uri
      rw [NsMgr.validQ_uri hm q', huri]
  | lit s ty lang =>
    cases ty with
    | none => exact absurd hv (by simp [XmlValOk])
    | some t =>
      cases lang with
      | none =>
        obtain ⟨hnis, ⟨dt, hres, hdu, hnq⟩, hnp⟩ := hv
        have henc : encodeXmlAttr ft attr (.lit s (some t) none) =
            { xsiType := some (t.ns.pfx ++ ":" ++ t.loc), lang := none, ref := none, text := some s } := by
          simp [encodeXmlAttr, ha.notRef, hnis]
        have hnq' : ¬ (dt.uri = xsdUri ++ "QName") := by simpa using hnq
        refine ⟨.val (.lit s (some dt) none), ?_, fun m hm => ?_⟩
        · simp [valueBack, xmlValue, xmlValueStep, parsed, childOf, childNode, henc, hres, hnq']
        · have hpd : xsdParserOf dt = none := by rw [xsdParserOf_congr hdu]; exact hnp
          refine ⟨.lit s (some (m.validQ dt).2) none, ?_, ?_⟩
          · simp [autoLiteral, hpd, rehomeLit]
          · show s = s ∧ (none : Option String) = none ∧ (some (m.validQ dt).2).map QName.uri = (some t).map QName.uri
            refine ⟨rfl, rfl, ?_⟩
            simp only [Option.map_some, Option.some.injEq]
            rw [NsMgr.validQ_uri hm dt, hdu]
      | some l =>
        obtain ⟨rfl, hl⟩ := hv
        have hu : ((provQ "InternationalizedString").uri == provUri ++ "InternationalizedString") = true := by decide
        have henc : encodeXmlAttr ft attr (.lit s (some (provQ "InternationalizedString")) (some l)) =
            { xsiType := none, lang := some l, ref := none, text := some s } := by
          simp [encodeXmlAttr, ha.notRef, hu, Value.pyStrFull]
        refine ⟨.val (.lit s (some (provQ "InternationalizedString")) (some l)), ?_, fun m hm => ?_⟩
        · simp [valueBack, xmlValue, xmlValueStep, parsed, childOf, childNode, henc, hl]
        · refine ⟨.lit s (some (m.validQ (provQ "InternationalizedString")).2) (some l), ?_, ?_⟩
          · simp [autoLiteral, rehomeLit]
          · show s = s ∧ some l = some l ∧ (some (m.validQ (provQ "InternationalizedString")).2).map QName.uri = (some (provQ "InternationalizedString")).map QName.uri
            refine ⟨rfl, rfl, ?_⟩
            simp only [Option.map_some, Option.some.injEq]
            exact NsMgr.validQ_uri hm _

/-! ### one child element stands for one pair -/

theorem notTime_of_notTimeAttr {a : QName} (h : isTimeAttr a = false) : (a.uri == provUri ++ "time") = false := by
  simp only [isTimeAttr, inProvSet, attrLiterals, List.any_cons, List.any_nil, Bool.or_false, Bool.or_eq_false_iff] at h
  exact h.1

/-- a time-valued formal attribute written as text: the reader hands over the text, `add_attributes` parses it -/
theorem argFor_time (a a' : QName) (hu : a'.uri = a.uri) (ht : isTimeAttr a = true) (hr : isRefAttr a = false) (t : DateTime)
    (hv : ValidDT t) (flt : Option FloatAtom) : ArgFor ⟨.qn a', .val (.str t.iso), flt⟩ a (.dt t) := by
  intro par isColl m r hm
  have hu1 := NsMgr.validQ_uri hm a'
  have hm1 := NsMgr.validQ_inv1 hm a'
  have ht' : isTimeAttr (m.validQ a').2 = true := by rw [isTimeAttr_congr (hu1.trans hu)]; exact ht
  have hr' : isRefAttr (m.validQ a').2 = false := by rw [isRefAttr_congr (hu1.trans hu)]; exact hr
  refine ⟨(m.validQ a').1, (m.validQ a').2, .dt t, hm1, hu1.trans hu, rfl, ?_⟩
  simp [addOne, NsMgr.validName, convValue, hr', ht', parseIso_iso t hv]

/-- prov:label values the XML form carries: strings, plain or language-tagged -/
def LabelValOk : Value → Prop
  | .str _ => True
  | .lit _ (some t) (some l) => t = provQ "InternationalizedString" ∧ l ≠ ""
  | _ => False

/-- what is asked of a pair for the XML round trip (see `XmlValOk`), by class of attribute -/
def XmlPairOk (nsmap : List (Option String × String)) (hints : List (String × FloatAtom)) (a : QName) (v : Value) : Prop :=
  if isRefAttr a then ∃ q q', v = .qn q ∧ q.print ≠ "" ∧ xmlQName nsmap q.print = .ok q' ∧ q'.uri = q.uri
  else if isTimeAttr a then ∃ t, v = .dt t ∧ ValidDT t ∧ a.ns.pfx = "prov" ∧ Text.sContains a.loc.toLower "time" = true
  else if a.uri == provUri ++ "label" then LabelValOk v
  else XmlValOk nsmap hints a v

theorem valueBack_label (nsmap) (ft : Bool) (a : QName) (hr : isRefAttr a = false) (hl : (a.uri == provUri ++ "label") = true)
    (v : Value) (hv : LabelValOk v) : ∃ av, valueBack nsmap ft a v = .ok av ∧ ∀ flt, Converts av flt v := by
  cases v with
  | str s =>
    have henc : encodeXmlAttr ft a (.str s) = { xsiType := none, lang := none, ref := none, text := some s } := by
      simp [encodeXmlAttr, hr, hl, Value.pyStrFull, Value.pyStr]
    exact ⟨_, valueBack_plain nsmap ft a _ s henc, fun _ m _ => ⟨.str s, rfl, rfl⟩⟩
  | lit s ty lang =>
    cases ty with
    | none => exact absurd hv (by simp [LabelValOk])
    | some t =>
      cases lang with
      | none => exact absurd hv (by simp [LabelValOk])
      | some l =>
        obtain ⟨rfl, hl'⟩ := hv
        have hu : ((provQ "InternationalizedString").uri == provUri ++ "InternationalizedString") = true := by decide
        have henc : encodeXmlAttr ft a (.lit s (some (provQ "InternationalizedString")) (some l)) =
            { xsiType := none, lang := some l, ref := none, text := some s } := by
          simp [encodeXmlAttr, hr, hu, Value.pyStrFull]
        refine ⟨.val (.lit s (some (provQ "InternationalizedString")) (some l)), ?_, fun flt m hm => ?_⟩
        · simp [valueBack, xmlValue, xmlValueStep, parsed, childOf, childNode, henc, hl']
        · refine ⟨.lit s (some (m.validQ (provQ "InternationalizedString")).2) (some l), ?_, ?_⟩
          · simp [autoLiteral, rehomeLit]
          · show s = s ∧ some l = some l ∧ (some (m.validQ (provQ "InternationalizedString")).2).map QName.uri = (some (provQ "InternationalizedString")).map QName.uri
            refine ⟨rfl, rfl, ?_⟩
            simp only [Option.map_some, Option.some.injEq]
            exact NsMgr.validQ_uri hm _
  | _ => exact absurd hv (by simp [LabelValOk])

/-- **one child, one pair**: the value read from the child written for `(a, v)`, under any name `a'` with the URI of `a`,
    is an `add_attributes` argument that stands for `(a, v)` -/
theorem c02_child_argFor (nsmap) (hstd : StdMap nsmap) (hints : List (String × FloatAtom)) (ft : Bool) (a : QName) (v : Value)
    (hok : XmlPairOk nsmap hints a v) (a' : QName) (hu : a'.uri = a.uri) :
    ∃ av, valueBack nsmap ft a v = .ok av ∧ ArgFor ⟨.qn a', av, fltOf hints av⟩ a v := by
  unfold XmlPairOk at hok
  by_cases href : isRefAttr a = true
  · simp only [href, if_true] at hok
    obtain ⟨q, q', rfl, hne, hres, huri⟩ := hok
    have hne' : (q.print != "") = true := by simpa using hne
    have henc : encodeXmlAttr ft a (.qn q) = { xsiType := none, lang := none, ref := some q.print, text := none } := by
      simp [encodeXmlAttr, href, hne', Value.pyStrFull, Value.pyStr]
    refine ⟨.val (.qn q'), ?_, ?_⟩
    · simp [valueBack, xmlValue, xmlValueStep, parsed, childOf, childNode, henc, hres, Except.map]
    · have hpo : PairOk a (.qn q') := ⟨fun _ => rfl, fun ht => by
        have : isProvAttr a = true := by simp [isProvAttr, href]
        exact absurd ht (by
          intro h
          simp only [isRefAttr, isTimeAttr, inProvSet, attrQNames, attrLiterals, List.any_cons, List.any_nil, Bool.or_false,
            Bool.or_eq_true, beq_iff_eq] at href h
          rcases h with h | h | h <;> rcases href with r | r | r | r | r | r | r | r | r | r | r | r | r | r | r | r | r | r | r | r | r | r | r <;>
            (rw [h] at r; revert r; decide)), fun hp => by simp [isProvAttr, href] at hp⟩
      exact argFor_formal a a' hu (.qn q) (.qn q') hpo huri
  · have href' : isRefAttr a = false := by simpa using href
    simp only [href', Bool.false_eq_true, if_false] at hok
    by_cases htime : isTimeAttr a = true
    · simp only [htime, if_true] at hok
      obtain ⟨t, rfl, hval, hpfx, hcont⟩ := hok
      have henc : encodeXmlAttr ft a (.dt t) = { xsiType := none, lang := none, ref := none, text := some t.iso } := by
        have hp1 : (a.ns.pfx != "prov") = false := by simp [hpfx]
        simp only [encodeXmlAttr, href', Bool.false_and, Bool.not_false, Bool.and_true]
        split <;> simp_all
      exact ⟨_, valueBack_plain nsmap ft a _ t.iso henc, argFor_time a a' hu htime href' t hval _⟩
    · have htime' : isTimeAttr a = false := by simpa using htime
      simp only [htime', Bool.false_eq_true, if_false] at hok
      have hnp : isProvAttr a = false := by simp [isProvAttr, href', htime']
      by_cases hlab : (a.uri == provUri ++ "label") = true
      · simp only [hlab, if_true] at hok
        obtain ⟨av, h1, h2⟩ := valueBack_label nsmap ft a href' hlab v hok
        exact ⟨av, h1, argFor_other a a' hu hnp v av _ (h2 _)⟩
      · have hlab' : (a.uri == provUri ++ "label") = false := by simpa using hlab
        simp only [hlab', Bool.false_eq_true, if_false] at hok
        obtain ⟨av, h1, h2⟩ := c02_value_any nsmap hstd hints ft a ⟨href', htime', notTime_of_notTimeAttr htime', hlab'⟩ v hok
        exact ⟨av, h1, argFor_other a a' hu hnp v av _ h2⟩

/-! ### all children of a record element -/

/-- the `add_attributes` argument `deserialize_subtree` builds from one extracted pair -/
def argOfPair (hints : List (String × FloatAtom)) (p : QName × ArgVal) : AttrArg :=
  { name := .qn p.1, value := p.2, flt := fltOf hints p.2 }

/-- what is asked of every pair the writer emits: values as in `XmlPairOk`, and the element name resolves, in the element's
    scope, to a name with the attribute's URI (C03 (c)) -/
def ChildOk (nsmap : List (Option String × String)) (hints : List (String × FloatAtom)) (ft : Bool)
    (pfxOf : QName → Option String) (p : QName × Value) : Prop :=
  XmlPairOk nsmap hints p.1 p.2 ∧
    ∃ a', xmlQName nsmap (xmlNameStr (parsed nsmap (pfxOf p.1) (childOf ft p))) = .ok a' ∧ a'.uri = p.1.uri

theorem extractAttr_child (nsmap) (hstd : StdMap nsmap) (hints : List (String × FloatAtom)) (ft : Bool)
    (pfxOf : QName → Option String) (p : QName × Value) (hok : ChildOk nsmap hints ft pfxOf p) :
    ∃ x : QName × ArgVal, extractAttr (parsed nsmap (pfxOf p.1) (childOf ft p)) = .ok x ∧ ArgFor (argOfPair hints x) p.1 p.2 := by
  obtain ⟨hv, a', hn, hu⟩ := hok
  obtain ⟨av, h1, h2⟩ := c02_child_argFor nsmap hstd hints ft p.1 p.2 hv a' hu
  refine ⟨(a', av), ?_, h2⟩
  unfold extractAttr
  have hns : (parsed nsmap (pfxOf p.1) (childOf ft p)).nsmap = nsmap := rfl
  rw [hns, hn, xmlValue_parsed_eq, h1]

theorem mapExcept_children (nsmap) (hstd : StdMap nsmap) (hints : List (String × FloatAtom)) (ft : Bool)
    (pfxOf : QName → Option String) : ∀ (ps : List (QName × Value)), (∀ p ∈ ps, ChildOk nsmap hints ft pfxOf p) →
    ∃ xs : List (QName × ArgVal), Heap.mapExcept extractAttr (ps.map (fun p => parsed nsmap (pfxOf p.1) (childOf ft p))) = .ok xs ∧
      xs.length = ps.length ∧ ∀ y ∈ xs.zip ps, ArgFor (argOfPair hints y.1) y.2.1 y.2.2
  | [], _ => ⟨[], rfl, rfl, fun y hy => by simp at hy⟩
  | p :: rest, h => by
    obtain ⟨x, hx, hfx⟩ := extractAttr_child nsmap hstd hints ft pfxOf p (h p List.mem_cons_self)
    obtain ⟨xs, hxs, hlen, hall⟩ := mapExcept_children nsmap hstd hints ft pfxOf rest (fun q hq => h q (List.mem_cons_of_mem _ hq))
    refine ⟨x :: xs, ?_, by simp [hlen], ?_⟩
    · simp only [List.map_cons, Heap.mapExcept, hx, hxs]
    · intro y hy
      simp only [List.zip_cons_cons, List.mem_cons] at hy
      rcases hy with rfl | hy
      · exact hfx
      · exact hall y hy

/-- PROV attributes occur once among the pairs of a stored record, whichever way round one looks -/
theorem flat_norepeat_symm (rc : Record) (hs : Stored rc) :
    rc.flat.Pairwise (fun p q => (isProvAttr p.1 = true ∨ isProvAttr q.1 = true) → p.1.uri ≠ q.1.uri) := by
  refine (flat_norepeat rc hs).imp ?_
  intro p q h hor e
  rcases hor with hp | hq
  · exact h (by rw [← isProvAttr_congr e]; exact hp) e
  · exact h hq e

theorem deriveLabel_sublist (k : RecKind) (attrs : List (QName × Value)) : (deriveLabel k attrs).2.Sublist attrs := by
  unfold deriveLabel
  split
  · exact List.eraseP_sublist
  · exact List.Sublist.refl _

/-- **C02 for one record**: the children of the element the PROV-XML writer emits for a stored record — all pairs left after
    `_derive_record_label`, in the writer's order — are accepted by `_extract_attributes`, and the arguments handed to
    `add_attributes` build, in any namespace-manager state, from an empty record, a record with exactly those pairs: every
    one is there (same attribute URI, `==`-equal value of the same kind) and nothing else is. For both `force_types` values. -/
theorem c02_record (nsmap) (hstd : StdMap nsmap) (hints : List (String × FloatAtom)) (ft : Bool)
    (pfxOf : QName → Option String) (r : Record) (hs : Stored r)
    (hok : ∀ p ∈ (deriveLabel r.kind r.flat).2, ChildOk nsmap hints ft pfxOf p ∧ valOk p.2) :
    ∃ xs : List (QName × ArgVal),
      Heap.mapExcept extractAttr ((encodeXmlRecord ft r).children.zip (sortedAttributes r.kind (deriveLabel r.kind r.flat).2) |>.map
        (fun cp => parsed nsmap (pfxOf cp.2.1) cp.1)) = .ok xs ∧
      ∀ (par : Option NsMgr) (isColl : Bool) (m : NsMgr), m.Inv1 → ∀ r0 : Record, r0.attrs = [] →
        ∃ m' r', addAttrsLoop par isColl m r0 (xs.map (argOfPair hints)) = (m', r', none) ∧
          m'.Inv1 ∧ r'.kind = r0.kind ∧ r'.id = r0.id ∧
          (∀ x ∈ (deriveLabel r.kind r.flat).2, ∃ y ∈ r'.flat, y.1.uri = x.1.uri ∧ y.2.keyEq x.2 = true) ∧
          (∀ y ∈ r'.flat, ∃ x ∈ (deriveLabel r.kind r.flat).2, y.1.uri = x.1.uri ∧ y.2.keyEq x.2 = true) := by
  generalize hps : sortedAttributes r.kind (deriveLabel r.kind r.flat).2 = ps
  have hperm : ps.Perm (deriveLabel r.kind r.flat).2 := by rw [← hps]; exact c02_sortedAttributes_perm _ _
  have hch : (encodeXmlRecord ft r).children = ps.map (childOf ft) := by
    rw [← hps]; rfl
  have hzip : ((encodeXmlRecord ft r).children.zip ps).map (fun cp => parsed nsmap (pfxOf cp.2.1) cp.1) =
      ps.map (fun p => parsed nsmap (pfxOf p.1) (childOf ft p)) := by
    rw [hch]
    clear hch hperm hps
    induction ps with
    | nil => rfl
    | cons p rest ih => simp only [List.map_cons, List.zip_cons_cons, ih]
  rw [hzip]
  have hokps : ∀ p ∈ ps, ChildOk nsmap hints ft pfxOf p ∧ valOk p.2 := fun p hp => hok p (hperm.mem_iff.mp hp)
  obtain ⟨xs, hxs, hlen, hall⟩ := mapExcept_children nsmap hstd hints ft pfxOf ps (fun p hp => (hokps p hp).1)
  refine ⟨xs, hxs, ?_⟩
  intro par isColl m hm r0 hr0
  -- the items of `loop_args`
  let items : List (AttrArg × QName × Value) := (xs.zip ps).map (fun y => (argOfPair hints y.1, y.2.1, y.2.2))
  have hargs : items.map (·.1) = xs.map (argOfPair hints) := by
    simp only [items, List.map_map]
    have : ((fun x : AttrArg × QName × Value => x.1) ∘ fun y : (QName × ArgVal) × QName × Value => (argOfPair hints y.1, y.2.1, y.2.2)) =
        (argOfPair hints) ∘ Prod.fst := rfl
    rw [this, ← List.map_map, List.map_fst_zip (by omega)]
  have hpairs : items.map (·.2) = ps := by
    simp only [items, List.map_map]
    have : ((fun x : AttrArg × QName × Value => x.2) ∘ fun y : (QName × ArgVal) × QName × Value => (argOfPair hints y.1, y.2.1, y.2.2)) =
        Prod.snd := rfl
    rw [this, List.map_snd_zip (by omega)]
  have hget : ∀ a, r0.get a = [] := fun a => by simp [Record.get, hr0]
  have hnr : NoRepeatA items := by
    have h1 := (flat_norepeat_symm r hs).sublist (deriveLabel_sublist r.kind r.flat)
    have h2 : ps.Pairwise (fun p q => (isProvAttr p.1 = true ∨ isProvAttr q.1 = true) → p.1.uri ≠ q.1.uri) :=
      (hperm.pairwise_iff (fun {a b} h hor e => h (Or.symm hor) e.symm)).mpr h1
    have h3 : (items.map (·.2)).Pairwise (fun p q => isProvAttr q.1 = true → p.1.uri ≠ q.1.uri) := by
      rw [hpairs]
      exact h2.imp (fun h hq => h (Or.inr hq))
    exact (List.pairwise_map.mp h3)
  obtain ⟨m', r', h1, h2, h3, h4, _, h6, h7⟩ := loop_args par isColl items m hm r0
    (fun it hit => by
      obtain ⟨y, hy, rfl⟩ := List.mem_map.mp hit
      exact ⟨hall y hy, (hokps y.2 (List.of_mem_zip hy).2).2⟩)
    (fun it _ _ => hget _) hnr
  have hflat0 : r0.flat = [] := by simp [Record.flat, hr0]
  refine ⟨m', r', by rw [← hargs]; exact h1, h2, h3, h4, ?_, ?_⟩
  · intro x hx
    have hxps : x ∈ items.map (·.2) := by rw [hpairs]; exact hperm.mem_iff.mpr hx
    obtain ⟨it, hit, rfl⟩ := List.mem_map.mp hxps
    obtain ⟨y, hy, hy1, hy2⟩ := h6 it hit
    exact ⟨y, hy, hy1, hy2⟩
  · intro y hy
    rcases h7 y hy with h0 | ⟨it, hit, hu, hk⟩
    · rw [hflat0] at h0; simp at h0
    · have : it.2 ∈ items.map (·.2) := List.mem_map_of_mem hit
      rw [hpairs] at this
      exact ⟨it.2, hperm.mem_iff.mp this, hu, hk⟩

/-! ### the element name gives back the kind and the consumed prov:type -/

theorem c02_base_label (k : RecKind) : xmlRecordKind k.provN = some (k, none) := by cases k <;> decide

theorem c02_subtype_label (s : String × String × RecKind) (hs : s ∈ subtypeTable) : xmlRecordKind s.2.1 = some (s.2.2, some s.1) := by
  revert s
  decide

theorem subtype_find (s : String × String × RecKind) (hs : s ∈ subtypeTable) (u : String) (hu : u = provUri ++ s.1) :
    subtypeTable.find? (fun t => u == provUri ++ t.1) = some s := by
  subst hu
  revert s
  decide

/-- **the element label is read back as the record's kind, plus the prov:type it stood for**: when `_derive_record_label`
    takes a pair `(a, 'prov:Sub')` out, the reader's table gives the same base kind and re-asserts a prov:type with the URI
    of the value taken out, under a name with the URI of `a` (prov:type) -/
theorem c02_label_restores (k : RecKind) (attrs : List (QName × Value)) :
    (deriveLabel k attrs = (k.provN, attrs) ∧ xmlRecordKind (deriveLabel k attrs).1 = some (k, none)) ∨
    (∃ a q l₁ l₂ t, attrs = l₁ ++ (a, .qn q) :: l₂ ∧ (deriveLabel k attrs).2 = l₁ ++ l₂ ∧
      xmlRecordKind (deriveLabel k attrs).1 = some (k, some t) ∧ (provQ t).uri = q.uri ∧ a.uri = (provQ "type").uri) := by
  rcases c02_deriveLabel_exact k attrs with ⟨_, h⟩ | ⟨a, q, l₁, l₂, h1, _, h3, h4, s, hs, hq, hk, hl⟩
  · left
    exact ⟨h, by rw [h]; exact c02_base_label k⟩
  · right
    refine ⟨a, q, l₁, l₂, s.1, h1, h4, ?_, hq.symm, ?_⟩
    · rw [hl, subtype_find s hs q.uri hq, c02_subtype_label s hs, hk]
    · simp only [isSubtypePair, Bool.and_eq_true, beq_iff_eq] at h3
      exact h3.1

/-! ### non-vacuity: `wasGeneratedBy(ex:g; ex:e, ex:a, -, [ex:k=1, ex:k="abc" %% ex:T, prov:label="étiquette"@fr])` -/

def nsEx : List (Option String × String) :=
  [(some "ex", "http://example.org/"), (some "prov", provUri), (some "xsd", xmlXsdUri)]

theorem nsEx_std : StdMap nsEx := ⟨by decide, by decide⟩

theorem rcEx_flat : C09.rcEx.flat = [(provQ "entity", .qn (C09.exQ "e")), (provQ "activity", .qn (C09.exQ "a")),
    (C09.exQ "k", .int 1), (C09.exQ "k", .lit "abc" (some (C09.exQ "T")) none),
    (provQ "label", .lit "étiquette" (some (provQ "InternationalizedString")) (some "fr"))] := by decide +kernel

theorem xmlNameStr_child (nsmap : List (Option String × String)) (pfx : String) (ft : Bool) (p : QName × Value) :
    xmlNameStr (parsed nsmap (some pfx) (childOf ft p)) = if pfx == "" then p.1.loc else pfx ++ ":" ++ p.1.loc := rfl

theorem xmlQName_ex (l : String) : xmlQName nsEx ("ex:" ++ l) = .ok ⟨⟨"ex", "http://example.org/"⟩, l⟩ := by
  have hs : splitAt1 ':' ("ex:" ++ l).toList = some ("ex".toList, l.toList) := by
    have : ("ex:" ++ l).toList = "ex".toList ++ ':' :: l.toList := by simp [String.toList_append]
    rw [this]
    exact splitAt1_append ':' _ _ (by decide)
  unfold xmlQName
  rw [hs]
  simp [nsEx, nsmapGet, xmlXsdUri, provUri, nsProv]

theorem xmlQName_prov (l : String) : xmlQName nsEx ("prov:" ++ l) = .ok ⟨nsProv, l⟩ := by
  have hs : splitAt1 ':' ("prov:" ++ l).toList = some ("prov".toList, l.toList) := by
    have : ("prov:" ++ l).toList = "prov".toList ++ ':' :: l.toList := by simp [String.toList_append]
    rw [this]
    exact splitAt1_append ':' _ _ (by decide)
  unfold xmlQName
  rw [hs]
  simp [nsEx, nsmapGet, xmlXsdUri, provUri, nsProv]

example (ft : Bool) : ∀ p ∈ (deriveLabel C09.rcEx.kind C09.rcEx.flat).2,
    ChildOk nsEx [] ft (fun a => some a.ns.pfx) p ∧ valOk p.2 := by
  have hd : (deriveLabel C09.rcEx.kind C09.rcEx.flat).2 = C09.rcEx.flat := by decide +kernel
  rw [hd, rcEx_flat]
  intro p hp
  simp only [List.mem_cons, List.mem_nil_iff, or_false] at hp
  have nEnt : xmlQName nsEx "prov:entity" = .ok (provQ "entity") := xmlQName_prov "entity"
  have nAct : xmlQName nsEx "prov:activity" = .ok (provQ "activity") := xmlQName_prov "activity"
  have nLab : xmlQName nsEx "prov:label" = .ok (provQ "label") := xmlQName_prov "label"
  have nK : xmlQName nsEx "ex:k" = .ok (C09.exQ "k") := xmlQName_ex "k"
  have nE : xmlQName nsEx "ex:e" = .ok (C09.exQ "e") := xmlQName_ex "e"
  have nA : xmlQName nsEx "ex:a" = .ok (C09.exQ "a") := xmlQName_ex "a"
  have nT : xmlQName nsEx "ex:T" = .ok (C09.exQ "T") := xmlQName_ex "T"
  rcases hp with rfl | rfl | rfl | rfl | rfl
  · refine ⟨⟨?_, provQ "entity", by rw [xmlNameStr_child]; exact nEnt, rfl⟩, trivial⟩
    have : isRefAttr (provQ "entity") = true := by decide
    simp only [XmlPairOk, this, if_true]
    exact ⟨C09.exQ "e", C09.exQ "e", rfl, by decide, nE, rfl⟩
  · refine ⟨⟨?_, provQ "activity", by rw [xmlNameStr_child]; exact nAct, rfl⟩, trivial⟩
    have : isRefAttr (provQ "activity") = true := by decide
    simp only [XmlPairOk, this, if_true]
    exact ⟨C09.exQ "a", C09.exQ "a", rfl, by decide, nA, rfl⟩
  · refine ⟨⟨?_, C09.exQ "k", by rw [xmlNameStr_child]; exact nK, rfl⟩, trivial⟩
    have h1 : isRefAttr (C09.exQ "k") = false := by decide
    have h2 : isTimeAttr (C09.exQ "k") = false := by decide
    have h3 : ((C09.exQ "k").uri == provUri ++ "label") = false := by decide
    simp only [XmlPairOk, h1, h2, h3, Bool.false_eq_true, if_false, XmlValOk]
    decide +kernel
  · refine ⟨⟨?_, C09.exQ "k", by rw [xmlNameStr_child]; exact nK, rfl⟩, trivial⟩
    have h1 : isRefAttr (C09.exQ "k") = false := by decide
    have h2 : isTimeAttr (C09.exQ "k") = false := by decide
    have h3 : ((C09.exQ "k").uri == provUri ++ "label") = false := by decide
    simp only [XmlPairOk, h1, h2, h3, Bool.false_eq_true, if_false, XmlValOk]
    exact ⟨by decide, ⟨C09.exQ "T", nT, rfl, by decide⟩, by decide⟩
  · refine ⟨⟨?_, provQ "label", by rw [xmlNameStr_child]; exact nLab, rfl⟩, trivial⟩
    have h1 : isRefAttr (provQ "label") = false := by decide
    have h2 : isTimeAttr (provQ "label") = false := by decide
    have h3 : ((provQ "label").uri == provUri ++ "label") = true := by decide
    simp only [XmlPairOk, h1, h2, h3, Bool.false_eq_true, if_false, if_true, LabelValOk]
    exact ⟨trivial, by decide⟩

end Prov.C02

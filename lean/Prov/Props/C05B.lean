/-
  C05, part 2: the normal form holds in EVERY reachable heap — for every sequence of the public mutators
  (document / bundle creation, namespace operations, new_record / factories, add_attributes, set_time,
  add_asserted_type, add_record), by induction over the sequence. The PROV-JSON membership compatibility path of
  add_attributes (`prov:collection` given as a QualifiedName key) is the one excluded call form, as in part 1.
-/
import Prov.Props.C05
import Prov.Lemmas.Frame

namespace Prov.C05
open Prov Heap

/-- every manager satisfies the C03 invariant and every record is in normal form -/
def HeapNormal (h : Heap) : Prop := (∀ i, (h.mgrCell i).m.Inv1) ∧ (∀ r, Normal (h.recCell r).r)

theorem default_mgr_inv1 : (default : MgrCell).m.Inv1 :=
  ⟨(fun _ _ h => nomatch h), (fun _ _ h => nomatch h)⟩

theorem default_rec_normal : Normal (default : RecCell).r := by
  have h : (default : RecCell).r = ⟨default, none, []⟩ := rfl
  rw [h]
  exact normal_empty _ _

theorem heapNormal_empty : HeapNormal Heap.empty := by
  constructor
  · intro i; simp only [Heap.mgrCell, Heap.empty]; simpa using default_mgr_inv1
  · intro r; simp only [Heap.recCell, Heap.empty]; simpa using default_rec_normal

theorem mgrCell_setMgr (h : Heap) (c i : Nat) (m : NsMgr) :
    ((h.setMgr c m).mgrCell i).m = (h.mgrCell i).m ∨ ((h.setMgr c m).mgrCell i).m = m := by
  unfold Heap.setMgr Heap.mgrCell
  simp only [Array.getD_eq_getD_getElem?, Array.getElem?_setIfInBounds]
  split
  · split
    · right; simp
    · left; simp_all
  · left; rfl

theorem heapNormal_setMgr {h : Heap} (hn : HeapNormal h) (c : Nat) (m : NsMgr) (hm : m.Inv1) : HeapNormal (h.setMgr c m) := by
  constructor
  · intro i
    rcases mgrCell_setMgr h c i m with e | e
    · rw [e]; exact hn.1 i
    · rw [e]; exact hm
  · intro r; rw [recCell_setMgr]; exact hn.2 r

theorem recCell_setRec (h : Heap) (r r' : Nat) (rc : Record) :
    ((h.setRec r rc).recCell r').r = (h.recCell r').r ∨ ((h.setRec r rc).recCell r').r = rc := by
  unfold Heap.setRec Heap.recCell
  simp only [Array.getD_eq_getD_getElem?, Array.getElem?_setIfInBounds]
  split
  · split
    · right; simp
    · left; simp_all
  · left; rfl

theorem mgrCell_setRec (h : Heap) (r i : Nat) (rc : Record) : (h.setRec r rc).mgrCell i = h.mgrCell i := rfl

theorem heapNormal_setRec {h : Heap} (hn : HeapNormal h) (r : Nat) (rc : Record) (hr : Normal rc) : HeapNormal (h.setRec r rc) := by
  constructor
  · intro i; rw [mgrCell_setRec]; exact hn.1 i
  · intro r'
    rcases recCell_setRec h r r' rc with e | e
    · rw [e]; exact hn.2 r'
    · rw [e]; exact hr

theorem heapNormal_pushRec {h : Heap} (hn : HeapNormal h) (cell : RecCell) (hr : Normal cell.r) :
    HeapNormal { h with recs := h.recs.push cell } := by
  constructor
  · intro i; exact hn.1 i
  · intro r
    simp only [Heap.recCell, Array.getD_eq_getD_getElem?, Array.getElem?_push]
    split
    · simpa using hr
    · have := hn.2 r
      simpa [Heap.recCell, Array.getD_eq_getD_getElem?] using this

theorem heapNormal_conts {h : Heap} (hn : HeapNormal h) (cs : Array Cont) : HeapNormal { h with conts := cs } :=
  ⟨fun i => hn.1 i, fun r => hn.2 r⟩

theorem mgrOf_inv1 {h : Heap} (hn : HeapNormal h) (c : Nat) : (h.mgrOf c).Inv1 := hn.1 _

theorem addNss_inv1 (m : NsMgr) (hm : m.Inv1) (nss : List Ns) : (m.addNss nss).Inv1 := by
  unfold NsMgr.addNss
  induction nss generalizing m with
  | nil => exact hm
  | cons n rest ih => exact ih _ (NsMgr.addNs_inv1 hm n)

theorem heapNormal_allocCont {h : Heap} (hn : HeapNormal h) (isDoc : Bool) (id : Option QName) (nss : List Ns) (doc : Option Nat) :
    HeapNormal (h.allocCont isDoc id nss doc).1 := by
  unfold Heap.allocCont Heap.allocMgr
  apply heapNormal_conts
  constructor
  · intro i
    simp only [Heap.mgrCell, Array.getD_eq_getD_getElem?, Array.getElem?_push]
    split
    · simpa using addNss_inv1 _ NsMgr.init_inv1 nss
    · have := hn.1 i
      simpa [Heap.mgrCell, Array.getD_eq_getD_getElem?] using this
  · intro r; exact hn.2 r

theorem heapNormal_addRecordRaw {h : Heap} (hn : HeapNormal h) (c r : Nat) : HeapNormal (h.addRecordRaw c r) := by
  unfold Heap.addRecordRaw Heap.setCont
  exact heapNormal_conts hn _

/-- `mkRecord` with a non-collection call -/
theorem heapNormal_mkRecord {h : Heap} (hn : HeapNormal h) (c : Nat) (k : RecKind) (id : Option QName) (attrs : List AttrArg)
    (hc : isCollectionCall attrs = false) : HeapNormal (h.mkRecord c k id attrs).1 := by
  unfold Heap.mkRecord
  split
  · exact hn
  · have hres := c05_addAttributes_preserves_normal (h.parentOf c) (h.mgrOf c) (mgrOf_inv1 hn c) ⟨k, id, []⟩ attrs hc
      (normal_empty k id)
    generalize Record.addAttributes (h.parentOf c) (h.mgrOf c) ⟨k, id, []⟩ attrs = res at hres
    obtain ⟨m', rc, e⟩ := res
    simp only
    have h1 := heapNormal_setMgr hn c m' hres.2
    cases e with
    | some err => exact h1
    | none => exact heapNormal_pushRec h1 ⟨c, rc⟩ hres.1

theorem heapNormal_validName {h : Heap} (hn : HeapNormal h) (c : Nat) (x : NameArg) : HeapNormal (h.validName c x).1 := by
  unfold Heap.validName
  exact heapNormal_setMgr hn c _ (NsMgr.validName_inv1 (mgrOf_inv1 hn c) _ _)

/-- `ProvDocument.bundle(identifier)` -/
theorem heapNormal_bundle {h : Heap} (hn : HeapNormal h) (d : Nat) (idArg : NameArg) : HeapNormal (h.bundle d idArg).1 := by
  unfold Heap.bundle
  split
  · exact hn
  · have h1 := heapNormal_validName hn d idArg
    generalize h.validName d idArg = res at h1
    obtain ⟨hh, vid⟩ := res
    simp only at h1 ⊢
    cases vid with
    | none => exact h1
    | some q =>
      simp only
      split
      · exact h1
      · have h2 := heapNormal_allocCont h1 false (some q) [] (some d)
        generalize hh.allocCont false (some q) [] (some d) = al at h2
        obtain ⟨h3, nb⟩ := al
        simp only at h2 ⊢
        unfold Heap.setCont
        exact heapNormal_conts h2 _

theorem heapNormal_newRecord {h : Heap} (hn : HeapNormal h) (c : Nat) (k : RecKind) (idArg : NameArg) (attrs : List AttrArg)
    (hc : isCollectionCall attrs = false) : HeapNormal (h.newRecord c k idArg attrs).1 := by
  unfold Heap.newRecord
  have h1 := heapNormal_validName hn c idArg
  generalize h.validName c idArg = res at h1
  obtain ⟨hh, id⟩ := res
  simp only at h1 ⊢
  have h2 := heapNormal_mkRecord h1 c k id attrs hc
  generalize hh.mkRecord c k id attrs = res2 at h2
  obtain ⟨h3, e⟩ := res2
  cases e with
  | ok r => exact heapNormal_addRecordRaw h2 c r
  | error err => exact h2

theorem heapNormal_addAttributes {h : Heap} (hn : HeapNormal h) (r : Nat) (attrs : List AttrArg)
    (hc : isCollectionCall attrs = false) : HeapNormal (h.addAttributes r attrs).1 := by
  unfold Heap.addAttributes
  dsimp only
  have hres := c05_addAttributes_preserves_normal (h.parentOf (h.recCell r).bundle) (h.mgrOf (h.recCell r).bundle)
    (mgrOf_inv1 hn _) (h.recCell r).r attrs hc (hn.2 r)
  generalize Record.addAttributes (h.parentOf (h.recCell r).bundle) (h.mgrOf (h.recCell r).bundle) (h.recCell r).r attrs = res at hres ⊢
  obtain ⟨m', rc, e⟩ := res
  exact heapNormal_setRec (heapNormal_setMgr hn (h.recCell r).bundle m' hres.2) r rc hres.1

theorem heapNormal_addAssertedType {h : Heap} (hn : HeapNormal h) (r : Nat) (v : ArgVal) (flt : Option FloatAtom) :
    HeapNormal (h.addAssertedType r v flt).1 := by
  unfold Heap.addAssertedType
  have hm := mgrOf_inv1 hn (h.recCell r).bundle
  have hi := autoLiteral_inv1 _ hm v flt
  have h1 := heapNormal_setMgr hn (h.recCell r).bundle _ hi
  dsimp only
  cases hconv : (autoLiteral (h.mgrOf (h.recCell r).bundle) v flt).2 with
  | ok v' =>
    simp only []
    exact heapNormal_setRec h1 r _ (c05_addAssertedType_normal _ hm _ v flt v' (hn.2 r) hconv)
  | isNone => exact h1
  | crash e => exact h1

/-! ### set_time replaces a slot -/

theorem attrsGet_replace_same (as : List (QName × List Value)) (a b : QName) (v : Value) (h : a.uri = b.uri) :
    attrsGet (attrsReplace as a v) b = [v] := by
  induction as with
  | nil =>
    have : a.same b = true := QName.same_iff.mpr h
    simp [attrsReplace, attrsGet_cons, this]
  | cons hd tl ih =>
    obtain ⟨k, vs⟩ := hd
    by_cases hk : k.same a = true
    · have hkb : k.same b = true := QName.same_iff.mpr ((QName.same_iff.mp hk).trans h)
      simp [attrsReplace, attrsGet_cons, hk, hkb]
    · have hk' : k.same a = false := by simpa using hk
      have hkb : k.same b = false := by
        rw [QName.same_false_iff] at hk' ⊢
        intro e; exact hk' (e.trans h.symm)
      simp [attrsReplace, hk', attrsGet_cons, hkb, ih]

theorem attrsGet_replace_other (as : List (QName × List Value)) (a b : QName) (v : Value) (h : a.uri ≠ b.uri) :
    attrsGet (attrsReplace as a v) b = attrsGet as b := by
  induction as with
  | nil =>
    have : a.same b = false := QName.same_false_iff.mpr h
    simp [attrsReplace, attrsGet_cons, attrsGet_nil, this]
  | cons hd tl ih =>
    obtain ⟨k, vs⟩ := hd
    by_cases hk : k.same a = true
    · have hkb : k.same b = false := by
        rw [QName.same_false_iff]
        intro e; exact h ((QName.same_iff.mp hk).symm.trans e)
      simp [attrsReplace, attrsGet_cons, hk, hkb]
    · have hk' : k.same a = false := by simpa using hk
      by_cases hkb : k.same b = true
      · simp [attrsReplace, hk', attrsGet_cons, hkb]
      · have hkb' : k.same b = false := by simpa using hkb
        simp [attrsReplace, hk', attrsGet_cons, hkb', ih]

/-- replacing a time slot by a datetime keeps the record normal -/
theorem replace_time_normal (rc : Record) (slot : String) (v : Value) (hn : Normal rc) (hv : isDt v = true)
    (ht : isTimeAttr (formalQ slot) = true) :
    Normal { rc with attrs := attrsReplace rc.attrs (formalQ slot) v } := by
  have hget : ∀ b, ({ rc with attrs := attrsReplace rc.attrs (formalQ slot) v } : Record).get b =
      if (formalQ slot).uri = b.uri then [v] else rc.get b := by
    intro b
    rw [Record.get_eq, Record.get_eq]
    by_cases e : (formalQ slot).uri = b.uri
    · rw [if_pos e]; exact attrsGet_replace_same _ _ _ _ e
    · rw [if_neg e]; exact attrsGet_replace_other _ _ _ _ e
  refine ⟨?_, ?_, ?_, ?_⟩
  · intro a ha
    rw [hget a]
    split
    · simp
    · exact hn.single a ha
  · intro a w ha hw
    rw [hget a] at hw
    split at hw
    · next e =>
      have : isTimeAttr a = true := by rw [← isTimeAttr_congr e]; exact ht
      rw [ref_not_time a ha] at this; cases this
    · exact hn.refs a w ha hw
  · intro a w ha hw
    rw [hget a] at hw
    split at hw
    · simp only [List.mem_singleton] at hw; rw [hw]; exact hv
    · exact hn.times a w ha hw
  · intro a w ha hw
    rw [hget a] at hw
    split at hw
    · next e =>
      have : isProvAttr a = true := by
        rw [← isProvAttr_congr e]
        simp [isProvAttr, ht]
      rw [ha] at this; cases this
    · exact hn.others a w ha hw

/-- an argument of `set_time` as its signature documents it: a datetime or an ISO string (or nothing) -/
def TimeArg : Option Value → Prop
  | none => True
  | some v => isDt v = true ∨ ∃ s, v = .str s

theorem heapNormal_setTime {h : Heap} (hn : HeapNormal h) (r : Nat) (st en : Option Value) (hs : TimeArg st) (he : TimeArg en) :
    HeapNormal (h.setTime r st en).1 := by
  have step_ok : ∀ (rc : Record) (slot : String) (v : Option Value), Normal rc → TimeArg v → isTimeAttr (formalQ slot) = true →
      ∀ rc', (match v with
        | none => (Except.ok rc : Except Err Record)
        | some v => match Heap.ensureDatetime v with
          | .ok v' => .ok { rc with attrs := attrsReplace rc.attrs (formalQ slot) v' }
          | .error e => .error e) = .ok rc' → Normal rc' := by
    intro rc slot v hrc hv ht rc' hres
    cases v with
    | none => simp only [Except.ok.injEq] at hres; rw [← hres]; exact hrc
    | some v =>
      simp only at hres
      cases hed : Heap.ensureDatetime v with
      | error e => rw [hed] at hres; cases hres
      | ok v' =>
        rw [hed] at hres
        simp only [Except.ok.injEq] at hres
        rw [← hres]
        exact replace_time_normal rc slot v' hrc (c05_setTime_value v hv v' hed) ht
  unfold Heap.setTime
  dsimp only
  split
  · exact hn
  · next rc1 h1 =>
    have n1 := step_ok _ "startTime" st (hn.2 r) hs (by decide) rc1 h1
    split
    · exact heapNormal_setRec hn r rc1 n1
    · next rc2 h2 =>
      exact heapNormal_setRec hn r rc2 (step_ok _ "endTime" en n1 he (by decide) rc2 h2)

/-! ### every reachable heap -/

/-- the public mutators (handles are arbitrary numbers: an unknown handle addresses a default cell) -/
inductive HOp where
  | newDoc (nss : List Ns)
  | newBundle (id : Option QName) (nss : List Ns) (doc : Option Nat)
  | bundle (d : Nat) (id : NameArg)
  | addNs (c : Nat) (n : Ns)
  | setDefault (c : Nat) (uri : String)
  | validName (c : Nat) (x : NameArg)
  | newRecord (c : Nat) (k : RecKind) (id : NameArg) (attrs : List AttrArg)
  | addAttributes (r : Nat) (attrs : List AttrArg)
  | setTime (r : Nat) (st en : Option Value)
  | addAssertedType (r : Nat) (v : ArgVal) (flt : Option FloatAtom)

/-- what is excluded: the membership compatibility call form, and `set_time` arguments of other types -/
def HOp.ok : HOp → Prop
  | .newRecord _ _ _ attrs => isCollectionCall attrs = false
  | .addAttributes _ attrs => isCollectionCall attrs = false
  | .setTime _ st en => TimeArg st ∧ TimeArg en
  | _ => True

def hstep (h : Heap) : HOp → Heap
  | .newDoc nss => (h.newDoc nss).1
  | .newBundle id nss doc => (h.allocCont false id nss doc).1
  | .bundle d id => (h.bundle d id).1
  | .addNs c n => (h.addNs c n).1
  | .setDefault c u => h.setDefault c u
  | .validName c x => (h.validName c x).1
  | .newRecord c k id attrs => (h.newRecord c k id attrs).1
  | .addAttributes r attrs => (h.addAttributes r attrs).1
  | .setTime r st en => (h.setTime r st en).1
  | .addAssertedType r v flt => (h.addAssertedType r v flt).1

theorem hstep_normal {h : Heap} (hn : HeapNormal h) (op : HOp) (hop : op.ok) : HeapNormal (hstep h op) := by
  cases op with
  | newDoc nss => exact heapNormal_allocCont hn true none nss none
  | newBundle id nss doc => exact heapNormal_allocCont hn false id nss doc
  | bundle d id => exact heapNormal_bundle hn d id
  | addNs c n =>
    unfold hstep Heap.addNs
    exact heapNormal_setMgr hn c _ (NsMgr.addNs_inv1 (mgrOf_inv1 hn c) n)
  | setDefault c u =>
    unfold hstep Heap.setDefault
    exact heapNormal_setMgr hn c _ (NsMgr.setDefault_inv1 (mgrOf_inv1 hn c) u)
  | validName c x => exact heapNormal_validName hn c x
  | newRecord c k id attrs => exact heapNormal_newRecord hn c k id attrs hop
  | addAttributes r attrs => exact heapNormal_addAttributes hn r attrs hop
  | setTime r st en => exact heapNormal_setTime hn r st en hop.1 hop.2
  | addAssertedType r v flt => exact heapNormal_addAssertedType hn r v flt

/-- **C05, all histories**: after any sequence of the public mutators, starting from nothing, every record of every
    document and bundle is in normal form (and every namespace manager satisfies the C03 invariant) -/
theorem c05_reachable_normal (ops : List HOp) (hops : ∀ op ∈ ops, op.ok) : HeapNormal (ops.foldl hstep Heap.empty) := by
  suffices ∀ h, HeapNormal h → HeapNormal (ops.foldl hstep h) from this _ heapNormal_empty
  induction ops with
  | nil => intro h hn; exact hn
  | cons op rest ih =>
    intro h hn
    exact ih (fun o ho => hops o (List.mem_cons_of_mem _ ho)) _ (hstep_normal hn op (hops op List.mem_cons_self))

/-- `add_record` (hence update, flattened, the records= constructors) is an instance: it calls new_record with the record's own
    arguments; for every record kind but membership that is not the compatibility call form -/
theorem addRecord_is_newRecord (h : Heap) (c r : Nat) :
    (h.addRecord c r).1 = hstep h (.newRecord c (h.recCell r).r.kind (recreateArgs (h.recCell r).r).1 (recreateArgs (h.recCell r).r).2) := rfl

/-- non-vacuity: a short history that meets the side conditions -/
example : ∀ op ∈ [HOp.newDoc [⟨"ex", "http://example.org/"⟩], .newRecord 0 .activity (.str "ex:a") [],
    .setTime 0 (some (.str "2012-01-01T00:00:00")) none, .addAssertedType 0 (.val (.str "t")) none], op.ok := by
  intro op h
  simp only [List.mem_cons, List.mem_nil_iff, or_false] at h
  rcases h with rfl | rfl | rfl | rfl <;> simp [HOp.ok, isCollectionCall, TimeArg]

end Prov.C05

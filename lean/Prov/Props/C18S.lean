/-
  C18 for every history, deriving operations included: the coherence invariant (`WF`: in every container the identifier index
  answers, for every name, exactly the records of that container carrying that identifier URI, in insertion order; every
  record reference is allocated) is kept not only by the mutators (`Props/C18R`) but by `add_record`, `update`,
  `add_bundle`, `flattened()` and `unified()` of bundles and documents, whether they succeed or raise, with any arguments.
  So `get_record`, in every spelling, finds exactly the records with that identifier also in documents that were
  unified, flattened, updated or assembled from bundles — and in their sources afterwards.
-/
import Prov.Props.C18R
import Prov.Props.C08I

namespace Prov.C18
open Prov Prov.Heap Prov.C05 Prov.C09 Prov.C08

theorem wf_mgrs {h : Heap} (hw : WF h) (ms : Array MgrCell) : WF { h with mgrs := ms } := hw

theorem wf_validName {h : Heap} (hw : WF h) (c : Nat) (x : NameArg) : WF (h.validName c x).1 := by
  unfold Heap.validName; exact wf_setMgr hw _ _

theorem wf_addAttributes {h : Heap} (hw : WF h) (r : Nat) (attrs : List AttrArg) : WF (h.addAttributes r attrs).1 := by
  unfold Heap.addAttributes
  dsimp only
  have hki := loop_kind_id (h.parentOf (h.recCell r).bundle) (isCollectionCall attrs) attrs (h.mgrOf (h.recCell r).bundle) (h.recCell r).r
  unfold Record.addAttributes
  generalize addAttrsLoop (h.parentOf (h.recCell r).bundle) (isCollectionCall attrs) (h.mgrOf (h.recCell r).bundle) (h.recCell r).r attrs = res at hki ⊢
  obtain ⟨m', rc, e⟩ := res
  exact wf_setRec_sameId (wf_setMgr hw _ m') r rc hki.2

theorem wf_addRecords (c : Nat) : ∀ (rs : List Nat) (h : Heap), WF h → WF (h.addRecords c rs).1
  | [], _, hw => hw
  | r :: rest, h, hw => by
    unfold Heap.addRecords
    simp only [Heap.addRecord]
    have s1 := newRecord_wf_any hw c (h.recCell r).r.kind (recreateArgs (h.recCell r).r).1 (recreateArgs (h.recCell r).r).2
    generalize h.newRecord c (h.recCell r).r.kind (recreateArgs (h.recCell r).r).1 (recreateArgs (h.recCell r).r).2 = res at s1
    obtain ⟨h1, e⟩ := res
    cases e with
    | error err => exact s1
    | ok nr => exact wf_addRecords c rest h1 s1

theorem wf_scratchCopy {h : Heap} (hw : WF h) (r0 : Nat) : WF (h.scratchCopy r0).1 := by
  unfold scratchCopy
  simp only []
  have s0 := c18_allocCont_wf hw false none [] none
  generalize h.allocCont false none [] none = al at s0
  obtain ⟨h0, sc⟩ := al
  exact (mkRecord_wf s0 sc _ _ _).1

theorem wf_mergeGo (mref : Nat) : ∀ (rs : List Nat) (h : Heap), WF h → WF (mergeGroup.go mref h rs).1
  | [], _, hw => hw
  | r :: more, h, hw => by
    unfold mergeGroup.go
    simp only []
    have s1 := wf_addAttributes hw mref ((h.recCell r).r.flat.map (fun p => ({ name := .qn p.1, value := .val p.2 } : AttrArg)))
    generalize h.addAttributes mref ((h.recCell r).r.flat.map (fun p => ({ name := .qn p.1, value := .val p.2 } : AttrArg))) = res at s1
    obtain ⟨h', e⟩ := res
    cases e with
    | none => exact wf_mergeGo mref more h' s1
    | some err => exact s1

theorem wf_mergeGroup {h : Heap} (hw : WF h) (rs : List Nat) : WF (h.mergeGroup rs).1 := by
  unfold mergeGroup
  cases rs with
  | nil => exact hw
  | cons r0 rest =>
    simp only []
    have s1 := wf_scratchCopy hw r0
    generalize h.scratchCopy r0 = res at s1
    obtain ⟨h1, e⟩ := res
    cases e with
    | error err => exact s1
    | ok mref =>
      simp only []
      have s2 := wf_mergeGo mref rest h1 s1
      generalize mergeGroup.go mref h1 rest = res2 at s2
      obtain ⟨h2, e2⟩ := res2
      cases e2 <;> exact s2

theorem wf_mergeAll : ∀ (gs : List (List Nat)) (h : Heap) (acc : List (Nat × Nat)), WF h →
    WF (unifiedRecords.mergeAll h acc gs).1
  | [], _, _, hw => hw
  | grp :: gs, h, acc, hw => by
    unfold unifiedRecords.mergeAll
    have s1 := wf_mergeGroup hw grp
    generalize h.mergeGroup grp = res at s1
    obtain ⟨h1, e⟩ := res
    cases e with
    | error err => exact s1
    | ok mref => exact wf_mergeAll gs h1 _ s1

theorem wf_unifiedRecords {h : Heap} (hw : WF h) (c : Nat) : WF (h.unifiedRecords c).1 := by
  unfold unifiedRecords
  simp only []
  have s1 := wf_mergeAll (((h.cont c).idMap.flatMap (fun e => (groupByKind h e.2).map (·.2))).filter (fun g => g.length > 1)) h [] hw
  generalize unifiedRecords.mergeAll h [] _ = res at s1
  obtain ⟨h1, e⟩ := res
  cases e <;> exact s1

theorem wf_unifiedBundle {h : Heap} (hw : WF h) (c : Nat) : WF (h.unifiedBundle c).1 := by
  unfold unifiedBundle
  have s1 := wf_unifiedRecords hw c
  generalize h.unifiedRecords c = res at s1
  obtain ⟨h1, e⟩ := res
  cases e with
  | error err => exact s1
  | ok rs =>
    simp only []
    have s2 := c18_allocCont_wf s1 false (h1.cont c).id [] none
    generalize h1.allocCont false (h1.cont c).id [] none = al at s2
    obtain ⟨h2, nb⟩ := al
    have s3 := wf_addRecords nb rs h2 s2
    generalize h2.addRecords nb rs = res3 at s3
    obtain ⟨h3, e3⟩ := res3
    cases e3 <;> exact s3

theorem wf_registerBundle {h3 : Heap} (hw : WF h3) (d b' : Nat) (q : QName) : WF (h3.registerBundle d b' q).1 := by
  unfold registerBundle
  simp only []
  have s4 := wf_setCont_same hw b' { h3.cont b' with id := some q } rfl rfl
  split
  · exact s4
  · refine wf_setCont_same (wf_setCont_same s4 d _ ?_ ?_) b' _ ?_ ?_ <;> rfl

theorem wf_attachBundle {h1 : Heap} (hw : WF h1) (d b' : Nat) (idArg : NameArg) : WF (h1.attachBundle d b' idArg).1 := by
  unfold attachBundle
  split
  · exact hw
  · have s2 : WF (h1.linkParent d b') := by unfold linkParent; exact wf_mgrs hw _
    have s3 := wf_validName s2 b' (h1.defaultBundleId b' idArg)
    generalize (h1.linkParent d b').validName b' (h1.defaultBundleId b' idArg) = vn at s3
    obtain ⟨h3, vid⟩ := vn
    cases vid with
    | none => exact s3
    | some q => exact wf_registerBundle s3 d b' q

theorem wf_addBundle {h : Heap} (hw : WF h) (d b : Nat) (idArg : NameArg) (nsOrder : List Ns) :
    WF (h.addBundle d b idArg nsOrder).1 := by
  unfold addBundle
  simp only []
  by_cases hdoc : (h.cont b).isDoc = true
  · simp only [hdoc, if_true]
    by_cases hbs : (!(h.cont b).bundles.isEmpty) = true
    · simp only [hbs, if_true]
      exact hw
    · simp only [hbs, Bool.false_eq_true, if_false]
      have s2 := c18_allocCont_wf hw false none nsOrder none
      generalize h.allocCont false none nsOrder none = al at s2
      obtain ⟨h2, nb⟩ := al
      have s3 := wf_addRecords nb (h.cont b).records h2 s2
      generalize h2.addRecords nb (h.cont b).records = res3 at s3
      obtain ⟨h3, e3⟩ := res3
      cases e3 with
      | some err => exact s3
      | none => exact wf_attachBundle s3 d nb idArg
  · simp only [hdoc, Bool.false_eq_true, if_false]
    exact wf_attachBundle hw d b idArg

theorem wf_unifiedGo (nd : Nat) : ∀ (bs : List (QName × Nat)) (h : Heap), WF h → WF (unifiedInto.go nd h bs).1
  | [], _, hw => hw
  | (q, b) :: rest, h, hw => by
    unfold unifiedInto.go
    have s1 := wf_unifiedBundle hw b
    generalize h.unifiedBundle b = res at s1
    obtain ⟨h', e⟩ := res
    cases e with
    | error err => exact s1
    | ok ub =>
      simp only []
      have s2 := wf_addBundle s1 nd ub .nil []
      generalize h'.addBundle nd ub .nil [] = res2 at s2
      obtain ⟨h'', e2⟩ := res2
      cases e2 with
      | some err => exact s2
      | none => exact wf_unifiedGo nd rest h'' s2

theorem wf_unifiedDoc {h : Heap} (hw : WF h) (d : Nat) : WF (h.unifiedDoc d).1 := by
  unfold unifiedDoc
  simp only []
  have s1 := c18_allocCont_wf hw true none (h.mgrOf d).reg.values none
  generalize h.allocCont true none (h.mgrOf d).reg.values none = al at s1
  obtain ⟨h1, nd⟩ := al
  simp only []
  have s2 : WF (h1.copyDefault nd (h.mgrOf d).dflt) := by
    unfold copyDefault
    split
    · unfold Heap.setDefault; exact wf_setMgr s1 _ _
    · exact s1
  generalize h1.copyDefault nd (h.mgrOf d).dflt = h2 at s2
  unfold unifiedInto
  have s3 := wf_unifiedRecords s2 d
  generalize h2.unifiedRecords d = res at s3
  obtain ⟨h3, e⟩ := res
  cases e with
  | error err => exact s3
  | ok rs =>
    simp only []
    have s4 := wf_addRecords nd rs h3 s3
    generalize h3.addRecords nd rs = res4 at s4
    obtain ⟨h4, e4⟩ := res4
    cases e4 with
    | some err => exact s4
    | none =>
      simp only []
      have s5 := wf_unifiedGo nd (h4.cont d).bundles h4 s4
      generalize unifiedInto.go nd h4 (h4.cont d).bundles = res5 at s5
      obtain ⟨h5, e5⟩ := res5
      cases e5 <;> exact s5

theorem wf_flattened {h : Heap} (hw : WF h) (d : Nat) : WF (h.flattened d).1 := by
  unfold flattened
  simp only []
  split
  · exact hw
  · simp only [newDoc]
    have s1 := c18_allocCont_wf hw true none [] none
    generalize h.allocCont true none [] none = al at s1
    obtain ⟨h1, nd⟩ := al
    simp only []
    have s2 := wf_addRecords nd ((h.cont d).records ++ (h.cont d).bundles.flatMap (fun p => (h.cont p.2).records)) h1 s1
    generalize h1.addRecords nd _ = res at s2
    obtain ⟨h2, e⟩ := res
    cases e <;> exact s2

theorem wf_updateBundle {h : Heap} (hw : WF h) (c o : Nat) : WF (h.updateBundle c o).1 := by
  unfold updateBundle
  simp only []
  split
  · exact hw
  · exact wf_addRecords c _ h hw

theorem wf_updateGo (d : Nat) : ∀ (bs : List (QName × Nat)) (h : Heap), WF h → WF (updateDoc.go d h bs).1
  | [], _, hw => hw
  | (_, b) :: rest, h, hw => by
    unfold updateDoc.go
    cases hid : (h.cont b).id with
    | none => exact hw
    | some bid =>
      simp only []
      cases hget : bundlesGet (h.cont d).bundles bid with
      | some tb =>
        simp only []
        have s1 := wf_updateBundle hw tb b
        generalize h.updateBundle tb b = res at s1
        obtain ⟨h', e⟩ := res
        cases e with
        | none => exact wf_updateGo d rest h' s1
        | some err => exact s1
      | none =>
        simp only []
        have s1 := bundle_wf hw d (.qn bid)
        generalize h.bundle d (.qn bid) = res at s1
        obtain ⟨h', e⟩ := res
        cases e with
        | error err => exact s1
        | ok nb =>
          simp only []
          have s2 := wf_updateBundle s1 nb b
          generalize h'.updateBundle nb b = res2 at s2
          obtain ⟨h'', e2⟩ := res2
          cases e2 with
          | none => exact wf_updateGo d rest h'' s2
          | some err => exact s2

theorem wf_update {h : Heap} (hw : WF h) (c o : Nat) : WF (h.update c o).1 := by
  unfold update
  split
  · unfold updateDoc
    simp only []
    have s1 := wf_addRecords c (h.cont o).records h hw
    generalize h.addRecords c (h.cont o).records = res at s1
    obtain ⟨h1, e⟩ := res
    cases e with
    | some err => exact s1
    | none => exact wf_updateGo c (h.cont o).bundles h1 s1
  · exact wf_updateBundle hw c o

theorem dstep_wf18 {h : Heap} (hw : WF h) (op : DOp) : WF (dstep h op) := by
  cases op with
  | addRecord c r => exact newRecord_wf_any hw c _ _ _
  | update c o => exact wf_update hw c o
  | addBundle d b id nsOrder => exact wf_addBundle hw d b id nsOrder
  | flattened d => exact wf_flattened hw d
  | unifiedBundle c => exact wf_unifiedBundle hw c
  | unifiedDoc d => exact wf_unifiedDoc hw d

/-- every state the public interface can produce: mutators and deriving operations, any arguments, any order -/
inductive ReachAny : Heap → Prop
  | empty : ReachAny Heap.empty
  | mutate {h : Heap} (op : HOp) : ReachAny h → ReachAny (hstep h op)
  | derive {h : Heap} (op : DOp) : ReachAny h → ReachAny (dstep h op)

theorem reachAny_of_reach {h : Heap} (hr : Reach h) : ReachAny h := by
  induction hr with
  | empty => exact .empty
  | mutate op _ _ _ _ ih => exact .mutate op ih
  | derive op _ ih => exact .derive op ih

/-- a run of `add_record` calls (which stops at the first refusal) is a sequence of deriving steps -/
theorem reachAny_addRecords (c : Nat) : ∀ (rs : List Nat) (h : Heap), ReachAny h → ReachAny (h.addRecords c rs).1
  | [], _, hr => hr
  | r :: rest, h, hr => by
    unfold Heap.addRecords
    have s1 : ReachAny (h.addRecord c r).1 := ReachAny.derive (.addRecord c r) hr
    generalize h.addRecord c r = res at s1
    obtain ⟨h1, e⟩ := res
    cases e with
    | error err => exact s1
    | ok nr => exact reachAny_addRecords c rest h1 s1

/-- `ProvDocument(records=…)`: a fresh document filled by `add_record` -/
theorem reachAny_constructDoc {h : Heap} (hr : ReachAny h) (rs : List Nat) :
    ReachAny (((h.allocCont true none [] none).1).addRecords (h.allocCont true none [] none).2 rs).1 :=
  reachAny_addRecords _ rs _ (ReachAny.mutate (.newDoc []) hr)

/-- `ProvBundle(records=…, identifier=…)`: a fresh stand-alone bundle filled by `add_record` -/
theorem reachAny_constructBundle {h : Heap} (hr : ReachAny h) (ident : Option QName) (rs : List Nat) :
    ReachAny (((h.allocCont false ident [] none).1).addRecords (h.allocCont false ident [] none).2 rs).1 :=
  reachAny_addRecords _ rs _ (ReachAny.mutate (.newBundle ident [] none) hr)

/-- **C18, every history**: every container of every reachable state is coherent -/
theorem c18_reachAny_wf {h : Heap} (hr : ReachAny h) : WF h := by
  induction hr with
  | empty => exact wf_empty
  | mutate op _ ih => exact hstep_wf18 ih op
  | derive op _ ih => exact dstep_wf18 ih op

/-- **`get_record` in every reachable state** — original documents, and documents that were unified, flattened, updated or
    assembled from bundles alike: exactly the records of that container whose identifier has the URI that `x` denotes there
    (qualified name under any prefix, `prefix:local` string, bare local name, full URI), in insertion order -/
theorem c18_get_record_reachAny {h : Heap} (hr : ReachAny h) (c : Nat) (hc : c < h.conts.size) (x : NameArg) (hx : x ≠ .nil) :
    (h.getRecord c x).2 = some (match (h.validName c x).2 with
      | some q => byId (idsOf h) (h.cont c).records q
      | none => []) :=
  c18_get_record h c x hx ((c18_reachAny_wf hr c hc).1)

/-- non-vacuity: in the document `unified()` returns for a document with a merging bundle, the merged record is found under
    its identifier in the unified bundle -/
example : let h := dstep (opsBundleDup.foldl hstep Heap.empty) (.unifiedDoc 0)
    ReachAny h ∧ 4 < h.conts.size ∧ ((h.getRecord 4 (.str "ex:e")).2.map List.length) = some 1 := by
  refine ⟨.derive _ ?_, by decide, by decide⟩
  exact reachAny_of_reach (reach_of_ops opsBundleDup Heap.empty Reach.empty opsBundleDup_ok (fun n hn => by
    have : n = 0 ∨ n = 1 ∨ n = 2 ∨ n = 3 ∨ n = 4 ∨ n = 5 := by
      have : n ≤ 5 := hn
      omega
    rcases this with rfl | rfl | rfl | rfl | rfl | rfl <;> exact clean_of_cleanB (by decide +kernel)))

end Prov.C18

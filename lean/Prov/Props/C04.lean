/-
  C04 — equality is an equivalence that coincides with content equivalence.
  Part 1: records (`ProvRecord.__eq__` after the symmetry fix).
-/
import Prov.Eq

namespace Prov.C04
open Prov

/-- floats carry a positive denominator (`float.as_integer_ratio()` always does) -/
def valOk : Value → Prop
  | .float f => f.den ≠ 0
  | _ => True

theorem same_refl (q : QName) : q.same q = true := by simp [QName.same]
theorem same_symm {a b : QName} (h : a.same b = true) : b.same a = true := by
  simp [QName.same] at *; exact h.symm
theorem same_trans {a b c : QName} (h1 : a.same b = true) (h2 : b.same c = true) : a.same c = true := by
  simp [QName.same] at *; exact h1.trans h2

theorem dt_keyEq_refl (t : DateTime) : t.keyEq t = true := by
  unfold DateTime.keyEq; cases t.tz <;> simp

theorem dt_keyEq_symm {a b : DateTime} (h : a.keyEq b = true) : b.keyEq a = true := by
  unfold DateTime.keyEq at *
  cases ha : a.tz <;> cases hb : b.tz <;> simp_all
  all_goals exact h.symm

theorem dt_keyEq_trans {a b c : DateTime} (h1 : a.keyEq b = true) (h2 : b.keyEq c = true) :
    a.keyEq c = true := by
  unfold DateTime.keyEq at *
  cases ha : a.tz <;> cases hb : b.tz <;> cases hc : c.tz <;> simp_all

theorem keyEq_refl (v : Value) : v.keyEq v = true := by
  cases v with
  | lit v ty l => cases ty <;> simp [Value.keyEq]
  | dt t => simp [Value.keyEq, dt_keyEq_refl]
  | _ => simp [Value.keyEq, Value.num?]

theorem keyEq_symm {a b : Value} (h : a.keyEq b = true) : b.keyEq a = true := by
  cases a <;> cases b <;> simp_all [Value.keyEq, Value.num?]
  all_goals first
    | exact h.symm
    | exact dt_keyEq_symm h
    | (obtain ⟨⟨h1, h2⟩, h3⟩ := h
       refine ⟨⟨h1.symm, h2.symm⟩, ?_⟩
       split at h3 <;> simp_all)
    | omega
    | (split at h <;> simp_all)

theorem recEq_refl (r : Record) : recEq r r = true := by
  simp only [recEq, beq_self_eq_true, Bool.true_and, Bool.and_eq_true]
  refine ⟨?_, ?_⟩
  · cases r.id <;> simp [optSame, same_refl]
  · simp only [flatSetEq, Bool.and_self, List.all_eq_true, List.any_eq_true]
    intro x hx
    exact ⟨x, hx, by simp [pairEq, same_refl, keyEq_refl]⟩

theorem pairEq_symm {a b : QName × Value} (h : pairEq a b = true) : pairEq b a = true := by
  simp only [pairEq, Bool.and_eq_true] at *
  exact ⟨same_symm h.1, keyEq_symm h.2⟩

theorem flatSetEq_symm {xs ys : List (QName × Value)} (h : flatSetEq xs ys = true) :
    flatSetEq ys xs = true := by
  simp only [flatSetEq, Bool.and_eq_true] at *
  exact ⟨h.2, h.1⟩

theorem optSame_symm {a b : Option QName} (h : optSame a b = true) : optSame b a = true := by
  cases a <;> cases b <;> simp_all [optSame]
  exact same_symm h

/-- **C04** (records): `==` is symmetric — in particular an anonymous and an identified record are
    unequal in both orders (the defect fixed by the first "fix:" commit) -/
theorem c04_recEq_symm {a b : Record} (h : recEq a b = true) : recEq b a = true := by
  simp only [recEq, Bool.and_eq_true, beq_iff_eq] at *
  exact ⟨⟨h.1.1.symm, optSame_symm h.1.2⟩, flatSetEq_symm h.2⟩

theorem c04_anon_vs_identified (a b : Record) (ha : a.id = none) (hb : b.id ≠ none) :
    recEq a b = false ∧ recEq b a = false := by
  cases hbid : b.id with
  | none => exact absurd hbid hb
  | some q => simp [recEq, ha, hbid, optSame]

end Prov.C04

/-
  C03 / C13, names a manager resolved itself re-enter it without changing it.

  The readers of PROV-JSON, PROV-XML and PROV-N obtain every name from a string, through `valid_qualified_name(str)`,
  which has no side effect; the `QualifiedName` objects it returns are then handed back to the same container — as record
  identifiers, attribute names, values, literal datatypes — through `valid_qualified_name(QualifiedName)`, the only path that
  can register a namespace. The theorems below show that on this round nothing is registered:

  * a name the manager *owns* (its namespace is bound under its prefix, or is the default namespace) is a fixed point of the
    `QualifiedName` path: the manager is returned as it was and the name unchanged (`validQ_owned_fixpoint`);
  * every name the string path of a manager returns from its own tables is owned by it (`resolveOwn_owned`);
  * hence, for a document (no parent): whatever a string resolved to re-enters the manager without changing anything
    (`c03_resolved_name_reenters_unchanged`), and in every state of every namespace history (`Props/C03`, `Sys.Inv`).
-/
import Prov.Props.C03

namespace Prov.C03
open Prov Text

/-- an owned name is a fixed point of the `QualifiedName` path -/
theorem validQ_owned_fixpoint (m : NsMgr) (q : QName) (ho : m.Owns q) : m.validQ q = (m, q) := by
  unfold NsMgr.validQ
  rcases ho with ⟨hp, ht⟩ | ⟨hp, hd⟩
  · simp [hp, ht]
  · simp [hp, hd]

theorem compact_mem (vals : List Ns) (s : String) (q : QName) (h : compact vals s = some q) : q.ns ∈ vals := by
  induction vals with
  | nil => simp [compact] at h
  | cons n rest ih =>
    unfold compact at h
    split at h
    · simp only [Option.some.injEq] at h
      rw [← h]; exact List.mem_cons_self
    · exact List.mem_cons_of_mem _ (ih h)

/-- a namespace bound in the table is owned, whether under a prefix or as the default -/
theorem owns_of_tbl {m : NsMgr} (hm : m.Inv2) (n : Ns) (l : String) (h : m.tbl.get? n.pfx = some n) : m.Owns ⟨n, l⟩ := by
  by_cases hp : n.pfx = ""
  · right
    refine ⟨hp, ?_⟩
    rw [hp] at h
    exact hm.empty_key n h
  · left
    exact ⟨hp, h⟩

/-- **what a manager's own string path returns is owned by it** -/
theorem resolveOwn_owned {m : NsMgr} (hm : m.Inv2) (s : String) (q : QName) (h : m.resolveOwn s = some q) : m.Owns q := by
  unfold NsMgr.resolveOwn at h
  split at h
  · rename_i p l _
    simp only at h
    split at h
    · rename_i n hn
      simp only [Option.some.injEq] at h
      rw [← h]
      have hk := hm.key_pfx _ _ hn
      exact owns_of_tbl hm n _ (by rw [hk]; exact hn)
    · split at h
      · rename_i n hn
        simp only [Option.some.injEq] at h
        rw [← h]
        have := hm.pren_tbl _ _ (Tbl.get?_mem hn)
        exact Or.inl ⟨this.2, this.1⟩
      · have hmem := compact_mem _ _ _ h
        have hs := hm.tbl_self hmem
        have : q = ⟨q.ns, q.loc⟩ := rfl
        rw [this]
        exact owns_of_tbl hm q.ns q.loc hs
  · cases hd : m.dflt with
    | none => rw [hd] at h; simp at h
    | some d =>
      rw [hd] at h
      simp only [Option.map_some, Option.some.injEq] at h
      rw [← h]
      exact Or.inr ⟨hm.dflt_pfx d hd, hd⟩

/-- **C03/C13: a name a document resolved from a string re-enters it without changing it** — the manager is returned as it
    was (no namespace registered, no prefix generated, no default adopted) and the name comes back as it is -/
theorem c03_resolved_name_reenters_unchanged {m : NsMgr} (hm : m.Inv2) (s : String) (q : QName)
    (h : (m.validName none (.str s)).2 = some q) : m.validName none (.qn q) = (m, some q) := by
  simp only [NsMgr.validName, NsMgr.resolveStr] at h
  have hown : m.resolveOwn s = some q := by
    split at h
    · simp at h
    · split at h
      · simp at h
      · cases hr : m.resolveOwn s with
        | none => rw [hr] at h; simp at h
        | some q' => rw [hr] at h; simpa using h
  simp only [NsMgr.validName]
  rw [validQ_owned_fixpoint m q (resolveOwn_owned hm s q hown)]

/-- … in the document of every state any namespace history reaches -/
theorem c03_resolved_name_reenters_unchanged_history (ops : List Op) (hops : ∀ op ∈ ops, op.ok) (s : String) (q : QName)
    (h : ((Sys.init.run ops).doc.validName none (.str s)).2 = some q) :
    (Sys.init.run ops).doc.validName none (.qn q) = ((Sys.init.run ops).doc, some q) :=
  c03_resolved_name_reenters_unchanged (inv_reachable ops hops).1.2 s q h

/-- the string path itself never changes the manager -/
theorem c03_string_path_pure (par : Option NsMgr) (m : NsMgr) (s : String) : (m.validName par (.str s)).1 = m := rfl

/-- non-vacuity: in a document that declares `ex`, the text `ex:thing` resolves, and the name re-enters unchanged -/
example : ((NsMgr.init.addNs ⟨"ex", "http://example.org/"⟩).1.validName none (.str "ex:thing")).2 =
    some ⟨⟨"ex", "http://example.org/"⟩, "thing"⟩ := by decide +kernel

end Prov.C03

/-
  C13 / C08, `unified()` and the namespaces of its source (after fix b85a831: merged records are put together in a scratch
  bundle): the whole of `ProvDocument.unified()` and of `ProvBundle.unified()` — scratch bundles, copies, merges, new
  containers, attaching the unified bundles — writes no namespace-manager cell that existed before the call. Together with
  `c13_unified_frame` (container cells, record cells): nothing that existed is written, so every observation of the source
  (records, order, index, bundle table, prefixes, default namespace, what a name resolves to) is the same after as before.
-/
import Prov.Props.C13B
import Prov.Props.C05B

namespace Prov.C13
open Prov Prov.Heap

/-- manager cells below `nm` are unchanged, and no container disappears -/
structure FM (nm : Nat) (h h' : Heap) : Prop where
  mgrs : ∀ i, i < nm → h'.mgrCell i = h.mgrCell i
  csize : h.conts.size ≤ h'.conts.size

/-- every container at or above `nc` has its manager at or above `nm` -/
def High (nc nm : Nat) (h : Heap) : Prop :=
  nm ≤ h.mgrs.size ∧ ∀ c, nc ≤ c → c < h.conts.size → nm ≤ (h.cont c).mgr

/-- the step relation: from a heap whose new containers have new managers, old manager cells are kept and the new heap is
    again such a heap -/
def Keeps (nc nm : Nat) (h h' : Heap) : Prop := High nc nm h → FM nm h h' ∧ High nc nm h'

theorem keeps_refl (nc nm : Nat) (h : Heap) : Keeps nc nm h h :=
  fun hh => ⟨⟨fun _ _ => rfl, Nat.le_refl _⟩, hh⟩

theorem keeps_trans {nc nm : Nat} {h1 h2 h3 : Heap} (a : Keeps nc nm h1 h2) (b : Keeps nc nm h2 h3) : Keeps nc nm h1 h3 :=
  fun hh => by
    obtain ⟨f1, g1⟩ := a hh
    obtain ⟨f2, g2⟩ := b g1
    exact ⟨⟨fun i hi => (f2.mgrs i hi).trans (f1.mgrs i hi), Nat.le_trans f1.csize f2.csize⟩, g2⟩

/-- only record cells differ -/
theorem keeps_recsOnly (nc nm : Nat) (h : Heap) (rs : Array RecCell) : Keeps nc nm h { h with recs := rs } :=
  fun hh => ⟨⟨fun _ _ => rfl, Nat.le_refl _⟩, hh⟩

/-- one manager cell at or above `nm` is written -/
theorem keeps_mgrWrite (nc nm : Nat) (h : Heap) (i : Nat) (x : MgrCell) (hi : nm ≤ i) :
    Keeps nc nm h { h with mgrs := h.mgrs.setIfInBounds i x } := by
  intro hh
  refine ⟨⟨fun j hj => ?_, Nat.le_refl _⟩, ?_⟩
  · simp only [mgrCell, Array.getD_eq_getD_getElem?]
    rw [Array.getElem?_setIfInBounds_ne (by omega)]
  · exact ⟨by simpa using hh.1, fun c hc hlt => hh.2 c hc hlt⟩

theorem keeps_setMgr (nc nm : Nat) (h : Heap) (c : Nat) (m : NsMgr) (hc : nc ≤ c) (hlt : c < h.conts.size) :
    Keeps nc nm h (h.setMgr c m) := by
  intro hh
  exact keeps_mgrWrite nc nm h (h.cont c).mgr _ (hh.2 c hc hlt) hh

/-- a container cell is rewritten with the same manager reference -/
theorem keeps_setCont (nc nm : Nat) (h : Heap) (c : Nat) (k : Cont) (hk : k.mgr = (h.cont c).mgr) :
    Keeps nc nm h (h.setCont c k) := by
  intro hh
  refine ⟨⟨fun _ _ => rfl, by simp [setCont]⟩, hh.1, fun c' hc' hlt' => ?_⟩
  have hlt : c' < h.conts.size := by simpa [setCont] using hlt'
  by_cases e : c' = c
  · subst e
    rw [cont_setCont_self h c' k hlt, hk]
    exact hh.2 c' hc' hlt
  · rw [cont_setCont_ne h c c' k e]
    exact hh.2 c' hc' hlt

theorem keeps_allocCont (nc nm : Nat) (h : Heap) (isDoc : Bool) (id : Option QName) (nss : List Ns) (doc : Option Nat) :
    Keeps nc nm h (h.allocCont isDoc id nss doc).1 := by
  intro hh
  obtain ⟨a1, a2, a3, a4, _⟩ := allocCont_fresh h isDoc id nss doc
  have hcs : (h.allocCont isDoc id nss doc).1.conts.size = h.conts.size + 1 := by simp [allocCont, allocMgr]
  have hms : (h.allocCont isDoc id nss doc).1.mgrs.size = h.mgrs.size + 1 := by simp [allocCont, allocMgr]
  refine ⟨⟨fun i hi => a4 i (Nat.lt_of_lt_of_le hi hh.1), by rw [hcs]; exact Nat.le_succ _⟩, by rw [hms]; exact Nat.le_succ_of_le hh.1,
    fun c hc hlt => ?_⟩
  rw [hcs] at hlt
  by_cases e : c < h.conts.size
  · rw [a3 c e]; exact hh.2 c hc e
  · have hce : c = (h.allocCont isDoc id nss doc).2 := by rw [a1]; omega
    rw [hce, a2]; exact hh.1

theorem conts_size_allocCont (h : Heap) (isDoc : Bool) (id : Option QName) (nss : List Ns) (doc : Option Nat) :
    (h.allocCont isDoc id nss doc).1.conts.size = h.conts.size + 1 ∧ (h.allocCont isDoc id nss doc).2 = h.conts.size := by
  simp [allocCont, allocMgr]

theorem keeps_mkRecord (nc nm : Nat) (h : Heap) (c : Nat) (k : RecKind) (id : Option QName) (attrs : List AttrArg)
    (hc : nc ≤ c) (hlt : c < h.conts.size) : Keeps nc nm h (h.mkRecord c k id attrs).1 := by
  unfold mkRecord
  split
  · exact keeps_refl nc nm h
  · simp only []
    split
    · exact keeps_setMgr nc nm h c _ hc hlt
    · exact keeps_trans (keeps_setMgr nc nm h c _ hc hlt) (keeps_recsOnly nc nm _ _)

theorem keeps_validName (nc nm : Nat) (h : Heap) (c : Nat) (x : NameArg) (hc : nc ≤ c) (hlt : c < h.conts.size) :
    Keeps nc nm h (h.validName c x).1 := by
  unfold validName
  exact keeps_setMgr nc nm h c _ hc hlt

theorem conts_size_validName (h : Heap) (c : Nat) (x : NameArg) : (h.validName c x).1.conts.size = h.conts.size := rfl

theorem keeps_addRecordRaw (nc nm : Nat) (h : Heap) (c r : Nat) : Keeps nc nm h (h.addRecordRaw c r) := by
  unfold addRecordRaw
  exact keeps_setCont nc nm h c _ rfl

theorem keeps_newRecord (nc nm : Nat) (h : Heap) (c : Nat) (k : RecKind) (idArg : NameArg) (attrs : List AttrArg)
    (hc : nc ≤ c) (hlt : c < h.conts.size) : Keeps nc nm h (h.newRecord c k idArg attrs).1 := by
  unfold newRecord
  simp only []
  have s1 := keeps_validName nc nm h c idArg hc hlt
  have hsz : (h.validName c idArg).1.conts.size = h.conts.size := rfl
  generalize h.validName c idArg = vn at s1 hsz
  obtain ⟨h1, vid⟩ := vn
  simp only at s1 hsz ⊢
  have s2 := keeps_mkRecord nc nm h1 c k vid attrs hc (by rw [hsz]; exact hlt)
  generalize h1.mkRecord c k vid attrs = mk at s2
  obtain ⟨h2, e⟩ := mk
  cases e with
  | error err => exact keeps_trans s1 s2
  | ok r => exact keeps_trans s1 (keeps_trans s2 (keeps_addRecordRaw nc nm h2 c r))

theorem keeps_addRecords (nc nm : Nat) (t : Nat) (ht : nc ≤ t) : ∀ (rs : List Nat) (h : Heap), t < h.conts.size →
    Keeps nc nm h (h.addRecords t rs).1
  | [], h, _ => keeps_refl nc nm h
  | r :: rest, h, hlt => by
    unfold Heap.addRecords
    simp only [Heap.addRecord]
    have s1 := keeps_newRecord nc nm h t (h.recCell r).r.kind (recreateArgs (h.recCell r).r).1 (recreateArgs (h.recCell r).r).2 ht hlt
    have hsz := conts_size_newRecord h t (h.recCell r).r.kind (recreateArgs (h.recCell r).r).1 (recreateArgs (h.recCell r).r).2
    generalize h.newRecord t (h.recCell r).r.kind (recreateArgs (h.recCell r).r).1 (recreateArgs (h.recCell r).r).2 = res at s1 hsz
    obtain ⟨h1, e⟩ := res
    cases e with
    | error err => exact s1
    | ok nr => exact keeps_trans s1 (keeps_addRecords nc nm t ht rest h1 (by simp only at hsz; rw [hsz]; exact hlt))

/-- `add_attributes` on a record whose bundle is one of the new containers -/
theorem keeps_addAttributes (nc nm : Nat) (h : Heap) (r : Nat) (attrs : List AttrArg)
    (hc : nc ≤ (h.recCell r).bundle) (hlt : (h.recCell r).bundle < h.conts.size) :
    Keeps nc nm h (h.addAttributes r attrs).1 := by
  unfold addAttributes
  simp only []
  exact keeps_trans (keeps_setMgr nc nm h _ _ hc hlt) (keeps_recsOnly nc nm _ _)

theorem bundle_addAttributes (h : Heap) (r r' : Nat) (attrs : List AttrArg) :
    ((h.addAttributes r attrs).1.recCell r').bundle = (h.recCell r').bundle ∧
      (h.addAttributes r attrs).1.conts.size = h.conts.size := by
  unfold addAttributes
  simp only []
  refine ⟨?_, rfl⟩
  simp only [setRec, recCell, setMgr, Array.getD_eq_getD_getElem?, Array.getElem?_setIfInBounds]
  split
  · split
    · next h1 h2 => subst h1; simp [Array.getElem?_eq_getElem h2]
    · next h1 h2 => subst h1; rw [Array.getElem?_eq_none (Nat.le_of_not_lt h2)]
  · rfl

/-- the merge loop writes the scratch bundle's manager only -/
theorem keeps_mergeGo (nc nm : Nat) (mref : Nat) : ∀ (rs : List Nat) (h : Heap),
    nc ≤ (h.recCell mref).bundle → (h.recCell mref).bundle < h.conts.size → Keeps nc nm h (mergeGroup.go mref h rs).1
  | [], h, _, _ => keeps_refl nc nm h
  | r :: more, h, hc, hlt => by
    unfold mergeGroup.go
    simp only []
    have s1 := keeps_addAttributes nc nm h mref
      ((h.recCell r).r.flat.map (fun p => ({ name := .qn p.1, value := .val p.2 } : AttrArg))) hc hlt
    obtain ⟨hb, hsz⟩ := bundle_addAttributes h mref mref
      ((h.recCell r).r.flat.map (fun p => ({ name := .qn p.1, value := .val p.2 } : AttrArg)))
    generalize h.addAttributes mref ((h.recCell r).r.flat.map (fun p => ({ name := .qn p.1, value := .val p.2 } : AttrArg))) = res at s1 hb hsz
    obtain ⟨h', e⟩ := res
    simp only at hb hsz
    cases e with
    | none => exact keeps_trans s1 (keeps_mergeGo nc nm mref more h' (by rw [hb]; exact hc) (by rw [hb, hsz]; exact hlt))
    | some err => exact s1

/-- the scratch copy: a new container with a new manager, and the new record lives in it -/
theorem keeps_scratchCopy (nc nm : Nat) (h : Heap) (r0 : Nat) (hnc : nc ≤ h.conts.size) :
    Keeps nc nm h (h.scratchCopy r0).1 ∧
      (∀ mref, (h.scratchCopy r0).2 = .ok mref →
        nc ≤ ((h.scratchCopy r0).1.recCell mref).bundle ∧ ((h.scratchCopy r0).1.recCell mref).bundle < (h.scratchCopy r0).1.conts.size) ∧
      h.conts.size ≤ (h.scratchCopy r0).1.conts.size := by
  unfold scratchCopy
  simp only []
  have s0 := keeps_allocCont nc nm h false none [] none
  obtain ⟨hcs, hidx⟩ := conts_size_allocCont h false none [] none
  generalize h.allocCont false none [] none = al at s0 hcs hidx
  obtain ⟨h0, sc⟩ := al
  simp only at s0 hcs hidx ⊢
  have hsc : nc ≤ sc := by rw [hidx]; exact hnc
  have hlt : sc < h0.conts.size := by rw [hcs, hidx]; exact Nat.lt_succ_self _
  have s1 := keeps_mkRecord nc nm h0 sc (h.recCell r0).r.kind (h.recCell r0).r.id
    ((h.recCell r0).r.flat.map (fun p => ({ name := .qn p.1, value := .val p.2 } : AttrArg))) hsc hlt
  have hconts := conts_mkRecord h0 sc (h.recCell r0).r.kind (h.recCell r0).r.id
    ((h.recCell r0).r.flat.map (fun p => ({ name := .qn p.1, value := .val p.2 } : AttrArg)))
  refine ⟨keeps_trans s0 s1, ?_, by rw [hconts, hcs]; exact Nat.le_succ _⟩
  intro mref hm
  rw [hconts]
  suffices hb : ((h0.mkRecord sc (h.recCell r0).r.kind (h.recCell r0).r.id
      ((h.recCell r0).r.flat.map (fun p => ({ name := .qn p.1, value := .val p.2 } : AttrArg)))).1.recCell mref).bundle = sc by
    rw [hb]; exact ⟨hsc, hlt⟩
  unfold mkRecord at hm ⊢
  split at hm
  · cases hm
  · next hcond =>
    simp only [hcond] at hm ⊢
    split at hm
    · cases hm
    · next heq =>
      simp only [Except.ok.injEq] at hm
      subst hm
      simp [recCell, setMgr, Array.getD_eq_getD_getElem?]

theorem keeps_mergeGroup (nc nm : Nat) (h : Heap) (rs : List Nat) (hnc : nc ≤ h.conts.size) :
    Keeps nc nm h (h.mergeGroup rs).1 ∧ h.conts.size ≤ (h.mergeGroup rs).1.conts.size := by
  unfold mergeGroup
  cases rs with
  | nil => exact ⟨keeps_refl nc nm h, Nat.le_refl _⟩
  | cons r0 rest =>
    simp only []
    obtain ⟨s1, hb, hsz⟩ := keeps_scratchCopy nc nm h r0 hnc
    generalize h.scratchCopy r0 = res at s1 hb hsz
    obtain ⟨h1, e⟩ := res
    cases e with
    | error err => exact ⟨s1, hsz⟩
    | ok mref =>
      simp only at hb hsz ⊢
      obtain ⟨b1, b2⟩ := hb mref rfl
      have s2 := keeps_mergeGo nc nm mref rest h1 b1 b2
      have hsz2 : h1.conts.size ≤ (mergeGroup.go mref h1 rest).1.conts.size := (frameB_mergeGo 0 mref mref (Nat.le_refl _) rest h1).csize
      generalize mergeGroup.go mref h1 rest = res2 at s2 hsz2
      obtain ⟨h2, e2⟩ := res2
      cases e2 <;> exact ⟨keeps_trans s1 s2, Nat.le_trans hsz hsz2⟩

theorem keeps_mergeAll (nc nm : Nat) : ∀ (gs : List (List Nat)) (h : Heap) (acc : List (Nat × Nat)), nc ≤ h.conts.size →
    Keeps nc nm h (unifiedRecords.mergeAll h acc gs).1
  | [], h, _, _ => keeps_refl nc nm h
  | g :: gs, h, acc, hnc => by
    unfold unifiedRecords.mergeAll
    obtain ⟨s1, hsz⟩ := keeps_mergeGroup nc nm h g hnc
    generalize h.mergeGroup g = res at s1 hsz
    obtain ⟨h1, e⟩ := res
    cases e with
    | error err => exact s1
    | ok mref => exact keeps_trans s1 (keeps_mergeAll nc nm gs h1 _ (Nat.le_trans hnc hsz))

theorem keeps_unifiedRecords (nc nm : Nat) (h : Heap) (c : Nat) (hnc : nc ≤ h.conts.size) :
    Keeps nc nm h (h.unifiedRecords c).1 := by
  unfold unifiedRecords
  simp only []
  have s1 := keeps_mergeAll nc nm
    (((h.cont c).idMap.flatMap (fun e => (groupByKind h e.2).map (·.2))).filter (fun g => g.length > 1)) h [] hnc
  generalize unifiedRecords.mergeAll h [] _ = res at s1
  obtain ⟨h1, e⟩ := res
  cases e <;> exact s1

/-- `ProvBundle.unified()`: the result is a new container -/
theorem keeps_unifiedBundle (nc nm : Nat) (h : Heap) (c : Nat) (hnc : nc ≤ h.conts.size) :
    Keeps nc nm h (h.unifiedBundle c).1 ∧
      ∀ b, (h.unifiedBundle c).2 = .ok b → nc ≤ b ∧ b < (h.unifiedBundle c).1.conts.size := by
  unfold unifiedBundle
  have s1 := keeps_unifiedRecords nc nm h c hnc
  have hsz1 := (frameB_unifiedRecords 0 0 h c (Nat.zero_le _) (Nat.zero_le _)).csize
  generalize h.unifiedRecords c = res at s1 hsz1
  obtain ⟨h1, e⟩ := res
  cases e with
  | error err => exact ⟨s1, fun b hb => by cases hb⟩
  | ok rs =>
    simp only at hsz1 ⊢
    have s2 := keeps_allocCont nc nm h1 false (h1.cont c).id [] none
    obtain ⟨hcs, hidx⟩ := conts_size_allocCont h1 false (h1.cont c).id [] none
    generalize h1.allocCont false (h1.cont c).id [] none = al at s2 hcs hidx
    obtain ⟨h2, nb⟩ := al
    simp only at s2 hcs hidx ⊢
    have hnb : nc ≤ nb := by rw [hidx]; exact Nat.le_trans hnc hsz1
    have hlt : nb < h2.conts.size := by rw [hcs, hidx]; exact Nat.lt_succ_self _
    have s3 := keeps_addRecords nc nm nb hnb rs h2 hlt
    have hsz3 := (frameB_addRecords 0 0 nb (Nat.zero_le _) rs h2 (Nat.zero_le _)).csize
    generalize h2.addRecords nb rs = res3 at s3 hsz3
    obtain ⟨h3, e3⟩ := res3
    cases e3 with
    | none => exact ⟨keeps_trans s1 (keeps_trans s2 s3), fun b hb => by cases hb; exact ⟨hnb, Nat.lt_of_lt_of_le hlt hsz3⟩⟩
    | some err => exact ⟨keeps_trans s1 (keeps_trans s2 s3), fun b hb => by cases hb⟩

theorem keeps_registerBundle (nc nm : Nat) (h3 : Heap) (d b' : Nat) (q : QName) :
    Keeps nc nm h3 (h3.registerBundle d b' q).1 := by
  unfold registerBundle
  simp only []
  have s4 := keeps_setCont nc nm h3 b' { h3.cont b' with id := some q } rfl
  split
  · exact s4
  · refine keeps_trans s4 (keeps_trans (keeps_setCont nc nm _ d _ ?_) (keeps_setCont nc nm _ b' _ ?_)) <;> rfl

theorem keeps_attachBundle (nc nm : Nat) (h1 : Heap) (d b' : Nat) (idArg : NameArg) (hb : nc ≤ b') (hlt : b' < h1.conts.size) :
    Keeps nc nm h1 (h1.attachBundle d b' idArg).1 := by
  unfold attachBundle
  split
  · exact keeps_refl nc nm h1
  · have s2 : Keeps nc nm h1 (h1.linkParent d b') := by
      intro hh
      exact keeps_mgrWrite nc nm h1 (h1.cont b').mgr _ (hh.2 b' hb hlt) hh
    have hsz : (h1.linkParent d b').conts.size = h1.conts.size := rfl
    have s3 := keeps_validName nc nm (h1.linkParent d b') b' (h1.defaultBundleId b' idArg) hb (by rw [hsz]; exact hlt)
    generalize (h1.linkParent d b').validName b' (h1.defaultBundleId b' idArg) = vn at s3
    obtain ⟨h3, vid⟩ := vn
    cases vid with
    | none => exact keeps_trans s2 s3
    | some q => exact keeps_trans s2 (keeps_trans s3 (keeps_registerBundle nc nm h3 d b' q))

theorem keeps_addBundle (nc nm : Nat) (h : Heap) (d b : Nat) (idArg : NameArg) (nsOrder : List Ns)
    (hb : nc ≤ b) (hlt : b < h.conts.size) (hnc : nc ≤ h.conts.size) :
    Keeps nc nm h (h.addBundle d b idArg nsOrder).1 := by
  unfold addBundle
  simp only []
  by_cases hdoc : (h.cont b).isDoc = true
  · simp only [hdoc, if_true]
    by_cases hbs : (!(h.cont b).bundles.isEmpty) = true
    · simp only [hbs, if_true]
      exact keeps_refl nc nm h
    · simp only [hbs, Bool.false_eq_true, if_false]
      have s2 := keeps_allocCont nc nm h false none nsOrder none
      obtain ⟨hcs, hidx⟩ := conts_size_allocCont h false none nsOrder none
      generalize h.allocCont false none nsOrder none = al at s2 hcs hidx
      obtain ⟨h2, nb⟩ := al
      simp only at s2 hcs hidx ⊢
      have hnb : nc ≤ nb := by rw [hidx]; exact hnc
      have hlt2 : nb < h2.conts.size := by rw [hcs, hidx]; exact Nat.lt_succ_self _
      have s3 := keeps_addRecords nc nm nb hnb (h.cont b).records h2 hlt2
      have hsz3 := (frameB_addRecords 0 0 nb (Nat.zero_le _) (h.cont b).records h2 (Nat.zero_le _)).csize
      generalize h2.addRecords nb (h.cont b).records = res3 at s3 hsz3
      obtain ⟨h3, e3⟩ := res3
      have s23 := keeps_trans s2 s3
      cases e3 with
      | some err => exact s23
      | none => exact keeps_trans s23 (keeps_attachBundle nc nm h3 d nb idArg hnb (Nat.lt_of_lt_of_le hlt2 hsz3))
  · simp only [hdoc, Bool.false_eq_true, if_false]
    exact keeps_attachBundle nc nm h d b idArg hb hlt

/-- the loop over the source's bundles: unify each, attach the result to the new document -/
theorem keeps_unifiedGo (nc nm : Nat) (nd : Nat) : ∀ (bs : List (QName × Nat)) (h : Heap),
    nc ≤ h.conts.size → Keeps nc nm h (unifiedInto.go nd h bs).1
  | [], h, _ => keeps_refl nc nm h
  | (q, b) :: rest, h, hnc => by
    unfold unifiedInto.go
    obtain ⟨s1, hub⟩ := keeps_unifiedBundle nc nm h b hnc
    have hsz1 := (frameB_unifiedBundle 0 0 h b (Nat.zero_le _) (Nat.zero_le _)).1.csize
    generalize h.unifiedBundle b = res at s1 hub hsz1
    obtain ⟨h', e⟩ := res
    cases e with
    | error err => exact s1
    | ok ub =>
      simp only at hub hsz1 ⊢
      obtain ⟨u1, u2⟩ := hub ub rfl
      have hnc' : nc ≤ h'.conts.size := Nat.le_trans hnc hsz1
      have s2 := keeps_addBundle nc nm h' nd ub .nil [] u1 u2 hnc'
      have hsz2 := (frameB_addBundle 0 0 h' nd ub .nil [] (Nat.zero_le _) (Nat.zero_le _) (Nat.zero_le _) (Nat.zero_le _)).csize
      generalize h'.addBundle nd ub .nil [] = res2 at s2 hsz2
      obtain ⟨h'', e2⟩ := res2
      cases e2 with
      | some err => exact keeps_trans s1 s2
      | none => exact keeps_trans s1 (keeps_trans s2 (keeps_unifiedGo nc nm nd rest h'' (Nat.le_trans hnc' hsz2)))

theorem keeps_unifiedInto (nc nm : Nat) (h2 : Heap) (d nd : Nat) (hnd : nc ≤ nd) (hlt : nd < h2.conts.size)
    (hnc : nc ≤ h2.conts.size) : Keeps nc nm h2 (h2.unifiedInto d nd).1 := by
  unfold unifiedInto
  have s3 := keeps_unifiedRecords nc nm h2 d hnc
  have hsz3 := (frameB_unifiedRecords 0 0 h2 d (Nat.zero_le _) (Nat.zero_le _)).csize
  generalize h2.unifiedRecords d = res at s3 hsz3
  obtain ⟨h3, e⟩ := res
  cases e with
  | error err => exact s3
  | ok rs =>
    simp only at hsz3 ⊢
    have s4 := keeps_addRecords nc nm nd hnd rs h3 (Nat.lt_of_lt_of_le hlt hsz3)
    have hsz4 := (frameB_addRecords 0 0 nd (Nat.zero_le _) rs h3 (Nat.zero_le _)).csize
    generalize h3.addRecords nd rs = res4 at s4 hsz4
    obtain ⟨h4, e4⟩ := res4
    cases e4 with
    | some err => exact keeps_trans s3 s4
    | none =>
      simp only at hsz4 ⊢
      have s5 := keeps_unifiedGo nc nm nd (h4.cont d).bundles h4 (Nat.le_trans hnc (Nat.le_trans hsz3 hsz4))
      generalize unifiedInto.go nd h4 (h4.cont d).bundles = res5 at s5
      obtain ⟨h5, e5⟩ := res5
      cases e5 <;> exact keeps_trans s3 (keeps_trans s4 s5)

theorem keeps_unifiedDoc (h : Heap) (d : Nat) : Keeps h.conts.size h.mgrs.size h (h.unifiedDoc d).1 := by
  unfold unifiedDoc
  simp only []
  have s1 := keeps_allocCont h.conts.size h.mgrs.size h true none (h.mgrOf d).reg.values none
  obtain ⟨hcs, hidx⟩ := conts_size_allocCont h true none (h.mgrOf d).reg.values none
  generalize h.allocCont true none (h.mgrOf d).reg.values none = al at s1 hcs hidx
  obtain ⟨h1, nd⟩ := al
  simp only at s1 hcs hidx ⊢
  have hnd : h.conts.size ≤ nd := by rw [hidx]; exact Nat.le_refl _
  have hlt : nd < h1.conts.size := by rw [hcs, hidx]; exact Nat.lt_succ_self _
  have s2 : Keeps h.conts.size h.mgrs.size h1 (h1.copyDefault nd (h.mgrOf d).dflt) := by
    unfold copyDefault
    split
    · exact keeps_setMgr _ _ h1 nd _ hnd hlt
    · exact keeps_refl _ _ h1
  have hs2 : (h1.copyDefault nd (h.mgrOf d).dflt).conts.size = h1.conts.size := by
    unfold copyDefault; cases (h.mgrOf d).dflt <;> rfl
  exact keeps_trans s1 (keeps_trans s2 (keeps_unifiedInto _ _ _ d nd hnd (by rw [hs2]; exact hlt) (by rw [hs2, hcs]; exact Nat.le_succ _)))

theorem high_self (h : Heap) : High h.conts.size h.mgrs.size h :=
  ⟨Nat.le_refl _, fun _ hc hlt => absurd hlt (Nat.not_lt.mpr hc)⟩

/-- **`ProvDocument.unified()` writes no namespace manager that existed**: every manager cell of the heap before the call —
    those of the source document and of each of its bundles among them — is the same after it, success or error -/
theorem c13_unified_mgrs (h : Heap) (d : Nat) (i : Nat) (hi : i < h.mgrs.size) :
    (h.unifiedDoc d).1.mgrCell i = h.mgrCell i :=
  ((keeps_unifiedDoc h d) (high_self h)).1.mgrs i hi

/-- **`ProvBundle.unified()`** likewise -/
theorem c13_unifiedBundle_mgrs (h : Heap) (c : Nat) (i : Nat) (hi : i < h.mgrs.size) :
    (h.unifiedBundle c).1.mgrCell i = h.mgrCell i :=
  (((keeps_unifiedBundle h.conts.size h.mgrs.size h c (Nat.le_refl _)).1) (high_self h)).1.mgrs i hi

/-- **nothing of the source is written by `unified()`**: for a container that existed, in a heap whose containers refer to
    existing managers (with existing parents), the container cell, the manager it resolves names with, its parent manager and
    every record cell are the same after `ProvDocument.unified()` as before -/
theorem c13_unified_untouched (h : Heap) (d : Nat) (c : Nat) (hc : c < h.conts.size)
    (hm : (h.cont c).mgr < h.mgrs.size) (hp : ∀ p, (h.mgrCell (h.cont c).mgr).parent = some p → p < h.mgrs.size) :
    (h.unifiedDoc d).1.cont c = h.cont c ∧ (h.unifiedDoc d).1.mgrOf c = h.mgrOf c ∧
      (h.unifiedDoc d).1.parentOf c = h.parentOf c ∧
      ∀ r, r < h.recs.size → (h.unifiedDoc d).1.recCell r = h.recCell r := by
  have f := c13_unified_frame h d
  have hcell := c13_unified_mgrs h d (h.cont c).mgr hm
  refine ⟨f.conts c hc, ?_, ?_, fun r hr => f.recs r hr⟩
  · unfold mgrOf
    rw [f.conts c hc, hcell]
  · unfold parentOf
    rw [f.conts c hc, hcell]
    cases hpar : (h.mgrCell (h.cont c).mgr).parent with
    | none => rfl
    | some p => simp only []; rw [c13_unified_mgrs h d p (hp p hpar)]

/-- non-vacuity, and the very case of the repaired defect: a bundle states one identifier twice under a prefix only its
    document declares; `unified()` of the document succeeds, merges, and the hypotheses of `c13_unified_untouched` hold of the
    bundle (container 1), whose manager therefore still declares nothing -/
def opsInherited : List C05.HOp :=
  [.newDoc [⟨"w3", "http://www.w3.org/other/"⟩],
   .bundle 0 (.str "w3:b"),
   .newRecord 1 .entity (.str "w3:e") [⟨.str "w3:p", .val (.int 1), none⟩],
   .newRecord 1 .entity (.str "w3:e") [⟨.str "w3:q", .val (.str "two"), none⟩]]

example : let h := opsInherited.foldl C05.hstep Heap.empty
    (∃ h' nd, h.unifiedDoc 0 = (h', .ok nd) ∧ ((h'.cont nd).bundles.map (fun p => (h'.cont p.2).records.length)) = [1]) ∧
    (1 < h.conts.size ∧ (h.cont 1).mgr < h.mgrs.size ∧ (h.mgrCell (h.cont 1).mgr).parent = some 0 ∧ 0 < h.mgrs.size) ∧
    (h.mgrOf 1).reg.values = [] := by
  refine ⟨⟨_, _, rfl, by decide⟩, by decide, by decide⟩

end Prov.C13

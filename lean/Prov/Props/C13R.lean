/-
  C13 / C11, building records out of names the container already owns registers nothing.

  `add_attributes` is the only place where constructing a record can change namespace declarations: the attribute name, a
  reference value, a qualified-name value, the datatype of a literal that stays a literal each pass through
  `valid_qualified_name(QualifiedName)`. When every such name is *owned* by the manager — bound there under its own prefix,
  or in its default namespace; in particular every name the manager itself resolved from a string (`Props/C03B`) — the call
  returns the manager exactly as it was (`c13_owned_args_register_nothing`), whether it succeeds or is refused part-way. So
  the readers of PROV-JSON / PROV-XML / PROV-N, which obtain every name from the text through the document's own resolver,
  leave the declarations of a document as the prefix block made them; and so does re-adding to a record names taken from
  the same container.
-/
import Prov.Props.C03B
import Prov.Record

namespace Prov.C13
open Prov Prov.C03

/-- every name an argument pair carries is owned by the manager -/
def ArgOwned (m : NsMgr) (a : AttrArg) : Prop :=
  (match a.name with
   | .qn q => m.Owns q
   | _ => True) ∧
  (match a.value with
   | .val (.qn q) => m.Owns q
   | .recId (some q) => m.Owns q
   | .val (.lit _ (some ty) _) => m.Owns ty
   | _ => True)

theorem validName_owned_fixed (par : Option NsMgr) (m : NsMgr) (x : NameArg)
    (h : match x with | .qn q => m.Owns q | _ => True) : (m.validName par x).1 = m := by
  cases x with
  | nil => rfl
  | str s => rfl
  | qn q =>
    simp only [NsMgr.validName]
    rw [validQ_owned_fixpoint m q h]

theorem rehomeLit_owned_fixed (m : NsMgr) (lex : String) (ty : Option QName) (lang : Option String)
    (h : match ty with | some t => m.Owns t | none => True) : (rehomeLit m lex ty lang).1 = m := by
  cases ty with
  | none => rfl
  | some t =>
    simp only [rehomeLit]
    rw [validQ_owned_fixpoint m t h]

theorem autoLiteral_owned_fixed (m : NsMgr) (v : ArgVal) (flt : Option FloatAtom)
    (h : match v with
         | .val (.qn q) => m.Owns q
         | .recId (some q) => m.Owns q
         | .val (.lit _ (some ty) _) => m.Owns ty
         | _ => True) : (autoLiteral m v flt).1 = m := by
  unfold autoLiteral
  split
  · rfl
  · rfl
  · rename_i q
    simp only
    rw [validQ_owned_fixpoint m q h]
  · rename_i q
    simp only
    rw [validQ_owned_fixpoint m q h]
  · rename_i lex ty
    cases ty with
    | none => rfl
    | some t =>
      simp only
      split
      · split
        · rfl
        · exact rehomeLit_owned_fixed m lex (some t) none h
        · rfl
      · exact rehomeLit_owned_fixed m lex (some t) none h
  · rename_i lex ty lang
    apply rehomeLit_owned_fixed
    cases ty with
    | none => trivial
    | some t => exact h
  · rfl

/-- the conversion step leaves the manager alone when the value's names are owned -/
theorem convValue_owned_fixed (par : Option NsMgr) (m : NsMgr) (attr : QName) (a : AttrArg)
    (h : match a.value with
         | .val (.qn q) => m.Owns q
         | .recId (some q) => m.Owns q
         | .val (.lit _ (some ty) _) => m.Owns ty
         | _ => True) : (convValue par m attr a).1 = m := by
  unfold convValue
  split
  · -- reference attribute
    cases hv : a.value with
    | nil => simp [ArgVal.toNameArg, NsMgr.validName]
    | recId id =>
      cases id with
      | none => simp [ArgVal.toNameArg, NsMgr.validName]
      | some q =>
        rw [hv] at h
        simp only [ArgVal.toNameArg]
        exact validName_owned_fixed par m (.qn q) h
    | val v =>
      cases v with
      | qn q =>
        rw [hv] at h
        simp only [ArgVal.toNameArg]
        exact validName_owned_fixed par m (.qn q) h
      | str s => simp [ArgVal.toNameArg, NsMgr.validName]
      | uri u => simp [ArgVal.toNameArg, NsMgr.validName]
      | _ => simp [ArgVal.toNameArg]
  · split
    · split <;> rfl
    · exact autoLiteral_owned_fixed m a.value a.flt h

theorem addOne_owned_fixed (par : Option NsMgr) (isColl : Bool) (m : NsMgr) (r : Record) (a : AttrArg) (h : ArgOwned m a) :
    (addOne par isColl m r a).1 = m := by
  obtain ⟨hn, hv⟩ := h
  have h1 := validName_owned_fixed par m a.name hn
  unfold addOne
  split
  · rfl
  · dsimp only
    split
    · exact h1
    · rename_i attr _
      have h2 : (convValue par (m.validName par a.name).1 attr a).1 = m := by
        rw [h1]; exact convValue_owned_fixed par m attr a hv
      split <;> exact h2

theorem loop_owned_fixed (par : Option NsMgr) (isColl : Bool) : ∀ (attrs : List AttrArg) (m : NsMgr) (r : Record),
    (∀ a ∈ attrs, ArgOwned m a) → (addAttrsLoop par isColl m r attrs).1 = m
  | [], _, _, _ => rfl
  | a :: rest, m, r, h => by
    have h1 := addOne_owned_fixed par isColl m r a (h a List.mem_cons_self)
    unfold addAttrsLoop
    cases hs : addOne par isColl m r a with
    | mk m1 rest1 =>
      obtain ⟨r1, e⟩ := rest1
      rw [hs] at h1
      simp only at h1
      subst h1
      cases e with
      | none => exact loop_owned_fixed par isColl rest m1 r1 (fun b hb => h b (List.mem_cons_of_mem _ hb))
      | some err => rfl

/-- **C13/C11: arguments whose names the container owns register nothing** — `add_attributes` (hence a record constructor,
    `new_record`, every factory, every reader's record-building step) returns the namespace manager exactly as it was, for any
    record, any number of pairs, whether the call succeeds or is refused -/
theorem c13_owned_args_register_nothing (par : Option NsMgr) (m : NsMgr) (r : Record) (attrs : List AttrArg)
    (h : ∀ a ∈ attrs, ArgOwned m a) : (Record.addAttributes par m r attrs).1 = m :=
  loop_owned_fixed par _ attrs m r h

/-- a pair whose name and value were both resolved by the document from text is such an argument -/
theorem argOwned_of_text {m : NsMgr} (hm : m.Inv2) (sn sv : String) (qn qv : QName)
    (h1 : (m.validName none (.str sn)).2 = some qn) (h2 : (m.validName none (.str sv)).2 = some qv) :
    ArgOwned m ⟨.qn qn, .val (.qn qv), none⟩ := by
  have own : ∀ (s : String) (q : QName), (m.validName none (.str s)).2 = some q → m.Owns q := by
    intro s q h
    simp only [NsMgr.validName, NsMgr.resolveStr] at h
    have hown : m.resolveOwn s = some q := by
      split at h
      · simp at h
      · split at h
        · simp at h
        · cases hr : m.resolveOwn s with
          | none => rw [hr] at h; simp at h
          | some q' => rw [hr] at h; simpa using h
    exact resolveOwn_owned hm s q hown
  exact ⟨own sn qn h1, own sv qv h2⟩

/-- non-vacuity: in a document that declares `ex`, an attribute `ex:p` with the value `ex:thing` -/
def mEx : NsMgr := (NsMgr.init.addNs ⟨"ex", "http://example.org/"⟩).1

example : ArgOwned mEx ⟨.qn ⟨⟨"ex", "http://example.org/"⟩, "p"⟩, .val (.qn ⟨⟨"ex", "http://example.org/"⟩, "thing"⟩), none⟩ :=
  ⟨by decide +kernel, by decide +kernel⟩

example : (Record.addAttributes none mEx ⟨.entity, none, []⟩
    [⟨.qn ⟨⟨"ex", "http://example.org/"⟩, "p"⟩, .val (.qn ⟨⟨"ex", "http://example.org/"⟩, "thing"⟩), none⟩]).1 = mEx :=
  c13_owned_args_register_nothing none mEx _ _ (fun a ha => by
    simp only [List.mem_singleton] at ha
    subst ha
    exact ⟨by decide +kernel, by decide +kernel⟩)

end Prov.C13

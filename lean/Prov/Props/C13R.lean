/-
  C13 / C11, building records out of names the container already owns registers nothing.

  `add_attributes` is the only place where constructing a record can change namespace declarations: the attribute name, a
  reference value, a qualified-name value, the datatype of a literal that stays a literal each pass through
  `valid_qualified_name(QualifiedName)`. When every such name is *owned* by the manager — bound there under its own prefix,
  or in its default namespace; in particular every name the manager itself resolved from a string (`Props/C03B`) — the call
  returns the manager exactly as it was (`c13_owned_args_register_nothing`), whether it succeeds or is refused part-way. So
  the readers of PROV-JSON / PROV-XML / PROV-N, which obtain every name from the text through the document's own resolver,
  leave the declarations of a document as the prefix block made them; and so does re-adding to a record names taken from
  the same container.
-/
import Prov.Props.C03B
import Prov.Heap

namespace Prov.C13
open Prov Prov.C03

/-- every name an argument pair carries is owned by the manager -/
def ArgOwned (m : NsMgr) (a : AttrArg) : Prop :=
  (match a.name with
   | .qn q => m.Owns q
   | _ => True) ∧
  (match a.value with
   | .val (.qn q) => m.Owns q
   | .recId (some q) => m.Owns q
   | .val (.lit _ (some ty) _) => m.Owns ty
   | _ => True)

theorem validName_owned_fixed (par : Option NsMgr) (m : NsMgr) (x : NameArg)
    (h : match x with | .qn q => m.Owns q | _ => True) : (m.validName par x).1 = m := by
  cases x with
  | nil => rfl
  | str s => rfl
  | qn q =>
    simp only [NsMgr.validName]
    rw [validQ_owned_fixpoint m q h]

theorem rehomeLit_owned_fixed (m : NsMgr) (lex : String) (ty : Option QName) (lang : Option String)
    (h : match ty with | some t => m.Owns t | none => True) : (rehomeLit m lex ty lang).1 = m := by
  cases ty with
  | none => rfl
  | some t =>
    simp only [rehomeLit]
    rw [validQ_owned_fixpoint m t h]

theorem autoLiteral_owned_fixed (m : NsMgr) (v : ArgVal) (flt : Option FloatAtom)
    (h : match v with
         | .val (.qn q) => m.Owns q
         | .recId (some q) => m.Owns q
         | .val (.lit _ (some ty) _) => m.Owns ty
         | _ => True) : (autoLiteral m v flt).1 = m := by
  unfold autoLiteral
  split
  · rfl
  · rfl
  · rename_i q
    simp only
    rw [validQ_owned_fixpoint m q h]
  · rename_i q
    simp only
    rw [validQ_owned_fixpoint m q h]
  · rename_i lex ty
    cases ty with
    | none => rfl
    | some t =>
      simp only
      split
      · split
        · rfl
        · exact rehomeLit_owned_fixed m lex (some t) none h
        · rfl
      · exact rehomeLit_owned_fixed m lex (some t) none h
  · rename_i lex ty lang
    apply rehomeLit_owned_fixed
    cases ty with
    | none => trivial
    | some t => exact h
  · rfl

/-- the conversion step leaves the manager alone when the value's names are owned -/
theorem convValue_owned_fixed (par : Option NsMgr) (m : NsMgr) (attr : QName) (a : AttrArg)
    (h : match a.value with
         | .val (.qn q) => m.Owns q
         | .recId (some q) => m.Owns q
         | .val (.lit _ (some ty) _) => m.Owns ty
         | _ => True) : (convValue par m attr a).1 = m := by
  unfold convValue
  split
  · -- reference attribute
    cases hv : a.value with
    | nil => simp [ArgVal.toNameArg, NsMgr.validName]
    | recId id =>
      cases id with
      | none => simp [ArgVal.toNameArg, NsMgr.validName]
      | some q =>
        rw [hv] at h
        simp only [ArgVal.toNameArg]
        exact validName_owned_fixed par m (.qn q) h
    | val v =>
      cases v with
      | qn q =>
        rw [hv] at h
        simp only [ArgVal.toNameArg]
        exact validName_owned_fixed par m (.qn q) h
      | str s => simp [ArgVal.toNameArg, NsMgr.validName]
      | uri u => simp [ArgVal.toNameArg, NsMgr.validName]
      | _ => simp [ArgVal.toNameArg]
  · split
    · split <;> rfl
    · exact autoLiteral_owned_fixed m a.value a.flt h

theorem addOne_owned_fixed (par : Option NsMgr) (isColl : Bool) (m : NsMgr) (r : Record) (a : AttrArg) (h : ArgOwned m a) :
    (addOne par isColl m r a).1 = m := by
  obtain ⟨hn, hv⟩ := h
  have h1 := validName_owned_fixed par m a.name hn
  unfold addOne
  split
  · rfl
  · dsimp only
    split
    · exact h1
    · rename_i attr _
      have h2 : (convValue par (m.validName par a.name).1 attr a).1 = m := by
        rw [h1]; exact convValue_owned_fixed par m attr a hv
      split <;> exact h2

theorem loop_owned_fixed (par : Option NsMgr) (isColl : Bool) : ∀ (attrs : List AttrArg) (m : NsMgr) (r : Record),
    (∀ a ∈ attrs, ArgOwned m a) → (addAttrsLoop par isColl m r attrs).1 = m
  | [], _, _, _ => rfl
  | a :: rest, m, r, h => by
    have h1 := addOne_owned_fixed par isColl m r a (h a List.mem_cons_self)
    unfold addAttrsLoop
    cases hs : addOne par isColl m r a with
    | mk m1 rest1 =>
      obtain ⟨r1, e⟩ := rest1
      rw [hs] at h1
      simp only at h1
      subst h1
      cases e with
      | none => exact loop_owned_fixed par isColl rest m1 r1 (fun b hb => h b (List.mem_cons_of_mem _ hb))
      | some err => rfl

/-- **C13/C11: arguments whose names the container owns register nothing** — `add_attributes` (hence a record constructor,
    `new_record`, every factory, every reader's record-building step) returns the namespace manager exactly as it was, for any
    record, any number of pairs, whether the call succeeds or is refused -/
theorem c13_owned_args_register_nothing (par : Option NsMgr) (m : NsMgr) (r : Record) (attrs : List AttrArg)
    (h : ∀ a ∈ attrs, ArgOwned m a) : (Record.addAttributes par m r attrs).1 = m :=
  loop_owned_fixed par _ attrs m r h

/-- a pair whose name and value were both resolved by the document from text is such an argument -/
theorem argOwned_of_text {m : NsMgr} (hm : m.Inv2) (sn sv : String) (qn qv : QName)
    (h1 : (m.validName none (.str sn)).2 = some qn) (h2 : (m.validName none (.str sv)).2 = some qv) :
    ArgOwned m ⟨.qn qn, .val (.qn qv), none⟩ := by
  have own : ∀ (s : String) (q : QName), (m.validName none (.str s)).2 = some q → m.Owns q := by
    intro s q h
    simp only [NsMgr.validName, NsMgr.resolveStr] at h
    have hown : m.resolveOwn s = some q := by
      split at h
      · simp at h
      · split at h
        · simp at h
        · cases hr : m.resolveOwn s with
          | none => rw [hr] at h; simp at h
          | some q' => rw [hr] at h; simpa using h
    exact resolveOwn_owned hm s q hown
  exact ⟨own sn qn h1, own sv qv h2⟩

/-- non-vacuity: in a document that declares `ex`, an attribute `ex:p` with the value `ex:thing` -/
def mEx : NsMgr := (NsMgr.init.addNs ⟨"ex", "http://example.org/"⟩).1

example : ArgOwned mEx ⟨.qn ⟨⟨"ex", "http://example.org/"⟩, "p"⟩, .val (.qn ⟨⟨"ex", "http://example.org/"⟩, "thing"⟩), none⟩ :=
  ⟨by decide +kernel, by decide +kernel⟩

example : (Record.addAttributes none mEx ⟨.entity, none, []⟩
    [⟨.qn ⟨⟨"ex", "http://example.org/"⟩, "p"⟩, .val (.qn ⟨⟨"ex", "http://example.org/"⟩, "thing"⟩), none⟩]).1 = mEx :=
  c13_owned_args_register_nothing none mEx _ _ (fun a ha => by
    simp only [List.mem_singleton] at ha
    subst ha
    exact ⟨by decide +kernel, by decide +kernel⟩)

end Prov.C13

namespace Prov.C13
open Prov Prov.Heap Prov.C03

/-- writing back the manager a container already has changes no manager cell -/
theorem mgrCell_setMgr_same (h : Heap) (c i : Nat) : (h.setMgr c (h.mgrOf c)).mgrCell i = h.mgrCell i := by
  unfold setMgr mgrCell mgrOf
  simp only [Array.getD_eq_getD_getElem?, Array.getElem?_setIfInBounds]
  split
  · rename_i hi
    split
    · rename_i hlt
      subst hi
      simp [mgrCell, Array.getD_eq_getD_getElem?, hlt]
    · rename_i hlt
      subst hi
      have : h.mgrs[(h.cont c).mgr]? = none := by
        rw [Array.getElem?_eq_none_iff]; omega
      rw [this]
  · rfl

/-- **on the heap**: `new_record` (every factory, every reader's record-building step) with an identifier and arguments whose
    names the container owns leaves *every* namespace manager of the heap as it was — the container's own, its document's,
    everybody else's — whether the record is created or the call is refused -/
theorem c13_newRecord_owned_mgrs (h : Heap) (c : Nat) (k : RecKind) (idArg : NameArg) (attrs : List AttrArg)
    (hid : match idArg with | .qn q => (h.mgrOf c).Owns q | _ => True)
    (hargs : ∀ a ∈ attrs, ArgOwned (h.mgrOf c) a) (i : Nat) :
    (h.newRecord c k idArg attrs).1.mgrCell i = h.mgrCell i := by
  unfold Heap.newRecord
  simp only []
  -- the identifier
  have hv : (h.validName c idArg).1 = h.setMgr c (h.mgrOf c) := by
    unfold Heap.validName
    simp only []
    rw [show ((h.mgrOf c).validName (h.parentOf c) idArg).1 = h.mgrOf c from validName_owned_fixed _ _ idArg hid]
  have hm1 : ∀ j, (h.validName c idArg).1.mgrCell j = h.mgrCell j := fun j => by rw [hv]; exact mgrCell_setMgr_same h c j
  generalize hvn : h.validName c idArg = vn at hm1
  obtain ⟨h1, vid⟩ := vn
  simp only at hm1 ⊢
  have hmo : h1.mgrOf c = h.mgrOf c := by
    have hc : h1.conts = h.conts := by
      have := congrArg (fun p => p.1.conts) hvn
      simpa [Heap.validName, setMgr] using this.symm
    simp only [mgrOf, cont, hc]
    rw [hm1]
  have hpo : h1.parentOf c = h.parentOf c := by
    have hc : h1.conts = h.conts := by
      have := congrArg (fun p => p.1.conts) hvn
      simpa [Heap.validName, setMgr] using this.symm
    simp only [parentOf, cont, hc]
    rw [hm1]
    cases (h.mgrCell (h.conts.getD c default).mgr).parent with
    | none => rfl
    | some p => simp only; rw [hm1]
  -- the constructor
  have hmk : ∀ j, (h1.mkRecord c k vid attrs).1.mgrCell j = h1.mgrCell j := by
    intro j
    unfold mkRecord
    split
    · rfl
    · simp only []
      have hfix : (Record.addAttributes (h1.parentOf c) (h1.mgrOf c) ⟨k, vid, []⟩ attrs).1 = h1.mgrOf c :=
        c13_owned_args_register_nothing _ _ _ attrs (by rw [hmo]; exact hargs)
      split
      · show (h1.setMgr c _).mgrCell j = h1.mgrCell j
        rw [hfix]; exact mgrCell_setMgr_same h1 c j
      · show (h1.setMgr c _).mgrCell j = h1.mgrCell j
        rw [hfix]; exact mgrCell_setMgr_same h1 c j
  generalize h1.mkRecord c k vid attrs = mk at hmk
  obtain ⟨h2, e⟩ := mk
  cases e with
  | error err => simp only; rw [hmk, hm1]
  | ok r =>
    show (h2.addRecordRaw c r).mgrCell i = h.mgrCell i
    have : (h2.addRecordRaw c r).mgrCell i = h2.mgrCell i := rfl
    rw [this, hmk, hm1]

end Prov.C13

/-
  C06, attribute values at character level: the text the printer emits for an attribute value is tokenised by the
  grammar's lexer into exactly the tokens of the `literal` production, and those tokens are parsed into the value it
  denotes — for every value kind, every string, whatever follows (as long as what follows cannot be glued to the last
  token). The lexer lemmas are stated with explicit fuel: `k` more fuel for the value's `k` lexer steps.
-/
import Prov.Props.C06
import Prov.Props.C10R

namespace Prov.C06
open Prov Prov.ProvNSpec Prov.JsonSpec

/-! ### single lexer steps -/

theorem lex_succ (n : Nat) (cs : List Char) : lex (n + 1) cs = lexBody (lex n) cs := rfl

theorem lex_space (n : Nat) (cs : List Char) : lex (n + 1) (' ' :: cs) = lex n cs := by
  simp [lex_succ, lexBody]

theorem lex_pct2 (n : Nat) (cs : List Char) : lex (n + 1) ('%' :: '%' :: cs) = (lex n cs).map (Tok.pct2 :: ·) := by
  simp [lex_succ, lexBody]

/-- what may follow a word: nothing, or a character that is not a word character -/
def EndsWord (rest : List Char) : Prop := ∀ c ∈ rest.head?, isWordChar c = false

theorem takeWhile_word (w rest : List Char) (hw : ∀ c ∈ w, isWordChar c = true) (hr : EndsWord rest) :
    takeWhileC isWordChar (w ++ rest) = (w, rest) := by
  induction w with
  | nil =>
    cases rest with
    | nil => rfl
    | cons c cs =>
      have : isWordChar c = false := hr c (by simp)
      simp [takeWhileC, this]
  | cons c cs ih =>
    have hc : isWordChar c = true := hw c List.mem_cons_self
    simp only [List.cons_append, takeWhileC, hc, if_true]
    rw [ih (fun x hx => hw x (List.mem_cons_of_mem _ hx))]

/-- a word: its characters are word characters and it does not start with a character the lexer treats specially -/
structure IsWord (w : List Char) : Prop where
  nonempty : w ≠ []
  chars : ∀ c ∈ w, isWordChar c = true
  head : ∀ c ∈ w.head?, c ≠ '%' ∧ c ≠ '@'

theorem lex_word (n : Nat) (w rest : List Char) (hw : IsWord w) (hr : EndsWord rest) :
    lex (n + 1) (w ++ rest) = (lex n rest).map (Tok.word (String.ofList w) :: ·) := by
  cases w with
  | nil => exact absurd rfl hw.nonempty
  | cons c cs =>
    have hc : isWordChar c = true := hw.chars c List.mem_cons_self
    obtain ⟨h1, h2⟩ := hw.head c (by simp)
    have ne : ∀ d : Char, isWordChar d = false → c ≠ d := fun d hd e => by rw [e] at hc; rw [hd] at hc; cases hc
    have e1 := ne ' ' (by decide); have e2 := ne '\n' (by decide); have e3 := ne '\t' (by decide); have e4 := ne '\r' (by decide)
    have e5 := ne '(' (by decide); have e6 := ne ')' (by decide); have e7 := ne ',' (by decide); have e8 := ne ';' (by decide)
    have e9 := ne '[' (by decide); have e10 := ne ']' (by decide); have e11 := ne '=' (by decide); have e12 := ne '<' (by decide)
    have e13 := ne '\'' (by decide); have e14 := ne '"' (by decide)
    have htw := takeWhile_word (c :: cs) rest hw.chars hr
    simp only [List.cons_append] at htw ⊢
    simp [lex_succ, lexBody, e1, e2, e3, e4, e5, e6, e7, e8, e9, e10, e11, e12, e13, e14, h1, h2, hc, htw]

/-- the escaped text never starts with a bare quote -/
theorem escape_head (s : List Char) : ∀ c ∈ (provnEscape s).head?, c ≠ '"' := by
  cases s with
  | nil => simp [provnEscape]
  | cons c cs =>
    intro d hd
    simp only [provnEscape] at hd
    split at hd
    · simp at hd; subst hd; decide
    · split at hd
      · simp at hd; subst hd; decide
      · next h1 h2 =>
        simp at hd; subst hd
        simpa using h2

theorem lexString_short (k : List Char → Option (List Tok)) (cs : List Char) (h : ∀ r, cs ≠ '"' :: '"' :: r) :
    lexString k cs = (match lexShort cs [] with
      | some (s, r) => (k r).map (Tok.str (String.ofList s) :: ·)
      | none => none) := by
  unfold lexString
  split
  · next r => exact absurd rfl (h r)
  · rfl

theorem lexBody_quote (k : List Char → Option (List Tok)) (cs : List Char) : lexBody k ('"' :: cs) = lexString k cs := by
  simp [lexBody]

theorem lex_short (n : Nat) (s rest : List Char) (hn : '\n' ∉ s) (hr : '\r' ∉ s) (hq : ∀ c ∈ rest.head?, c ≠ '"') :
    lex (n + 1) ('"' :: (provnEscape s ++ '"' :: rest)) = (lex n rest).map (Tok.str (String.ofList s) :: ·) := by
  rw [lex_succ, lexBody_quote, lexString_short]
  · rw [lexShort_escape s rest [] hn hr]
    simp
  · intro r heq
    cases hs : provnEscape s with
    | nil =>
      rw [hs] at heq
      simp only [List.nil_append, List.cons.injEq, true_and] at heq
      cases rest with
      | nil => cases heq
      | cons d ds =>
        simp only [List.cons.injEq] at heq
        exact hq d (by simp) heq.1
    | cons c cs =>
      rw [hs] at heq
      simp only [List.cons_append, List.cons.injEq] at heq
      exact escape_head s c (by simp [hs]) heq.1

theorem lex_long (n : Nat) (s rest : List Char) :
    lex (n + 1) ('"' :: '"' :: '"' :: (provnEscape s ++ '"' :: '"' :: '"' :: rest)) =
      (lex n rest).map (Tok.str (String.ofList s) :: ·) := by
  rw [lex_succ, lexBody_quote]
  unfold lexString
  simp [lexLong_escape s rest []]

theorem takeWhile_upto (p : Char → Bool) (body rest : List Char) (hb : ∀ c ∈ body, p c = true)
    (hr : ∀ c ∈ rest.head?, p c = false) : takeWhileC p (body ++ rest) = (body, rest) := by
  induction body with
  | nil =>
    cases rest with
    | nil => rfl
    | cons c cs => simp [takeWhileC, hr c (by simp)]
  | cons c cs ih =>
    simp only [List.cons_append, takeWhileC, hb c List.mem_cons_self, if_true]
    rw [ih (fun x hx => hb x (List.mem_cons_of_mem _ hx))]

/-- `'name'` -/
theorem lex_qnlit (n : Nat) (body rest : List Char) (hb : '\'' ∉ body) :
    lex (n + 1) ('\'' :: (body ++ '\'' :: rest)) = (lex n rest).map (Tok.qnlit (String.ofList body) :: ·) := by
  have htw : takeWhileC (· != '\'') (body ++ '\'' :: rest) = (body, '\'' :: rest) :=
    takeWhile_upto _ body _ (fun c hc => by
      have : c ≠ '\'' := fun e => hb (e ▸ hc)
      simpa using this) (by simp)
  simp [lex_succ, lexBody, htw]

/-- `@tag` -/
theorem lex_lang (n : Nat) (tag rest : List Char) (ht : ∀ c ∈ tag, (c.isAlphanum || c == '-') = true)
    (hr : ∀ c ∈ rest.head?, (c.isAlphanum || c == '-') = false) :
    lex (n + 1) ('@' :: (tag ++ rest)) = (lex n rest).map (Tok.lang (String.ofList tag) :: ·) := by
  have htw := takeWhile_upto (fun x => x.isAlphanum || x == '-') tag rest ht hr
  simp [lex_succ, lexBody, htw]

/-! ### numbers are words -/

theorem int_chars (n : Int) : ∀ c ∈ (toString n).toList, c.isDigit = true ∨ c = '-' := by
  intro c hc
  cases n with
  | ofNat m =>
    have : (toString (Int.ofNat m)).toList = Nat.toDigits 10 m := by
      show (Nat.repr m).toList = _
      simp [Nat.repr]
    rw [this] at hc
    exact Or.inl (Nat.isDigit_of_mem_toDigits (by decide) (by decide) hc)
  | negSucc m =>
    have : (toString (Int.negSucc m)).toList = '-' :: Nat.toDigits 10 (m + 1) := by
      show ("-" ++ Nat.repr (m + 1)).toList = _
      simp [Nat.repr, String.toList_append]
    rw [this] at hc
    rcases List.mem_cons.mp hc with h | h
    · exact Or.inr h
    · exact Or.inl (Nat.isDigit_of_mem_toDigits (by decide) (by decide) h)

theorem digit_isWord (c : Char) (h : c.isDigit = true) : isWordChar c = true ∧ c ≠ '%' ∧ c ≠ '@' := by
  refine ⟨?_, fun e => by subst e; simp [Char.isDigit] at h, fun e => by subst e; simp [Char.isDigit] at h⟩
  have : c.isAlphanum = true := by simp [Char.isAlphanum, h]
  simp [isWordChar, this]

theorem int_isWord (n : Int) : IsWord (toString n).toList := by
  have hne : (toString n).toList ≠ [] := by
    cases n with
    | ofNat m =>
      show (Nat.repr m).toList ≠ []
      simp only [Nat.repr, String.toList_ofList]
      intro h
      have := Nat.toDigits_ne_nil (b := 10) (n := m)
      exact this h
    | negSucc m =>
      show ("-" ++ Nat.repr (m + 1)).toList ≠ []
      simp [String.toList_append]
  refine ⟨hne, fun c hc => ?_, fun c hc => ?_⟩
  · rcases int_chars n c hc with h | h
    · exact (digit_isWord c h).1
    · subst h; decide
  · have hmem : c ∈ (toString n).toList := List.mem_of_mem_head? hc
    rcases int_chars n c hmem with h | h
    · exact (digit_isWord c h).2
    · subst h; exact ⟨by decide, by decide⟩

/-! ### what follows a value in an attribute list -/

/-- the next character after an attribute value is `,` or `]` -/
def AfterValue (rest : List Char) : Prop := ∃ cs, rest = ',' :: cs ∨ rest = ']' :: cs

theorem afterValue_endsWord {rest : List Char} (h : AfterValue rest) : EndsWord rest := by
  obtain ⟨cs, h | h⟩ := h <;> subst h <;> intro c hc <;> simp at hc <;> subst hc <;> decide

theorem afterValue_noQuote {rest : List Char} (h : AfterValue rest) : ∀ c ∈ rest.head?, c ≠ '"' := by
  obtain ⟨cs, h | h⟩ := h <;> subst h <;> intro c hc <;> simp at hc <;> subst hc <;> decide

theorem afterValue_noTag {rest : List Char} (h : AfterValue rest) : ∀ c ∈ rest.head?, (c.isAlphanum || c == '-') = false := by
  obtain ⟨cs, h | h⟩ := h <;> subst h <;> intro c hc <;> simp at hc <;> subst hc <;> decide

/-- any string, quoted the way the printer quotes it, is one string token -/
theorem lex_quote (n : Nat) (s : String) (rest : List Char) (hq : ∀ c ∈ rest.head?, c ≠ '"') :
    lex (n + 1) ((provnQuote s).toList ++ rest) = (lex n rest).map (Tok.str s :: ·) := by
  unfold provnQuote
  simp only []
  by_cases hc : ((provnEscape s.toList).contains '\n' || (provnEscape s.toList).contains '\r') = true
  · simp only [hc, if_true, String.toList_append, String.toList_ofList, List.append_assoc]
    have : ("\"\"\"" : String).toList = ['"', '"', '"'] := rfl
    rw [this]
    simp only [List.cons_append, List.nil_append]
    have := lex_long n s.toList rest
    simpa using this
  · simp only [hc, Bool.false_eq_true, if_false, String.toList_append, String.toList_ofList, List.append_assoc]
    have h1 : ("\"" : String).toList = ['"'] := rfl
    rw [h1]
    simp only [List.cons_append, List.nil_append]
    have hcf : ((provnEscape s.toList).contains '\n' || (provnEscape s.toList).contains '\r') = false := by simpa using hc
    simp only [Bool.or_eq_false_iff, List.contains_eq_mem, decide_eq_false_iff_not] at hcf
    have hn : '\n' ∉ s.toList := fun h => hcf.1 ((escape_preserves_newlines s.toList '\n' ⟨by decide, by decide⟩).mpr h)
    have hr : '\r' ∉ s.toList := fun h => hcf.2 ((escape_preserves_newlines s.toList '\r' ⟨by decide, by decide⟩).mpr h)
    have := lex_short n s.toList rest hn hr hq
    simpa using this

/-- text without quote, backslash, LF, CR is its own escaped form -/
def NoSpecial (l : List Char) : Prop := '"' ∉ l ∧ '\\' ∉ l ∧ '\n' ∉ l ∧ '\r' ∉ l

theorem escape_id (l : List Char) (h : NoSpecial l) : provnEscape l = l := by
  induction l with
  | nil => rfl
  | cons c cs ih =>
    obtain ⟨h1, h2, h3, h4⟩ := h
    simp only [List.mem_cons, not_or] at h1 h2 h3 h4
    have e1 : (c == '\\') = false := by simpa using Ne.symm h2.1
    have e2 : (c == '"') = false := by simpa using Ne.symm h1.1
    simp only [provnEscape, e1, e2, Bool.false_eq_true, if_false]
    rw [ih ⟨h1.2, h2.2, h3.2, h4.2⟩]

/-- a bare `"text"` (as the printer writes date-times, floats, booleans and URIs) is one string token when the text has
    nothing to escape -/
theorem lex_bare (n : Nat) (t : String) (rest : List Char) (ht : NoSpecial t.toList) (hq : ∀ c ∈ rest.head?, c ≠ '"') :
    lex (n + 1) ('"' :: (t.toList ++ '"' :: rest)) = (lex n rest).map (Tok.str t :: ·) := by
  have := lex_short n t.toList rest ht.2.2.1 ht.2.2.2 hq
  rw [escape_id t.toList ht] at this
  simpa using this

/-- ` %% datatype` -/
theorem lex_typed_suffix (n : Nat) (ty rest : List Char) (hty : IsWord ty) (hr : EndsWord rest) :
    lex (n + 4) (' ' :: '%' :: '%' :: ' ' :: (ty ++ rest)) =
      (lex n rest).map (fun ts => Tok.pct2 :: Tok.word (String.ofList ty) :: ts) := by
  rw [show n + 4 = (n + 3) + 1 from rfl, lex_space, show n + 3 = (n + 2) + 1 from rfl, lex_pct2,
    show n + 2 = (n + 1) + 1 from rfl, lex_space, lex_word n ty rest hty hr]
  cases lex n rest <;> rfl

/-! ### every value -/

/-- the tokens of the `literal` production for a value -/
def litToks : Value → List Tok
  | .str s => [.str s]
  | .dt t => [.str t.iso, .pct2, .word "xsd:dateTime"]
  | .float f => [.str f.repr, .pct2, .word "xsd:double"]
  | .bool b => [.str (if b then "1" else "0"), .pct2, .word "xsd:boolean"]
  | .int n => [.word (toString n)]
  | .qn q => [.qnlit q.print]
  | .uri u => [.str u, .pct2, .word "xsd:anyURI"]
  | .lit v ty lang =>
    match lang with
    | some l => if l == "" then [.str v, .pct2, .word (match ty with | some t => t.print | none => "None")] else [.str v, .lang l]
    | none => [.str v, .pct2, .word (match ty with | some t => t.print | none => "None")]

/-- lexer steps the value's text takes -/
def litSteps : Value → Nat
  | .str _ => 1 | .int _ => 1 | .qn _ => 1
  | .lit _ _ (some l) => if l == "" then 5 else 2
  | _ => 5

/-- lexical side conditions: the texts written without escaping have nothing to escape, names are words -/
def Printable : Value → Prop
  | .dt t => NoSpecial t.iso.toList
  | .float f => NoSpecial f.repr.toList
  | .uri u => NoSpecial u.toList
  | .qn q => '\'' ∉ q.print.toList
  | .lit _ (some t) none => IsWord t.print.toList
  | .lit _ none none => True
  | .lit _ ty (some l) => if l == "" then (match ty with | some t => IsWord t.print.toList | none => True)
      else ∀ c ∈ l.toList, (c.isAlphanum || c == '-') = true
  | _ => True

theorem isWord_lit (w : String) (h : w.toList.all isWordChar = true) (h0 : w.toList ≠ [])
    (h1 : ∀ c ∈ w.toList.head?, c ≠ '%' ∧ c ≠ '@') : IsWord w.toList :=
  ⟨h0, fun c hc => by simpa using (List.all_eq_true.mp h) c hc, h1⟩

/-- **C06, lexing a value**: the printer's text for any attribute value, followed by `,` or `]`, is tokenised into exactly
    the value's `literal` tokens; the lexer then continues with what follows -/
theorem c06_value_lex (v : Value) (hp : Printable v) (n : Nat) (rest : List Char) (hr : AfterValue rest) :
    lex (n + litSteps v) ((provnValue v).toList ++ rest) = (lex n rest).map (litToks v ++ ·) := by
  have hew := afterValue_endsWord hr
  have hnq := afterValue_noQuote hr
  have wdt : IsWord ("xsd:dateTime" : String).toList := isWord_lit _ (by decide) (by decide) (by decide)
  have wdb : IsWord ("xsd:double" : String).toList := isWord_lit _ (by decide) (by decide) (by decide)
  have wbo : IsWord ("xsd:boolean" : String).toList := isWord_lit _ (by decide) (by decide) (by decide)
  have wur : IsWord ("xsd:anyURI" : String).toList := isWord_lit _ (by decide) (by decide) (by decide)
  have wno : IsWord ("None" : String).toList := isWord_lit _ (by decide) (by decide) (by decide)
  have sfx : (" %% " : String).toList = [' ', '%', '%', ' '] := rfl
  -- `"text" %% ty`
  have typed : ∀ (body : List Char) (tok : String) (ty : String), IsWord ty.toList →
      (∀ m r, (∀ c ∈ r.head?, c ≠ '"') → lex (m + 1) (body ++ r) = (lex m r).map (Tok.str tok :: ·)) →
      lex (n + 5) (body ++ (' ' :: '%' :: '%' :: ' ' :: (ty.toList ++ rest))) =
        (lex n rest).map ([Tok.str tok, Tok.pct2, Tok.word ty] ++ ·) := by
    intro body tok ty hty hbody
    rw [show n + 5 = (n + 4) + 1 from rfl, hbody (n + 4) _ (by simp), lex_typed_suffix n ty.toList rest hty hew]
    cases lex n rest <;> simp
  cases v with
  | str s => simpa [provnValue, litSteps, litToks] using lex_quote n s rest hnq
  | int k =>
    have := lex_word n (toString k).toList rest (int_isWord k) hew
    simpa [provnValue, litSteps, litToks] using this
  | qn q =>
    have := lex_qnlit n q.print.toList rest hp
    simpa [provnValue, litSteps, litToks, String.toList_append] using this
  | dt t =>
    have := typed ('"' :: (t.iso.toList ++ ['"'])) t.iso "xsd:dateTime" wdt (fun m r hq => by
      have := lex_bare m t.iso r hp hq
      simpa using this)
    simpa [provnValue, litSteps, litToks, String.toList_append] using this
  | float f =>
    have := typed ('"' :: (f.repr.toList ++ ['"'])) f.repr "xsd:double" wdb (fun m r hq => by
      have := lex_bare m f.repr r hp hq
      simpa using this)
    simpa [provnValue, litSteps, litToks, String.toList_append] using this
  | uri u =>
    have := typed ('"' :: (u.toList ++ ['"'])) u "xsd:anyURI" wur (fun m r hq => by
      have := lex_bare m u r hp hq
      simpa using this)
    simpa [provnValue, litSteps, litToks, String.toList_append] using this
  | bool b =>
    have := typed ('"' :: ((if b then "1" else "0" : String).toList ++ ['"'])) (if b then "1" else "0") "xsd:boolean" wbo (fun m r hq => by
      have := lex_bare m (if b then "1" else "0") r (by cases b <;> exact ⟨by decide, by decide, by decide, by decide⟩) hq
      simpa using this)
    cases b <;> simpa [provnValue, litSteps, litToks, String.toList_append] using this
  | lit s ty lang =>
    cases lang with
    | none =>
      cases ty with
      | none =>
        have := typed (provnQuote s).toList s "None" wno (fun m r hq => lex_quote m s r hq)
        simpa [provnValue, litSteps, litToks, String.toList_append] using this
      | some t =>
        have := typed (provnQuote s).toList s t.print hp (fun m r hq => lex_quote m s r hq)
        simpa [provnValue, litSteps, litToks, String.toList_append] using this
    | some l =>
      by_cases hl : (l == "") = true
      · cases ty with
        | none =>
          have := typed (provnQuote s).toList s "None" wno (fun m r hq => lex_quote m s r hq)
          simpa [provnValue, litSteps, litToks, String.toList_append, hl] using this
        | some t =>
          have hw : IsWord t.print.toList := by simpa [Printable, hl] using hp
          have := typed (provnQuote s).toList s t.print hw (fun m r hq => lex_quote m s r hq)
          simpa [provnValue, litSteps, litToks, String.toList_append, hl] using this
      · have hl0 : (l == "") = false := by simpa using hl
        have htag : ∀ c ∈ l.toList, (c.isAlphanum || c == '-') = true := by
          cases ty <;> simpa [Printable, hl0] using hp
        have h1 := lex_quote (n + 1) s ('@' :: (l.toList ++ rest)) (by simp)
        have h2 := lex_lang n l.toList rest htag (afterValue_noTag hr)
        simp only [provnValue, hl0, Bool.false_eq_true, if_false, litSteps, litToks, String.toList_append]
        have hat : ("@" : String).toList = ['@'] := rfl
        rw [hat]
        simp only [List.append_assoc, List.cons_append, List.nil_append]
        rw [show n + 2 = (n + 1) + 1 from rfl, h1, h2]
        cases lex n rest <;> simp

/-! ### … and the tokens are parsed into the value -/

/-- the reading scope resolves the printer's fixed datatype names as the grammar's reader expects -/
structure StdScopeN (sc : Scope) : Prop where
  double : sc.resolve "xsd:double" = some (xsdNs ++ "double")
  dateTime : sc.resolve "xsd:dateTime" = some (xsdNs ++ "dateTime")
  anyURI : sc.resolve "xsd:anyURI" = some (xsdNs ++ "anyURI")
  boolean : sc.resolve "xsd:boolean" = some (xsdNs ++ "boolean")

/-- names resolve to what they denote; literals that stay literals have a datatype without a conversion; a float's text
    is in the table of float texts (A-LEX) -/
def ParseReadable (sc : Scope) (hints : List (String × FloatAtom)) : Value → Prop
  | .qn q => sc.resolve q.print = some q.uri
  | .lit _ (some t) none => sc.resolve t.print = some t.uri ∧ C10.ForeignType t.uri
  | .lit _ none none => False
  | .lit _ ty (some l) => l ≠ "" ∧ ty.map QName.uri = some (provNs ++ "InternationalizedString")
  | .dt t => ValidDT t
  | .float f => ∃ h, hints.find? (fun h => h.1 == f.repr) = some h ∧ h.2.repr = f.repr
  | _ => True

/-- **C06, parsing a value**: the `literal` production reads the value's tokens as the value -/
theorem c06_value_parse (sc : Scope) (std : StdScopeN sc) (hints : List (String × FloatAtom)) (v : Value)
    (hr : ParseReadable sc hints v) (more : List Tok) (hmore : ∃ ts, more = Tok.comma :: ts ∨ more = Tok.rb :: ts) :
    pLiteral sc hints (litToks v ++ more) = some (C10.absValue v, more) := by
  have l1 : "1".toLower = "1" := by decide +kernel
  have l0 : "0".toLower = "0" := by decide +kernel
  have t1 : (xsdNs ++ "dateTime" == xsdNs ++ "string") = false := by decide
  have t2 : (xsdNs ++ "dateTime" == xsdNs ++ "anyURI") = false := by decide
  have d1 : (xsdNs ++ "double" == xsdNs ++ "string") = false := by decide
  have d2 : (xsdNs ++ "double" == xsdNs ++ "anyURI") = false := by decide
  have d3 : (xsdNs ++ "double" == xsdNs ++ "dateTime") = false := by decide
  have b1 : (xsdNs ++ "boolean" == xsdNs ++ "string") = false := by decide
  have b2 : (xsdNs ++ "boolean" == xsdNs ++ "anyURI") = false := by decide
  have b3 : (xsdNs ++ "boolean" == xsdNs ++ "dateTime") = false := by decide
  have b4 : (xsdNs ++ "boolean" == xsdNs ++ "double") = false := by decide
  have u1 : (xsdNs ++ "anyURI" == xsdNs ++ "string") = false := by decide
  cases v with
  | str s =>
    obtain ⟨ts, h | h⟩ := hmore <;> subst h <;> simp [litToks, pLiteral, C10.absValue]
  | int k =>
    have : (toString k).toInt? = some k := Int.toInt?_repr k
    simp [litToks, pLiteral, C10.absValue, this]
  | qn q =>
    have hq : sc.resolve q.print = some q.uri := hr
    simp [litToks, pLiteral, C10.absValue, hq]
  | dt t =>
    have hp : (parseIso t.iso).isSome = true := by rw [parseIso_iso t hr]; rfl
    simp [litToks, pLiteral, typedLit, std.dateTime, t1, t2, hp, C10.absValue]
  | float f =>
    obtain ⟨h, hf, hrepr⟩ := hr
    simp [litToks, pLiteral, typedLit, std.double, d1, d2, d3, hf, hrepr, C10.absValue]
  | uri u => simp [litToks, pLiteral, typedLit, std.anyURI, u1, C10.absValue]
  | bool b =>
    cases b
    · simp [litToks, pLiteral, typedLit, std.boolean, b1, b2, b3, b4, C10.absValue, l0]
    · simp [litToks, pLiteral, typedLit, std.boolean, b1, b2, b3, b4, C10.absValue, l1]
  | lit s ty lang =>
    cases lang with
    | some l =>
      have hr' : l ≠ "" ∧ ty.map QName.uri = some (provNs ++ "InternationalizedString") := by
        cases ty <;> simpa [ParseReadable] using hr
      obtain ⟨hl, hty⟩ := hr'
      have hl' : (l == "") = false := by simpa using hl
      simp [litToks, hl', pLiteral, C10.absValue, hty]
    | none =>
      cases ty with
      | none => exact absurd hr (by simp [ParseReadable])
      | some t =>
        have hr' : sc.resolve t.print = some t.uri ∧ C10.ForeignType t.uri := by simpa [ParseReadable] using hr
        obtain ⟨hres, f1, f2, f3, f4, f5, f6, f7, f8⟩ := hr'
        simp [litToks, pLiteral, typedLit, hres, f1, f3, f4, f5, f6, f7, f8, C10.absValue]

/-! ### the attribute list `[a=v, …]` -/

theorem lex_eq (n : Nat) (cs : List Char) : lex (n + 1) ('=' :: cs) = (lex n cs).map (Tok.eq :: ·) := by
  simp [lex_succ, lexBody]

theorem lex_comma (n : Nat) (cs : List Char) : lex (n + 1) (',' :: cs) = (lex n cs).map (Tok.comma :: ·) := by
  simp [lex_succ, lexBody]

theorem lex_rb (n : Nat) (cs : List Char) : lex (n + 1) (']' :: cs) = (lex n cs).map (Tok.rb :: ·) := by
  simp [lex_succ, lexBody]

theorem lex_lb (n : Nat) (cs : List Char) : lex (n + 1) ('[' :: cs) = (lex n cs).map (Tok.lb :: ·) := by
  simp [lex_succ, lexBody]

/-- one `name=value` item followed by `,` or `]` -/
theorem lex_item (a : QName) (v : Value) (ha : IsWord a.print.toList) (hp : Printable v) (n : Nat) (rest : List Char)
    (hr : AfterValue rest) :
    lex (n + litSteps v + 2) ((a.print ++ "=" ++ provnValue v).toList ++ rest) =
      (lex n rest).map (fun ts => Tok.word a.print :: Tok.eq :: (litToks v ++ ts)) := by
  have heq : ("=" : String).toList = ['='] := rfl
  simp only [String.toList_append, heq, List.append_assoc, List.cons_append, List.nil_append]
  rw [show n + litSteps v + 2 = (n + litSteps v + 1) + 1 from rfl,
    lex_word _ a.print.toList _ ha (by intro c hc; simp at hc; subst hc; decide),
    lex_eq, c06_value_lex v hp n rest hr]
  cases lex n rest <;> simp

/-- the items of an attribute list after the opening bracket, up to and including the closing one -/
def itemsText : List (QName × Value) → String
  | [] => "]"
  | [p] => p.1.print ++ "=" ++ provnValue p.2 ++ "]"
  | p :: q :: l => p.1.print ++ "=" ++ provnValue p.2 ++ ", " ++ itemsText (q :: l)

def itemsToks : List (QName × Value) → List Tok
  | [] => [.rb]
  | [p] => Tok.word p.1.print :: Tok.eq :: (litToks p.2 ++ [.rb])
  | p :: q :: l => Tok.word p.1.print :: Tok.eq :: (litToks p.2 ++ Tok.comma :: itemsToks (q :: l))

def itemsSteps : List (QName × Value) → Nat
  | [] => 1
  | [p] => litSteps p.2 + 3
  | p :: q :: l => litSteps p.2 + 4 + itemsSteps (q :: l)

/-- **C06, lexing an attribute list**: the items the printer writes between `[` and `]` are tokenised into name, `=`,
    the value's tokens and the separators, item by item -/
theorem c06_items_lex : ∀ (l : List (QName × Value)), (∀ p ∈ l, IsWord p.1.print.toList ∧ Printable p.2) →
    ∀ (n : Nat) (rest : List Char),
      lex (n + itemsSteps l) ((itemsText l).toList ++ rest) = (lex n rest).map (itemsToks l ++ ·)
  | [], _, n, rest => by
    have : ("]" : String).toList = [']'] := rfl
    simp only [itemsText, itemsSteps, itemsToks, this, List.cons_append, List.nil_append]
    rw [lex_rb]
  | [p], h, n, rest => by
    obtain ⟨ha, hp⟩ := h p List.mem_cons_self
    have hb : ("]" : String).toList = [']'] := rfl
    simp only [itemsText, itemsSteps, itemsToks]
    rw [String.toList_append, hb, List.append_assoc, List.cons_append, List.nil_append,
      show n + (litSteps p.2 + 3) = (n + 1) + litSteps p.2 + 2 by omega,
      lex_item p.1 p.2 ha hp (n + 1) (']' :: rest) ⟨rest, Or.inr rfl⟩, lex_rb]
    cases lex n rest <;> simp
  | p :: q :: l, h, n, rest => by
    obtain ⟨ha, hp⟩ := h p List.mem_cons_self
    have ih := c06_items_lex (q :: l) (fun x hx => h x (List.mem_cons_of_mem _ hx)) n rest
    have hs : (", " : String).toList = [',', ' '] := rfl
    simp only [itemsText, itemsSteps, itemsToks]
    rw [String.toList_append, String.toList_append, hs, List.append_assoc, List.append_assoc, List.cons_append,
      List.cons_append, List.nil_append,
      show n + (litSteps p.2 + 4 + itemsSteps (q :: l)) = ((n + itemsSteps (q :: l)) + 2) + litSteps p.2 + 2 by omega,
      lex_item p.1 p.2 ha hp _ (',' :: ' ' :: ((itemsText (q :: l)).toList ++ rest)) ⟨_, Or.inl rfl⟩,
      show (n + itemsSteps (q :: l)) + 2 = ((n + itemsSteps (q :: l)) + 1) + 1 from rfl, lex_comma, lex_space, ih]
    cases lex n rest <;> simp

/-- **C06, parsing an attribute list**: the item tokens are parsed into the (attribute URI, value) pairs, in order -/
theorem c06_items_parse (sc : Scope) (std : StdScopeN sc) (hints : List (String × FloatAtom)) :
    ∀ (l : List (QName × Value)) (fuel : Nat), l.length < fuel →
      (∀ p ∈ l, sc.resolve p.1.print = some p.1.uri ∧ ParseReadable sc hints p.2) →
      ∀ more, pAttrs sc hints fuel (itemsToks l ++ more) = some (l.map (fun p => (p.1.uri, C10.absValue p.2)), more)
  | [], fuel, hf, _, more => by
    cases fuel with
    | zero => cases hf
    | succ n => simp [itemsToks, pAttrs]
  | [p], fuel, hf, h, more => by
    obtain ⟨hres, hpr⟩ := h p List.mem_cons_self
    cases fuel with
    | zero => cases hf
    | succ n =>
      have hv := c06_value_parse sc std hints p.2 hpr (Tok.rb :: more) ⟨more, Or.inr rfl⟩
      simp only [itemsToks, List.cons_append, List.append_assoc, List.nil_append, pAttrs, hres, hv]
      simp
  | p :: q :: l, fuel, hf, h, more => by
    obtain ⟨hres, hpr⟩ := h p List.mem_cons_self
    cases fuel with
    | zero => cases hf
    | succ n =>
      have ih := c06_items_parse sc std hints (q :: l) n (by simp at hf ⊢; omega)
        (fun x hx => h x (List.mem_cons_of_mem _ hx)) more
      have hv := c06_value_parse sc std hints p.2 hpr (Tok.comma :: (itemsToks (q :: l) ++ more)) ⟨_, Or.inl rfl⟩
      simp only [itemsToks, List.cons_append, List.append_assoc, pAttrs, hres, hv, ih]
      simp

/-! ### a whole element expression: `entity(id, [a=v, …])`, `agent(id, …)` -/

theorem lex_lp (n : Nat) (cs : List Char) : lex (n + 1) ('(' :: cs) = (lex n cs).map (Tok.lp :: ·) := by
  simp [lex_succ, lexBody]

theorem lex_rp (n : Nat) (cs : List Char) : lex (n + 1) (')' :: cs) = (lex n cs).map (Tok.rp :: ·) := by
  simp [lex_succ, lexBody]

theorem itemsText_eq : ∀ (l : List (QName × Value)), l ≠ [] →
    joinWith ", " (l.map (fun p => p.1.print ++ "=" ++ provnValue p.2)) ++ "]" = itemsText l
  | [], h => absurd rfl h
  | [p], _ => by simp [joinWith, itemsText]
  | p :: q :: l, _ => by
    have ih := itemsText_eq (q :: l) (by simp)
    simp only [List.map_cons, joinWith, itemsText] at ih ⊢
    rw [← ih]
    simp [String.append_assoc]

/-- the text of an element expression without positional arguments, given its keyword, identifier and attribute pairs -/
def elemText (kw : String) (q : QName) (pairs : List (QName × Value)) : String :=
  if pairs.isEmpty then kw ++ "(" ++ q.print ++ ")"
  else kw ++ "(" ++ q.print ++ ", [" ++ itemsText pairs ++ ")"

def elemToks (kw : String) (q : QName) (pairs : List (QName × Value)) : List Tok :=
  Tok.word kw :: Tok.lp :: Tok.word q.print ::
    (if pairs.isEmpty then [Tok.rp] else Tok.comma :: Tok.lb :: (itemsToks pairs ++ [Tok.rp]))

def elemSteps (pairs : List (QName × Value)) : Nat :=
  if pairs.isEmpty then 4 else 7 + itemsSteps pairs

/-- **C06, lexing an element expression** -/
theorem c06_elem_lex (kw : String) (hkw : IsWord kw.toList) (q : QName) (hq : IsWord q.print.toList)
    (pairs : List (QName × Value)) (hp : ∀ p ∈ pairs, IsWord p.1.print.toList ∧ Printable p.2) (n : Nat) (rest : List Char) :
    lex (n + elemSteps pairs) ((elemText kw q pairs).toList ++ rest) = (lex n rest).map (elemToks kw q pairs ++ ·) := by
  have hl : ("(" : String).toList = ['('] := rfl
  have hr : (")" : String).toList = [')'] := rfl
  have hcb : (", [" : String).toList = [',', ' ', '['] := rfl
  by_cases he : pairs.isEmpty = true
  · simp only [elemText, elemToks, elemSteps, he, if_true, String.toList_append, hl, hr, List.append_assoc, List.cons_append,
      List.nil_append]
    rw [show n + 4 = (n + 3) + 1 from rfl, lex_word _ kw.toList _ hkw (by intro c hc; simp at hc; subst hc; decide),
      show n + 3 = (n + 2) + 1 from rfl, lex_lp,
      show n + 2 = (n + 1) + 1 from rfl, lex_word _ q.print.toList _ hq (by intro c hc; simp at hc; subst hc; decide), lex_rp]
    cases lex n rest <;> simp
  · have he0 : pairs.isEmpty = false := by simpa using he
    have hit := c06_items_lex pairs hp (n + 1) (')' :: rest)
    simp only [elemText, elemToks, elemSteps, he0, Bool.false_eq_true, if_false, String.toList_append, hl, hr, hcb,
      List.append_assoc, List.cons_append, List.nil_append]
    rw [show n + (7 + itemsSteps pairs) = ((n + 1 + itemsSteps pairs) + 5) + 1 by omega,
      lex_word _ kw.toList _ hkw (by intro c hc; simp at hc; subst hc; decide),
      show (n + 1 + itemsSteps pairs) + 5 = ((n + 1 + itemsSteps pairs) + 4) + 1 from rfl, lex_lp,
      show (n + 1 + itemsSteps pairs) + 4 = ((n + 1 + itemsSteps pairs) + 3) + 1 from rfl,
      lex_word _ q.print.toList _ hq (by intro c hc; simp at hc; subst hc; decide),
      show (n + 1 + itemsSteps pairs) + 3 = ((n + 1 + itemsSteps pairs) + 2) + 1 from rfl, lex_comma,
      show (n + 1 + itemsSteps pairs) + 2 = ((n + 1 + itemsSteps pairs) + 1) + 1 from rfl, lex_space, lex_lb, hit, lex_rp]
    cases lex n rest <;> simp

/-- **C06, parsing an element expression**: `entity(...)` / `agent(...)` tokens are parsed into the element with its
    identifier URI and exactly its (attribute URI, value) pairs, in order -/
theorem c06_elem_parse (sc : Scope) (std : StdScopeN sc) (hints : List (String × FloatAtom)) (isEntity : Bool) (q : QName)
    (hq : sc.resolve q.print = some q.uri) (pairs : List (QName × Value)) (fuel : Nat) (hf : pairs.length < fuel)
    (hp : ∀ p ∈ pairs, sc.resolve p.1.print = some p.1.uri ∧ ParseReadable sc hints p.2) (more : List Tok) :
    pExpr sc hints fuel (elemToks (if isEntity then "entity" else "agent") q pairs ++ more) =
      some (⟨if isEntity then "Entity" else "Agent", some q.uri, pairs.map (fun p => (p.1.uri, C10.absValue p.2))⟩, more) := by
  have hname : ((if isEntity then "entity" else "agent" : String) == "entity" ||
      (if isEntity then "entity" else "agent" : String) == "agent") = true := by cases isEntity <;> decide
  have hkind : ((if isEntity then "entity" else "agent" : String) == "entity") = isEntity := by cases isEntity <;> decide
  by_cases he : pairs.isEmpty = true
  · have hnil : pairs = [] := by simpa using he
    subst hnil
    simp only [elemToks, List.isEmpty_nil, if_true, List.cons_append, List.nil_append, pExpr, hname, hq, pTail, hkind]
    cases isEntity <;> simp
  · have he0 : pairs.isEmpty = false := by simpa using he
    have hit := c06_items_parse sc std hints pairs fuel hf hp (Tok.rp :: more)
    simp only [elemToks, he0, Bool.false_eq_true, if_false, List.cons_append, List.append_assoc, List.nil_append, pExpr, hname,
      hq, pTail, hit, hkind]
    cases isEntity <;> simp

/-- the printer's text of an entity or agent record is that element text -/
theorem provnRecord_elem (r : Record) (hk : r.kind = .entity ∨ r.kind = .agent) (q : QName) (hid : r.id = some q) :
    provnRecord r = elemText r.kind.provN q r.flat := by
  have hform : r.kind.formals = [] := by rcases hk with h | h <;> rw [h] <;> rfl
  have helem : r.kind.isElement = true := by rcases hk with h | h <;> rw [h] <;> rfl
  have hnf : ∀ a : QName, isFormalOf r.kind a = false := by
    intro a; simp [isFormalOf, hform, inProvSet]
  have hextras : provnExtras r = r.flat.map (fun p => p.1.print ++ "=" ++ provnValue p.2) := by
    unfold provnExtras
    have : r.attrs.filter (fun p => !isFormalOf r.kind p.1) = r.attrs := by
      apply List.filter_eq_self.mpr
      intro p _; simp [hnf]
    rw [this]
    simp [Record.flat, List.map_flatMap, List.map_map]
    rfl
  have hidi : provnIdItems r = ([q.print], "") := by simp [provnIdItems, hid, helem]
  have hfo : provnFormals r = [] := by simp [provnFormals, hform]
  unfold provnRecord
  simp only [hidi, hfo, hextras, List.append_nil]
  unfold elemText
  by_cases he : r.flat.isEmpty = true
  · have : r.flat = [] := by simpa using he
    simp [this, joinWith]
  · have he0 : r.flat.isEmpty = false := by simpa using he
    have hne : r.flat ≠ [] := by simpa using he
    have hme : (r.flat.map (fun p => p.1.print ++ "=" ++ provnValue p.2)).isEmpty = false := by simpa using hne
    simp only [hme, he0, Bool.false_eq_true, if_false, List.cons_append, List.nil_append, joinWith]
    rw [← itemsText_eq r.flat hne]
    simp only [String.append_assoc]
    have hcat : ∀ X : String, ", " ++ ("[" ++ X) = ", [" ++ X := fun X => by
      rw [← String.append_assoc]
      have : (", " : String) ++ "[" = ", [" := by decide +kernel
      rw [this]
    simp [hcat]

/-- **C06 for an element record, from characters to content**: the text `get_provn()` prints for an entity or agent —
    any identifier, any number of attributes, every value kind, every string — is tokenised by the grammar's lexer and
    parsed by its `entity`/`agent` production into that element: same identifier URI, exactly its (attribute URI, value)
    pairs in order. Hypotheses: names are words and resolve in the reading scope to what they denote (C03 (c)); texts printed
    unescaped have nothing to escape (`Printable`); floats' texts are in the float table (A-LEX). -/
theorem c06_element (sc : Scope) (std : StdScopeN sc) (hints : List (String × FloatAtom)) (r : Record) (isEntity : Bool)
    (hk : r.kind = if isEntity then .entity else .agent) (q : QName) (hid : r.id = some q)
    (hqw : IsWord q.print.toList) (hqr : sc.resolve q.print = some q.uri)
    (hp : ∀ p ∈ r.flat, IsWord p.1.print.toList ∧ Printable p.2 ∧ sc.resolve p.1.print = some p.1.uri ∧ ParseReadable sc hints p.2)
    (n : Nat) (rest : List Char) (more : List Tok) :
    lex (n + elemSteps r.flat) ((provnRecord r).toList ++ rest) =
      (lex n rest).map (elemToks (if isEntity then "entity" else "agent") q r.flat ++ ·) ∧
    pExpr sc hints (r.flat.length + 1) (elemToks (if isEntity then "entity" else "agent") q r.flat ++ more) =
      some (⟨if isEntity then "Entity" else "Agent", some q.uri, r.flat.map (fun p => (p.1.uri, C10.absValue p.2))⟩, more) := by
  have hk' : r.kind = .entity ∨ r.kind = .agent := by cases isEntity <;> simp [hk]
  have hkw : r.kind.provN = (if isEntity then "entity" else "agent") := by cases isEntity <;> simp [hk] <;> rfl
  have hkww : IsWord (if isEntity then "entity" else "agent" : String).toList := by
    cases isEntity
    · exact isWord_lit _ (by decide) (by decide) (by decide)
    · exact isWord_lit _ (by decide) (by decide) (by decide)
  constructor
  · rw [provnRecord_elem r hk' q hid, hkw]
    exact c06_elem_lex _ hkww q hqw r.flat (fun p hp' => ⟨(hp p hp').1, (hp p hp').2.1⟩) n rest
  · exact c06_elem_parse sc std hints isEntity q hqr r.flat _ (Nat.lt_succ_self _)
      (fun p hp' => ⟨(hp p hp').2.2.1, (hp p hp').2.2.2⟩) more

/-! ### non-vacuity -/

def rEnt : Record := ⟨.entity, some (C09.exQ "e"),
  [(C09.exQ "k", [.int 1, .str "a \"q\"\nline"]),
   (provQ "label", [.lit "étiquette" (some (provQ "InternationalizedString")) (some "fr")]),
   (C09.exQ "t", [.lit "abc" (some (C09.exQ "T")) none])]⟩

theorem scEx_stdN : StdScopeN C10.scEx := ⟨by decide, by decide, by decide, by decide⟩

theorem rEnt_ok : ∀ p ∈ rEnt.flat, IsWord p.1.print.toList ∧ Printable p.2 ∧ C10.scEx.resolve p.1.print = some p.1.uri ∧
    ParseReadable C10.scEx [] p.2 := by
  intro p hp
  have hp' : p ∈ [(C09.exQ "k", Value.int 1), (C09.exQ "k", .str "a \"q\"\nline"),
      (provQ "label", .lit "étiquette" (some (provQ "InternationalizedString")) (some "fr")),
      (C09.exQ "t", .lit "abc" (some (C09.exQ "T")) none)] := by simpa [rEnt, Record.flat] using hp
  simp only [List.mem_cons, List.mem_nil_iff, or_false] at hp'
  rcases hp' with rfl | rfl | rfl | rfl
  · exact ⟨isWord_lit _ (by decide) (by decide) (by decide), trivial, by decide +kernel, trivial⟩
  · exact ⟨isWord_lit _ (by decide) (by decide) (by decide), trivial, by decide +kernel, trivial⟩
  · refine ⟨isWord_lit _ (by decide) (by decide) (by decide), ?_, by decide +kernel, by decide, by decide +kernel⟩
    show ∀ c ∈ ("fr" : String).toList, (c.isAlphanum || c == '-') = true
    decide
  · exact ⟨isWord_lit _ (by decide) (by decide) (by decide), isWord_lit _ (by decide) (by decide) (by decide), by decide +kernel,
      by decide +kernel, by decide +kernel, by decide +kernel, by decide +kernel, by decide +kernel, by decide +kernel,
      by decide +kernel, by decide +kernel, by decide +kernel⟩

/-- the hypotheses of `c06_element` hold for a concrete entity with an integer, a string with quotes and a line break, a
    language-tagged label and a literal of a foreign datatype -/
example (n : Nat) (rest : List Char) (more : List Tok) :=
  c06_element C10.scEx scEx_stdN [] rEnt true rfl (C09.exQ "e") rfl (isWord_lit _ (by decide) (by decide) (by decide))
    (by decide +kernel) rEnt_ok n rest more

/-! ### positional arguments: words separated by `, ` -/

def wordsToks : List String → List Tok
  | [] => []
  | [w] => [.word w]
  | w :: x :: l => Tok.word w :: Tok.comma :: wordsToks (x :: l)

def wordsSteps : List String → Nat
  | [] => 0
  | [_] => 1
  | _ :: x :: l => 3 + wordsSteps (x :: l)

/-- a non-empty list of words joined by `, `, followed by something that ends a word -/
theorem lex_words : ∀ (ws : List String), ws ≠ [] → (∀ w ∈ ws, IsWord w.toList) → ∀ (n : Nat) (rest : List Char), EndsWord rest →
    lex (n + wordsSteps ws) ((joinWith ", " ws).toList ++ rest) = (lex n rest).map (wordsToks ws ++ ·)
  | [], h, _, _, _, _ => absurd rfl h
  | [w], _, hw, n, rest, hr => by
    simp only [joinWith, wordsSteps, wordsToks]
    rw [lex_word n w.toList rest (hw w List.mem_cons_self) hr]
    cases lex n rest <;> simp
  | w :: x :: l, _, hw, n, rest, hr => by
    have ih := lex_words (x :: l) (by simp) (fun y hy => hw y (List.mem_cons_of_mem _ hy)) n rest hr
    have hs : (", " : String).toList = [',', ' '] := rfl
    simp only [joinWith, wordsSteps, wordsToks, String.toList_append, hs, List.append_assoc, List.cons_append, List.nil_append]
    rw [show n + (3 + wordsSteps (x :: l)) = ((n + wordsSteps (x :: l)) + 2) + 1 by omega,
      lex_word _ w.toList _ (hw w List.mem_cons_self) (by intro c hc; simp at hc; subst hc; decide),
      show (n + wordsSteps (x :: l)) + 2 = ((n + wordsSteps (x :: l)) + 1) + 1 from rfl, lex_comma, lex_space, ih]
    cases lex n rest <;> simp

theorem joinWith_snoc : ∀ (ws : List String) (b : String), ws ≠ [] → joinWith ", " (ws ++ [b]) = joinWith ", " ws ++ ", " ++ b
  | [], _, h => absurd rfl h
  | [w], b, _ => by simp [joinWith]
  | w :: x :: l, b, _ => by
    have ih := joinWith_snoc (x :: l) b (by simp)
    simp only [List.cons_append, joinWith] at ih ⊢
    rw [ih]
    simp [String.append_assoc]

/-- a positional slot: the production's (attribute, optional?) and the value the record holds there -/
abbrev Slot := (String × Bool) × Option Value

def slotWord (s : Slot) : String := match s.2 with | some v => provnFormal v | none => "-"

/-- the slot can be printed and read: a missing value only where the marker is allowed, times in time positions, names
    that resolve elsewhere -/
def SlotOk (sc : Scope) (s : Slot) : Prop :=
  match s.2 with
  | none => s.1.2 = true
  | some (.dt t) => timeArgs.contains s.1.1 = true ∧ t.iso ≠ "-"
  | some (.qn q) => timeArgs.contains s.1.1 = false ∧ sc.resolve q.print = some q.uri ∧ q.print ≠ "-"
  | _ => False

def slotAbs (s : Slot) : List (String × AVal) :=
  match s.2 with
  | some v => [(provNs ++ s.1.1, C10.absValue v)]
  | none => []

def commaToks (ws : List String) : List Tok := ws.flatMap (fun w => [Tok.comma, Tok.word w])

theorem wordsToks_cons (w : String) (l : List String) : wordsToks (w :: l) = Tok.word w :: commaToks l := by
  induction l generalizing w with
  | nil => rfl
  | cons x l ih => simp [wordsToks, commaToks, ih x, List.flatMap_cons]

/-- one slot, once its word is at the front (`first`: no comma before it) -/
theorem argWord_slot (sc : Scope) (s : Slot) (hs : SlotOk sc s) (k : Option (List (String × AVal) × List Tok)) :
    argWord sc s.1.1 s.1.2 (slotWord s) k = k.map (fun r => (slotAbs s ++ r.1, r.2)) := by
  obtain ⟨⟨a, opt⟩, val⟩ := s
  cases val with
  | none =>
    have hopt : opt = true := hs
    simp [argWord, slotWord, hopt, slotAbs]
  | some v =>
    cases v with
    | dt t =>
      obtain ⟨h1, h2⟩ := hs
      have hne : (t.iso == "-") = false := by simpa using h2
      have h1' : a ∈ timeArgs := by simpa using h1
      simp [argWord, slotWord, provnFormal, hne, h1', slotAbs, C10.absValue]
    | qn q =>
      obtain ⟨h1, h2, h3⟩ := hs
      have hne : (q.print == "-") = false := by simpa using h3
      have h1' : a ∉ timeArgs := by simpa using h1
      simp [argWord, slotWord, provnFormal, hne, h1', h2, slotAbs, C10.absValue]
    | _ => exact absurd hs (by simp [SlotOk])

theorem pArgs_step (sc : Scope) (s : Slot) (hs : SlotOk sc s) (more : List (String × Bool)) (first : Bool) (ts' : List Tok) :
    pArgs sc (s.1 :: more) first (if first then Tok.word (slotWord s) :: ts' else Tok.comma :: Tok.word (slotWord s) :: ts') =
      (pArgs sc more false ts').map (fun r => (slotAbs s ++ r.1, r.2)) := by
  have hsk : skipComma first (if first then Tok.word (slotWord s) :: ts' else Tok.comma :: Tok.word (slotWord s) :: ts') =
      some (Tok.word (slotWord s) :: ts') := by cases first <;> rfl
  show (match skipComma first _ with
    | some (.word w :: rest) => argWord sc s.1.1 s.1.2 w (pArgs sc more false rest)
    | _ => none) = _
  rw [hsk]
  exact argWord_slot sc s hs _

/-- **positional arguments**: after the first, each slot's word preceded by a comma -/
theorem pArgs_rest (sc : Scope) : ∀ (slots : List Slot), (∀ s ∈ slots, SlotOk sc s) → ∀ more,
    pArgs sc (slots.map (·.1)) false (commaToks (slots.map slotWord) ++ more) = some (slots.flatMap slotAbs, more)
  | [], _, more => by simp [pArgs, commaToks]
  | s :: rest, h, more => by
    have ih := pArgs_rest sc rest (fun x hx => h x (List.mem_cons_of_mem _ hx)) more
    have hstep := pArgs_step sc s (h s List.mem_cons_self) (rest.map (·.1)) false (commaToks (rest.map slotWord) ++ more)
    simp only [Bool.false_eq_true, if_false] at hstep
    have htoks : commaToks ((s :: rest).map slotWord) ++ more =
        Tok.comma :: Tok.word (slotWord s) :: (commaToks (rest.map slotWord) ++ more) := by
      simp [commaToks, List.flatMap_cons]
    rw [List.map_cons, htoks, hstep, ih]
    simp

theorem pArgs_all (sc : Scope) (s : Slot) (rest : List Slot) (h : ∀ x ∈ s :: rest, SlotOk sc x) (more : List Tok) :
    pArgs sc ((s :: rest).map (·.1)) true (wordsToks ((s :: rest).map slotWord) ++ more) =
      some ((s :: rest).flatMap slotAbs, more) := by
  have hstep := pArgs_step sc s (h s List.mem_cons_self) (rest.map (·.1)) true (commaToks (rest.map slotWord) ++ more)
  simp only [if_true] at hstep
  simp only [List.map_cons, wordsToks_cons, List.cons_append]
  rw [hstep, pArgs_rest sc rest (fun x hx => h x (List.mem_cons_of_mem _ hx)) more]
  simp

/-! ### a whole relation expression: `name(id; a1, a2, …, [k=v, …])` -/

theorem lex_semi (n : Nat) (cs : List Char) : lex (n + 1) (';' :: cs) = (lex n cs).map (Tok.semi :: ·) := by
  simp [lex_succ, lexBody]

def idText : Option QName → String
  | some q => q.print ++ "; "
  | none => ""

def idToks : Option QName → List Tok
  | some q => [.word q.print, .semi]
  | none => []

def idSteps : Option QName → Nat
  | some _ => 3
  | none => 0

def tailText (pairs : List (QName × Value)) : String :=
  if pairs.isEmpty then ")" else ", [" ++ itemsText pairs ++ ")"

def tailToks (pairs : List (QName × Value)) : List Tok :=
  if pairs.isEmpty then [.rp] else Tok.comma :: Tok.lb :: (itemsToks pairs ++ [.rp])

def tailSteps (pairs : List (QName × Value)) : Nat :=
  if pairs.isEmpty then 1 else 4 + itemsSteps pairs

/-- `)` or `, [items])` -/
theorem lex_tail (pairs : List (QName × Value)) (hp : ∀ p ∈ pairs, IsWord p.1.print.toList ∧ Printable p.2) (n : Nat)
    (rest : List Char) :
    lex (n + tailSteps pairs) ((tailText pairs).toList ++ rest) = (lex n rest).map (tailToks pairs ++ ·) := by
  have hr : (")" : String).toList = [')'] := rfl
  have hcb : (", [" : String).toList = [',', ' ', '['] := rfl
  by_cases he : pairs.isEmpty = true
  · simp only [tailText, tailToks, tailSteps, he, if_true, hr, List.cons_append, List.nil_append]
    rw [lex_rp]
  · have he0 : pairs.isEmpty = false := by simpa using he
    have hit := c06_items_lex pairs hp (n + 1) (')' :: rest)
    simp only [tailText, tailToks, tailSteps, he0, Bool.false_eq_true, if_false, String.toList_append, hr, hcb,
      List.append_assoc, List.cons_append, List.nil_append]
    rw [show n + (4 + itemsSteps pairs) = ((n + 1 + itemsSteps pairs) + 2) + 1 by omega, lex_comma,
      show (n + 1 + itemsSteps pairs) + 2 = ((n + 1 + itemsSteps pairs) + 1) + 1 from rfl, lex_space, lex_lb, hit, lex_rp]
    cases lex n rest <;> simp

theorem tailText_head (pairs : List (QName × Value)) (rest : List Char) : EndsWord ((tailText pairs).toList ++ rest) := by
  unfold tailText
  split
  · intro c hc
    have : (")" : String).toList = [')'] := rfl
    simp [this] at hc; subst hc; decide
  · intro c hc
    have : (", [" : String).toList = [',', ' ', '['] := rfl
    simp [String.toList_append, this] at hc; subst hc; decide

def relText (kw : String) (id : Option QName) (words : List String) (pairs : List (QName × Value)) : String :=
  kw ++ "(" ++ idText id ++ joinWith ", " words ++ tailText pairs

def relToks (kw : String) (id : Option QName) (words : List String) (pairs : List (QName × Value)) : List Tok :=
  Tok.word kw :: Tok.lp :: (idToks id ++ (wordsToks words ++ tailToks pairs))

def relSteps (id : Option QName) (words : List String) (pairs : List (QName × Value)) : Nat :=
  2 + idSteps id + wordsSteps words + tailSteps pairs

/-- **C06, lexing a relation expression** -/
theorem c06_rel_lex (kw : String) (hkw : IsWord kw.toList) (id : Option QName) (hid : ∀ q ∈ id, IsWord q.print.toList)
    (words : List String) (hne : words ≠ []) (hw : ∀ w ∈ words, IsWord w.toList)
    (pairs : List (QName × Value)) (hp : ∀ p ∈ pairs, IsWord p.1.print.toList ∧ Printable p.2) (n : Nat) (rest : List Char) :
    lex (n + relSteps id words pairs) ((relText kw id words pairs).toList ++ rest) =
      (lex n rest).map (relToks kw id words pairs ++ ·) := by
  have hl : ("(" : String).toList = ['('] := rfl
  have hsc : ("; " : String).toList = [';', ' '] := rfl
  have htl := lex_tail pairs hp n rest
  have hws := lex_words words hne hw (n + tailSteps pairs) ((tailText pairs).toList ++ rest) (tailText_head pairs rest)
  simp only [relText, relToks, relSteps, String.toList_append, hl, List.append_assoc, List.cons_append, List.nil_append]
  cases id with
  | none =>
    have he : ("" : String).toList = [] := rfl
    simp only [idText, idToks, idSteps, he, List.nil_append]
    rw [show n + (2 + 0 + wordsSteps words + tailSteps pairs) = ((n + tailSteps pairs + wordsSteps words) + 1) + 1 by omega,
      lex_word _ kw.toList _ hkw (by intro c hc; simp at hc; subst hc; decide), lex_lp, hws, htl]
    cases lex n rest <;> simp
  | some q =>
    have hq := hid q rfl
    simp only [idText, idToks, idSteps, String.toList_append, hsc, List.append_assoc, List.cons_append, List.nil_append]
    rw [show n + (2 + 3 + wordsSteps words + tailSteps pairs) = ((n + tailSteps pairs + wordsSteps words) + 4) + 1 by omega,
      lex_word _ kw.toList _ hkw (by intro c hc; simp at hc; subst hc; decide),
      show (n + tailSteps pairs + wordsSteps words) + 4 = ((n + tailSteps pairs + wordsSteps words) + 3) + 1 from rfl, lex_lp,
      show (n + tailSteps pairs + wordsSteps words) + 3 = ((n + tailSteps pairs + wordsSteps words) + 2) + 1 from rfl,
      lex_word _ q.print.toList _ hq (by intro c hc; simp at hc; subst hc; decide),
      show (n + tailSteps pairs + wordsSteps words) + 2 = ((n + tailSteps pairs + wordsSteps words) + 1) + 1 from rfl,
      lex_semi, lex_space, hws, htl]
    cases lex n rest <;> simp

/-- `)` or `, [items])` as the production's tail -/
theorem pTail_tail (sc : Scope) (std : StdScopeN sc) (hints : List (String × FloatAtom)) (pairs : List (QName × Value))
    (fuel : Nat) (hf : pairs.length < fuel) (allow : Bool) (hallow : pairs = [] ∨ allow = true)
    (hp : ∀ p ∈ pairs, sc.resolve p.1.print = some p.1.uri ∧ ParseReadable sc hints p.2) (more : List Tok) :
    pTail sc hints fuel allow (tailToks pairs ++ more) = some (pairs.map (fun p => (p.1.uri, C10.absValue p.2)), more) := by
  by_cases he : pairs.isEmpty = true
  · have hnil : pairs = [] := by simpa using he
    subst hnil
    simp [tailToks, pTail]
  · have he0 : pairs.isEmpty = false := by simpa using he
    have ha : allow = true := by
      rcases hallow with h | h
      · rw [h] at he0; simp at he0
      · exact h
    have hit := c06_items_parse sc std hints pairs fuel hf hp (Tok.rp :: more)
    simp [tailToks, he0, pTail, ha, hit]

/-- **C06, parsing a relation expression**: the tokens are parsed, by the production the grammar has for that name, into the
    relation with its identifier URI (if any), its positional arguments under their PROV attribute URIs, and its attribute
    pairs — all of them, in order, nothing else -/
theorem c06_rel_parse (sc : Scope) (std : StdScopeN sc) (hints : List (String × FloatAtom)) (name : String) (pr : Prod)
    (hprod : prods.find? (fun p => p.1 == name) = some (name, pr))
    (hnot : (name == "entity" || name == "agent") = false ∧ (name == "activity") = false)
    (id : Option QName) (hid : ∀ q ∈ id, sc.resolve q.print = some q.uri ∧ q.print ≠ "-" ∧ pr.hasIdAttrs = true)
    (s : Slot) (slots : List Slot) (hargs : (s :: slots).map (·.1) = pr.args) (hs : ∀ x ∈ s :: slots, SlotOk sc x)
    (pairs : List (QName × Value)) (hpa : pairs = [] ∨ pr.hasIdAttrs = true)
    (fuel : Nat) (hf : pairs.length < fuel)
    (hp : ∀ p ∈ pairs, sc.resolve p.1.print = some p.1.uri ∧ ParseReadable sc hints p.2) (more : List Tok) :
    pExpr sc hints fuel (relToks name id ((s :: slots).map slotWord) pairs ++ more) =
      some (⟨pr.kind, id.map QName.uri, (s :: slots).flatMap slotAbs ++ pairs.map (fun p => (p.1.uri, C10.absValue p.2))⟩, more) := by
  have hargsP := pArgs_all sc s slots hs (tailToks pairs ++ more)
  rw [hargs] at hargsP
  have htail := pTail_tail sc std hints pairs fuel hf pr.hasIdAttrs hpa hp more
  cases id with
  | none =>
    -- no identifier: the first token after `(` is the first argument's word, followed by a comma or the tail (never `;`)
    have hid0 : pOptId sc pr.hasIdAttrs (wordsToks ((s :: slots).map slotWord) ++ (tailToks pairs ++ more)) =
        (some none, wordsToks ((s :: slots).map slotWord) ++ (tailToks pairs ++ more)) := by
      rw [List.map_cons, wordsToks_cons]
      cases slots with
      | nil =>
        simp only [List.map_nil, commaToks, List.flatMap_nil, List.nil_append, List.cons_append, tailToks]
        split <;> rfl
      | cons x xs => simp [commaToks, List.flatMap_cons, pOptId]
    simp only [relToks, idToks, List.nil_append, List.cons_append, List.append_assoc, pExpr, hnot.1, hnot.2, Bool.false_eq_true,
      if_false, hprod, hid0, hargsP, htail, Option.map_none, Option.map_some]
  | some q =>
    obtain ⟨hq, hqm, hhas⟩ := hid q rfl
    have hqm' : (q.print == "-") = false := by simpa using hqm
    simp only [relToks, idToks, List.cons_append, List.nil_append, List.append_assoc, pExpr, hnot.1, hnot.2, Bool.false_eq_true,
      if_false, hprod, pOptId, hhas, Bool.not_true, hqm', hq, Option.map_some, hargsP]
    rw [hhas] at htail
    simp [htail]

/-- the (attribute, value) pairs a relation prints in its bracket: everything that is not a positional argument -/
def recPairs (r : Record) : List (QName × Value) :=
  (r.attrs.filter (fun p => !isFormalOf r.kind p.1)).flatMap (fun p => p.2.map (fun v => (p.1, v)))

/-- the printer's text of a relation record is that relation text -/
theorem provnRecord_rel (r : Record) (hk : r.kind.isElement = false) (hf : r.kind.formals ≠ []) :
    provnRecord r = relText r.kind.provN r.id (provnFormals r) (recPairs r) := by
  have hextras : provnExtras r = (recPairs r).map (fun p => p.1.print ++ "=" ++ provnValue p.2) := by
    simp [provnExtras, recPairs, List.map_flatMap, List.map_map]
    rfl
  have hwne : provnFormals r ≠ [] := by simpa [provnFormals] using hf
  have hidi : provnIdItems r = ([], idText r.id) := by
    unfold provnIdItems
    cases r.id <;> simp [hk, idText]
  unfold provnRecord
  simp only [hidi, hextras, List.nil_append]
  unfold relText tailText
  by_cases he : (recPairs r).isEmpty = true
  · have hnil : recPairs r = [] := by simpa using he
    simp [hnil, String.append_assoc]
  · have he0 : (recPairs r).isEmpty = false := by simpa using he
    have hne : recPairs r ≠ [] := by simpa using he
    have hme : ((recPairs r).map (fun p => p.1.print ++ "=" ++ provnValue p.2)).isEmpty = false := by simpa using hne
    simp only [hme, he0, Bool.false_eq_true, if_false]
    rw [joinWith_snoc (provnFormals r) _ hwne, ← itemsText_eq (recPairs r) hne]
    simp only [String.append_assoc]
    have hcat : ∀ X : String, ", " ++ ("[" ++ X) = ", [" ++ X := fun X => by
      rw [← String.append_assoc]
      have : (", " : String) ++ "[" = ", [" := by decide +kernel
      rw [this]
    simp [hcat]

/-- the slots of a relation record under its production -/
def recSlots (pr : Prod) (r : Record) : List Slot := pr.args.map (fun a => (a, (r.get (formalQ a.1)).head?))

theorem recSlots_words (pr : Prod) (r : Record) (hf : pr.args.map (·.1) = r.kind.formals) :
    (recSlots pr r).map slotWord = provnFormals r := by
  unfold provnFormals
  rw [← hf]
  simp only [recSlots, List.map_map]
  apply List.map_congr_left
  intro a _
  cases hv : (r.get (formalQ a.1)).head? <;> simp [slotWord, hv]

theorem recSlots_args (pr : Prod) (r : Record) : (recSlots pr r).map (·.1) = pr.args := by
  simp only [recSlots, List.map_map]
  conv => rhs; rw [← List.map_id pr.args]
  apply List.map_congr_left
  intro a _
  rfl

/-- **C06 for a relation record, from characters to content**: the text `get_provn()` prints for a relation — optional
    identifier, positional arguments with `-` markers, times, any number of attributes — is tokenised by the grammar's lexer
    and parsed by the production the grammar has for that relation into that relation: identifier URI, each present
    positional argument under its PROV attribute URI, each (attribute URI, value) pair, in order, nothing else.
    Hypotheses: the production is the one for this record kind (table theorem `t6_provn_productions`); the record fits it
    (`SlotOk`: a missing value only where the marker is allowed, times in time positions, names that resolve); identifier and
    attributes only where the production takes them (the known finding C06-2 is exactly the failure of this hypothesis);
    names are words and resolve as meant; unescaped texts have nothing to escape; float texts are in the float table. -/
theorem c06_relation (sc : Scope) (std : StdScopeN sc) (hints : List (String × FloatAtom)) (r : Record) (pr : Prod)
    (hk : r.kind.isElement = false)
    (hprod : prods.find? (fun p => p.1 == r.kind.provN) = some (r.kind.provN, pr))
    (hnot : (r.kind.provN == "entity" || r.kind.provN == "agent") = false ∧ (r.kind.provN == "activity") = false)
    (hkw : IsWord r.kind.provN.toList)
    (hf : pr.args.map (·.1) = r.kind.formals) (hne : pr.args ≠ [])
    (hid : ∀ q ∈ r.id, IsWord q.print.toList ∧ sc.resolve q.print = some q.uri ∧ q.print ≠ "-" ∧ pr.hasIdAttrs = true)
    (hslots : ∀ x ∈ recSlots pr r, SlotOk sc x ∧ IsWord (slotWord x).toList)
    (hpa : recPairs r = [] ∨ pr.hasIdAttrs = true)
    (hp : ∀ p ∈ recPairs r, IsWord p.1.print.toList ∧ Printable p.2 ∧ sc.resolve p.1.print = some p.1.uri ∧ ParseReadable sc hints p.2)
    (n : Nat) (rest : List Char) (more : List Tok) :
    lex (n + relSteps r.id (provnFormals r) (recPairs r)) ((provnRecord r).toList ++ rest) =
      (lex n rest).map (relToks r.kind.provN r.id (provnFormals r) (recPairs r) ++ ·) ∧
    pExpr sc hints ((recPairs r).length + 1) (relToks r.kind.provN r.id (provnFormals r) (recPairs r) ++ more) =
      some (⟨pr.kind, r.id.map QName.uri,
        (recSlots pr r).flatMap slotAbs ++ (recPairs r).map (fun p => (p.1.uri, C10.absValue p.2))⟩, more) := by
  have hformals : r.kind.formals ≠ [] := by rw [← hf]; simpa using hne
  have hwords := recSlots_words pr r hf
  constructor
  · rw [provnRecord_rel r hk hformals]
    refine c06_rel_lex _ hkw r.id (fun q hq => (hid q hq).1) (provnFormals r) (by simpa [provnFormals] using hformals) ?_
      (recPairs r) (fun p hp' => ⟨(hp p hp').1, (hp p hp').2.1⟩) n rest
    intro w hw
    rw [← hwords] at hw
    obtain ⟨x, hx, rfl⟩ := List.mem_map.mp hw
    exact (hslots x hx).2
  · cases hsl : recSlots pr r with
    | nil =>
      have := congrArg List.length (recSlots_args pr r)
      rw [hsl] at this
      simp at this
      exact absurd (List.length_eq_zero_iff.mp this.symm) hne
    | cons s slots =>
      have hargs : (s :: slots).map (·.1) = pr.args := by rw [← hsl]; exact recSlots_args pr r
      have hw' : (s :: slots).map slotWord = provnFormals r := by rw [← hsl]; exact hwords
      rw [← hw']
      exact c06_rel_parse sc std hints r.kind.provN pr hprod hnot r.id
        (fun q hq => ⟨(hid q hq).2.1, (hid q hq).2.2.1, (hid q hq).2.2.2⟩) s slots hargs
        (fun x hx => (hslots x (by rw [hsl]; exact hx)).1) (recPairs r) hpa _ (Nat.lt_succ_self _)
        (fun p hp' => ⟨(hp p hp').2.2.1, (hp p hp').2.2.2⟩) more

/-! ### non-vacuity for relations: `wasGeneratedBy(ex:g; ex:e, ex:a, -, [ex:k=1, ex:k="abc" %% ex:T, prov:label="étiquette"@fr])` -/

def prGen : Prod := ⟨"Generation", [("entity", false), ("activity", true), ("time", true)], true⟩

theorem rcEx_pairs : recPairs C09.rcEx = [(C09.exQ "k", Value.int 1), (C09.exQ "k", .lit "abc" (some (C09.exQ "T")) none),
    (provQ "label", .lit "étiquette" (some (provQ "InternationalizedString")) (some "fr"))] := by decide +kernel

theorem rcEx_slots : recSlots prGen C09.rcEx = [(("entity", false), some (.qn (C09.exQ "e"))), (("activity", true), some (.qn (C09.exQ "a"))),
    (("time", true), none)] := by decide +kernel

example (n : Nat) (rest : List Char) (more : List Tok) :=
  c06_relation C10.scEx scEx_stdN [] C09.rcEx prGen rfl (by decide +kernel) ⟨by decide, by decide⟩
    (isWord_lit _ (by decide) (by decide) (by decide)) (by decide) (by decide)
    (fun q hq => by
      have : q = C09.exQ "g" := by simpa [C09.rcEx] using hq.symm
      subst this
      exact ⟨isWord_lit _ (by decide) (by decide) (by decide), by decide +kernel, by decide, rfl⟩)
    (fun x hx => by
      rw [rcEx_slots] at hx
      simp only [List.mem_cons, List.mem_nil_iff, or_false] at hx
      rcases hx with rfl | rfl | rfl
      · exact ⟨⟨by decide, by decide +kernel, by decide⟩, isWord_lit _ (by decide) (by decide) (by decide)⟩
      · exact ⟨⟨by decide, by decide +kernel, by decide⟩, isWord_lit _ (by decide) (by decide) (by decide)⟩
      · exact ⟨rfl, isWord_lit _ (by decide) (by decide) (by decide)⟩)
    (Or.inr rfl)
    (fun p hp => by
      rw [rcEx_pairs] at hp
      simp only [List.mem_cons, List.mem_nil_iff, or_false] at hp
      rcases hp with rfl | rfl | rfl
      · exact ⟨isWord_lit _ (by decide) (by decide) (by decide), trivial, by decide +kernel, trivial⟩
      · exact ⟨isWord_lit _ (by decide) (by decide) (by decide), isWord_lit _ (by decide) (by decide) (by decide), by decide +kernel,
          by decide +kernel, by decide +kernel, by decide +kernel, by decide +kernel, by decide +kernel, by decide +kernel,
          by decide +kernel, by decide +kernel, by decide +kernel⟩
      · refine ⟨isWord_lit _ (by decide) (by decide) (by decide), ?_, by decide +kernel, by decide, by decide +kernel⟩
        show ∀ c ∈ ("fr" : String).toList, (c.isAlphanum || c == '-') = true
        decide)
    n rest more

/-! ### `activity(id, start, end, [k=v, …])` -/

def actText (q : QName) (s e : String) (pairs : List (QName × Value)) : String :=
  "activity" ++ "(" ++ joinWith ", " [q.print, s, e] ++ tailText pairs

def actToks (q : QName) (s e : String) (pairs : List (QName × Value)) : List Tok :=
  Tok.word "activity" :: Tok.lp :: (wordsToks [q.print, s, e] ++ tailToks pairs)

theorem c06_act_lex (q : QName) (hq : IsWord q.print.toList) (s e : String) (hs : IsWord s.toList) (he : IsWord e.toList)
    (pairs : List (QName × Value)) (hp : ∀ p ∈ pairs, IsWord p.1.print.toList ∧ Printable p.2) (n : Nat) (rest : List Char) :
    lex (n + (2 + wordsSteps [q.print, s, e] + tailSteps pairs)) ((actText q s e pairs).toList ++ rest) =
      (lex n rest).map (actToks q s e pairs ++ ·) := by
  have hl : ("(" : String).toList = ['('] := rfl
  have hkw : IsWord ("activity" : String).toList := isWord_lit _ (by decide) (by decide) (by decide)
  have htl := lex_tail pairs hp n rest
  have hws := lex_words [q.print, s, e] (by simp) (by
    intro w hw
    simp only [List.mem_cons, List.mem_nil_iff, or_false] at hw
    rcases hw with rfl | rfl | rfl <;> assumption) (n + tailSteps pairs) ((tailText pairs).toList ++ rest) (tailText_head pairs rest)
  simp only [actText, actToks, String.toList_append, hl, List.append_assoc, List.cons_append, List.nil_append]
  rw [show n + (2 + wordsSteps [q.print, s, e] + tailSteps pairs) = ((n + tailSteps pairs + wordsSteps [q.print, s, e]) + 1) + 1 by omega,
    lex_word _ ("activity" : String).toList _ hkw (by intro c hc; simp at hc; subst hc; decide), lex_lp, hws, htl]
  cases lex n rest <;> simp

/-- the time slot of an activity: the marker or a valid date-time's text -/
def timeWord : Option Value → String
  | some v => provnFormal v
  | none => "-"

def TimeOk : Option Value → Prop
  | none => True
  | some (.dt t) => t.iso ≠ "-"
  | _ => False

def timeAbs (a : String) : Option Value → List (String × AVal)
  | some v => [(provNs ++ a, C10.absValue v)]
  | none => []

theorem timeAbs_word (a : String) (v : Option Value) (h : TimeOk v) :
    (if timeWord v == "-" then [] else [(provNs ++ a, AVal.dt (timeWord v))]) = timeAbs a v := by
  cases v with
  | none => rfl
  | some x =>
    cases x with
    | dt t =>
      have h' : t.iso ≠ "-" := h
      have hne : (t.iso == "-") = false := by simpa using h'
      simp [timeWord, provnFormal, hne, timeAbs, C10.absValue]
    | _ => exact absurd h (by simp [TimeOk])

theorem c06_act_parse (sc : Scope) (std : StdScopeN sc) (hints : List (String × FloatAtom)) (q : QName)
    (hq : sc.resolve q.print = some q.uri) (st en : Option Value) (hst : TimeOk st) (hen : TimeOk en)
    (pairs : List (QName × Value)) (fuel : Nat) (hf : pairs.length < fuel)
    (hp : ∀ p ∈ pairs, sc.resolve p.1.print = some p.1.uri ∧ ParseReadable sc hints p.2) (more : List Tok) :
    pExpr sc hints fuel (actToks q (timeWord st) (timeWord en) pairs ++ more) =
      some (⟨"Activity", some q.uri, timeAbs "startTime" st ++ timeAbs "endTime" en ++
        pairs.map (fun p => (p.1.uri, C10.absValue p.2))⟩, more) := by
  have htail := pTail_tail sc std hints pairs fuel hf true (Or.inr rfl) hp more
  have h1 := timeAbs_word "startTime" st hst
  have h2 := timeAbs_word "endTime" en hen
  simp only [actToks, wordsToks, List.cons_append, List.nil_append, List.append_assoc, pExpr,
    show (("activity" : String) == "entity" || ("activity" : String) == "agent") = false by decide,
    show (("activity" : String) == "activity") = true by decide, Bool.false_eq_true, if_false, if_true, hq, htail, Option.map_some]
  rw [h1, h2]

/-- the printer's text of an activity record -/
theorem provnRecord_act (r : Record) (hk : r.kind = .activity) (q : QName) (hid : r.id = some q) :
    provnRecord r = actText q (timeWord (r.get (formalQ "startTime")).head?) (timeWord (r.get (formalQ "endTime")).head?) (recPairs r) := by
  have hextras : provnExtras r = (recPairs r).map (fun p => p.1.print ++ "=" ++ provnValue p.2) := by
    simp [provnExtras, recPairs, List.map_flatMap, List.map_map]
    rfl
  have hidi : provnIdItems r = ([q.print], "") := by simp [provnIdItems, hid, hk, RecKind.isElement]
  have hfo : provnFormals r = [timeWord (r.get (formalQ "startTime")).head?, timeWord (r.get (formalQ "endTime")).head?] := by
    simp only [provnFormals, hk]
    show [_, _] = _
    simp only [timeWord]
    rfl
  unfold provnRecord
  simp only [hidi, hfo, hextras, hk]
  unfold actText tailText
  have hpn : RecKind.activity.provN = "activity" := rfl
  rw [hpn]
  by_cases he : (recPairs r).isEmpty = true
  · have hnil : recPairs r = [] := by simpa using he
    simp [hnil, String.append_assoc]
  · have he0 : (recPairs r).isEmpty = false := by simpa using he
    have hne : recPairs r ≠ [] := by simpa using he
    have hme : ((recPairs r).map (fun p => p.1.print ++ "=" ++ provnValue p.2)).isEmpty = false := by simpa using hne
    simp only [hme, he0, Bool.false_eq_true, if_false, List.cons_append, List.nil_append]
    have := joinWith_snoc [q.print, timeWord (r.get (formalQ "startTime")).head?, timeWord (r.get (formalQ "endTime")).head?]
      ("[" ++ joinWith ", " ((recPairs r).map (fun p => p.1.print ++ "=" ++ provnValue p.2)) ++ "]") (by simp)
    simp only [List.cons_append, List.nil_append] at this
    rw [this, ← itemsText_eq (recPairs r) hne]
    simp only [String.append_assoc]
    have hcat : ∀ X : String, ", " ++ ("[" ++ X) = ", [" ++ X := fun X => by
      rw [← String.append_assoc]
      have : (", " : String) ++ "[" = ", [" := by decide +kernel
      rw [this]
    simp [hcat]

/-- **C06 for an activity record, from characters to content** -/
theorem c06_activity (sc : Scope) (std : StdScopeN sc) (hints : List (String × FloatAtom)) (r : Record)
    (hk : r.kind = .activity) (q : QName) (hid : r.id = some q)
    (hqw : IsWord q.print.toList) (hqr : sc.resolve q.print = some q.uri)
    (hst : TimeOk (r.get (formalQ "startTime")).head? ∧ IsWord (timeWord (r.get (formalQ "startTime")).head?).toList)
    (hen : TimeOk (r.get (formalQ "endTime")).head? ∧ IsWord (timeWord (r.get (formalQ "endTime")).head?).toList)
    (hp : ∀ p ∈ recPairs r, IsWord p.1.print.toList ∧ Printable p.2 ∧ sc.resolve p.1.print = some p.1.uri ∧ ParseReadable sc hints p.2)
    (n : Nat) (rest : List Char) (more : List Tok) :
    ∃ steps toks, lex (n + steps) ((provnRecord r).toList ++ rest) = (lex n rest).map (toks ++ ·) ∧
      pExpr sc hints ((recPairs r).length + 1) (toks ++ more) =
        some (⟨"Activity", some q.uri, timeAbs "startTime" (r.get (formalQ "startTime")).head? ++
          timeAbs "endTime" (r.get (formalQ "endTime")).head? ++ (recPairs r).map (fun p => (p.1.uri, C10.absValue p.2))⟩, more) := by
  refine ⟨2 + wordsSteps [q.print, timeWord (r.get (formalQ "startTime")).head?, timeWord (r.get (formalQ "endTime")).head?] +
      tailSteps (recPairs r),
    actToks q (timeWord (r.get (formalQ "startTime")).head?) (timeWord (r.get (formalQ "endTime")).head?) (recPairs r), ?_, ?_⟩
  · rw [provnRecord_act r hk q hid]
    exact c06_act_lex q hqw _ _ hst.2 hen.2 (recPairs r) (fun p hp' => ⟨(hp p hp').1, (hp p hp').2.1⟩) n rest
  · exact c06_act_parse sc std hints q hqr _ _ hst.1 hen.1 (recPairs r) _ (Nat.lt_succ_self _)
      (fun p hp' => ⟨(hp p hp').2.2.1, (hp p hp').2.2.2⟩) more

end Prov.C06

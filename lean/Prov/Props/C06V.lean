/-
  C06, attribute values at character level: the text the printer emits for an attribute value is tokenised by the
  grammar's lexer into exactly the tokens of the `literal` production, and those tokens are parsed into the value it
  denotes — for every value kind, every string, whatever follows (as long as what follows cannot be glued to the last
  token). The lexer lemmas are stated with explicit fuel: `k` more fuel for the value's `k` lexer steps.
-/
import Prov.Props.C06
import Prov.Props.C10R

namespace Prov.C06
open Prov Prov.ProvNSpec Prov.JsonSpec

/-! ### single lexer steps -/

theorem lex_succ (n : Nat) (cs : List Char) : lex (n + 1) cs = lexBody (lex n) cs := rfl

theorem lex_space (n : Nat) (cs : List Char) : lex (n + 1) (' ' :: cs) = lex n cs := by
  simp [lex_succ, lexBody]

theorem lex_pct2 (n : Nat) (cs : List Char) : lex (n + 1) ('%' :: '%' :: cs) = (lex n cs).map (Tok.pct2 :: ·) := by
  simp [lex_succ, lexBody]

/-- what may follow a word: nothing, or a character that is not a word character -/
def EndsWord (rest : List Char) : Prop := ∀ c ∈ rest.head?, isWordChar c = false

theorem takeWhile_word (w rest : List Char) (hw : ∀ c ∈ w, isWordChar c = true) (hr : EndsWord rest) :
    takeWhileC isWordChar (w ++ rest) = (w, rest) := by
  induction w with
  | nil =>
    cases rest with
    | nil => rfl
    | cons c cs =>
      have : isWordChar c = false := hr c (by simp)
      simp [takeWhileC, this]
  | cons c cs ih =>
    have hc : isWordChar c = true := hw c List.mem_cons_self
    simp only [List.cons_append, takeWhileC, hc, if_true]
    rw [ih (fun x hx => hw x (List.mem_cons_of_mem _ hx))]

/-- a word: its characters are word characters and it does not start with a character the lexer treats specially -/
structure IsWord (w : List Char) : Prop where
  nonempty : w ≠ []
  chars : ∀ c ∈ w, isWordChar c = true
  head : ∀ c ∈ w.head?, c ≠ '%' ∧ c ≠ '@'

theorem lex_word (n : Nat) (w rest : List Char) (hw : IsWord w) (hr : EndsWord rest) :
    lex (n + 1) (w ++ rest) = (lex n rest).map (Tok.word (String.ofList w) :: ·) := by
  cases w with
  | nil => exact absurd rfl hw.nonempty
  | cons c cs =>
    have hc : isWordChar c = true := hw.chars c List.mem_cons_self
    obtain ⟨h1, h2⟩ := hw.head c (by simp)
    have ne : ∀ d : Char, isWordChar d = false → c ≠ d := fun d hd e => by rw [e] at hc; rw [hd] at hc; cases hc
    have e1 := ne ' ' (by decide); have e2 := ne '\n' (by decide); have e3 := ne '\t' (by decide); have e4 := ne '\r' (by decide)
    have e5 := ne '(' (by decide); have e6 := ne ')' (by decide); have e7 := ne ',' (by decide); have e8 := ne ';' (by decide)
    have e9 := ne '[' (by decide); have e10 := ne ']' (by decide); have e11 := ne '=' (by decide); have e12 := ne '<' (by decide)
    have e13 := ne '\'' (by decide); have e14 := ne '"' (by decide)
    have htw := takeWhile_word (c :: cs) rest hw.chars hr
    simp only [List.cons_append] at htw ⊢
    simp [lex_succ, lexBody, e1, e2, e3, e4, e5, e6, e7, e8, e9, e10, e11, e12, e13, e14, h1, h2, hc, htw]

/-- the escaped text never starts with a bare quote -/
theorem escape_head (s : List Char) : ∀ c ∈ (provnEscape s).head?, c ≠ '"' := by
  cases s with
  | nil => simp [provnEscape]
  | cons c cs =>
    intro d hd
    simp only [provnEscape] at hd
    split at hd
    · simp at hd; subst hd; decide
    · split at hd
      · simp at hd; subst hd; decide
      · next h1 h2 =>
        simp at hd; subst hd
        simpa using h2

theorem lexString_short (k : List Char → Option (List Tok)) (cs : List Char) (h : ∀ r, cs ≠ '"' :: '"' :: r) :
    lexString k cs = (match lexShort cs [] with
      | some (s, r) => (k r).map (Tok.str (String.ofList s) :: ·)
      | none => none) := by
  unfold lexString
  split
  · next r => exact absurd rfl (h r)
  · rfl

theorem lexBody_quote (k : List Char → Option (List Tok)) (cs : List Char) : lexBody k ('"' :: cs) = lexString k cs := by
  simp [lexBody]

theorem lex_short (n : Nat) (s rest : List Char) (hn : '\n' ∉ s) (hr : '\r' ∉ s) (hq : ∀ c ∈ rest.head?, c ≠ '"') :
    lex (n + 1) ('"' :: (provnEscape s ++ '"' :: rest)) = (lex n rest).map (Tok.str (String.ofList s) :: ·) := by
  rw [lex_succ, lexBody_quote, lexString_short]
  · rw [lexShort_escape s rest [] hn hr]
    simp
  · intro r heq
    cases hs : provnEscape s with
    | nil =>
      rw [hs] at heq
      simp only [List.nil_append, List.cons.injEq, true_and] at heq
      cases rest with
      | nil => cases heq
      | cons d ds =>
        simp only [List.cons.injEq] at heq
        exact hq d (by simp) heq.1
    | cons c cs =>
      rw [hs] at heq
      simp only [List.cons_append, List.cons.injEq] at heq
      exact escape_head s c (by simp [hs]) heq.1

theorem lex_long (n : Nat) (s rest : List Char) :
    lex (n + 1) ('"' :: '"' :: '"' :: (provnEscape s ++ '"' :: '"' :: '"' :: rest)) =
      (lex n rest).map (Tok.str (String.ofList s) :: ·) := by
  rw [lex_succ, lexBody_quote]
  unfold lexString
  simp [lexLong_escape s rest []]

theorem takeWhile_upto (p : Char → Bool) (body rest : List Char) (hb : ∀ c ∈ body, p c = true)
    (hr : ∀ c ∈ rest.head?, p c = false) : takeWhileC p (body ++ rest) = (body, rest) := by
  induction body with
  | nil =>
    cases rest with
    | nil => rfl
    | cons c cs => simp [takeWhileC, hr c (by simp)]
  | cons c cs ih =>
    simp only [List.cons_append, takeWhileC, hb c List.mem_cons_self, if_true]
    rw [ih (fun x hx => hb x (List.mem_cons_of_mem _ hx))]

/-- `'name'` -/
theorem lex_qnlit (n : Nat) (body rest : List Char) (hb : '\'' ∉ body) :
    lex (n + 1) ('\'' :: (body ++ '\'' :: rest)) = (lex n rest).map (Tok.qnlit (String.ofList body) :: ·) := by
  have htw : takeWhileC (· != '\'') (body ++ '\'' :: rest) = (body, '\'' :: rest) :=
    takeWhile_upto _ body _ (fun c hc => by
      have : c ≠ '\'' := fun e => hb (e ▸ hc)
      simpa using this) (by simp)
  simp [lex_succ, lexBody, htw]

/-- `@tag` -/
theorem lex_lang (n : Nat) (tag rest : List Char) (ht : ∀ c ∈ tag, (c.isAlphanum || c == '-') = true)
    (hr : ∀ c ∈ rest.head?, (c.isAlphanum || c == '-') = false) :
    lex (n + 1) ('@' :: (tag ++ rest)) = (lex n rest).map (Tok.lang (String.ofList tag) :: ·) := by
  have htw := takeWhile_upto (fun x => x.isAlphanum || x == '-') tag rest ht hr
  simp [lex_succ, lexBody, htw]

/-! ### numbers are words -/

theorem int_chars (n : Int) : ∀ c ∈ (toString n).toList, c.isDigit = true ∨ c = '-' := by
  intro c hc
  cases n with
  | ofNat m =>
    have : (toString (Int.ofNat m)).toList = Nat.toDigits 10 m := by
      show (Nat.repr m).toList = _
      simp [Nat.repr]
    rw [this] at hc
    exact Or.inl (Nat.isDigit_of_mem_toDigits (by decide) (by decide) hc)
  | negSucc m =>
    have : (toString (Int.negSucc m)).toList = '-' :: Nat.toDigits 10 (m + 1) := by
      show ("-" ++ Nat.repr (m + 1)).toList = _
      simp [Nat.repr, String.toList_append]
    rw [this] at hc
    rcases List.mem_cons.mp hc with h | h
    · exact Or.inr h
    · exact Or.inl (Nat.isDigit_of_mem_toDigits (by decide) (by decide) h)

theorem digit_isWord (c : Char) (h : c.isDigit = true) : isWordChar c = true ∧ c ≠ '%' ∧ c ≠ '@' := by
  refine ⟨?_, fun e => by subst e; simp [Char.isDigit] at h, fun e => by subst e; simp [Char.isDigit] at h⟩
  have : c.isAlphanum = true := by simp [Char.isAlphanum, h]
  simp [isWordChar, this]

theorem int_isWord (n : Int) : IsWord (toString n).toList := by
  have hne : (toString n).toList ≠ [] := by
    cases n with
    | ofNat m =>
      show (Nat.repr m).toList ≠ []
      simp only [Nat.repr, String.toList_ofList]
      intro h
      have := Nat.toDigits_ne_nil (b := 10) (n := m)
      exact this h
    | negSucc m =>
      show ("-" ++ Nat.repr (m + 1)).toList ≠ []
      simp [String.toList_append]
  refine ⟨hne, fun c hc => ?_, fun c hc => ?_⟩
  · rcases int_chars n c hc with h | h
    · exact (digit_isWord c h).1
    · subst h; decide
  · have hmem : c ∈ (toString n).toList := List.mem_of_mem_head? hc
    rcases int_chars n c hmem with h | h
    · exact (digit_isWord c h).2
    · subst h; exact ⟨by decide, by decide⟩

/-! ### what follows a value in an attribute list -/

/-- the next character after an attribute value is `,` or `]` -/
def AfterValue (rest : List Char) : Prop := ∃ cs, rest = ',' :: cs ∨ rest = ']' :: cs

theorem afterValue_endsWord {rest : List Char} (h : AfterValue rest) : EndsWord rest := by
  obtain ⟨cs, h | h⟩ := h <;> subst h <;> intro c hc <;> simp at hc <;> subst hc <;> decide

theorem afterValue_noQuote {rest : List Char} (h : AfterValue rest) : ∀ c ∈ rest.head?, c ≠ '"' := by
  obtain ⟨cs, h | h⟩ := h <;> subst h <;> intro c hc <;> simp at hc <;> subst hc <;> decide

theorem afterValue_noTag {rest : List Char} (h : AfterValue rest) : ∀ c ∈ rest.head?, (c.isAlphanum || c == '-') = false := by
  obtain ⟨cs, h | h⟩ := h <;> subst h <;> intro c hc <;> simp at hc <;> subst hc <;> decide

/-- any string, quoted the way the printer quotes it, is one string token -/
theorem lex_quote (n : Nat) (s : String) (rest : List Char) (hq : ∀ c ∈ rest.head?, c ≠ '"') :
    lex (n + 1) ((provnQuote s).toList ++ rest) = (lex n rest).map (Tok.str s :: ·) := by
  unfold provnQuote
  simp only []
  by_cases hc : ((provnEscape s.toList).contains '\n' || (provnEscape s.toList).contains '\r') = true
  · simp only [hc, if_true, String.toList_append, String.toList_ofList, List.append_assoc]
    have : ("\"\"\"" : String).toList = ['"', '"', '"'] := rfl
    rw [this]
    simp only [List.cons_append, List.nil_append]
    have := lex_long n s.toList rest
    simpa using this
  · simp only [hc, Bool.false_eq_true, if_false, String.toList_append, String.toList_ofList, List.append_assoc]
    have h1 : ("\"" : String).toList = ['"'] := rfl
    rw [h1]
    simp only [List.cons_append, List.nil_append]
    have hcf : ((provnEscape s.toList).contains '\n' || (provnEscape s.toList).contains '\r') = false := by simpa using hc
    simp only [Bool.or_eq_false_iff, List.contains_eq_mem, decide_eq_false_iff_not] at hcf
    have hn : '\n' ∉ s.toList := fun h => hcf.1 ((escape_preserves_newlines s.toList '\n' ⟨by decide, by decide⟩).mpr h)
    have hr : '\r' ∉ s.toList := fun h => hcf.2 ((escape_preserves_newlines s.toList '\r' ⟨by decide, by decide⟩).mpr h)
    have := lex_short n s.toList rest hn hr hq
    simpa using this

/-- text without quote, backslash, LF, CR is its own escaped form -/
def NoSpecial (l : List Char) : Prop := '"' ∉ l ∧ '\\' ∉ l ∧ '\n' ∉ l ∧ '\r' ∉ l

theorem escape_id (l : List Char) (h : NoSpecial l) : provnEscape l = l := by
  induction l with
  | nil => rfl
  | cons c cs ih =>
    obtain ⟨h1, h2, h3, h4⟩ := h
    simp only [List.mem_cons, not_or] at h1 h2 h3 h4
    have e1 : (c == '\\') = false := by simpa using Ne.symm h2.1
    have e2 : (c == '"') = false := by simpa using Ne.symm h1.1
    simp only [provnEscape, e1, e2, Bool.false_eq_true, if_false]
    rw [ih ⟨h1.2, h2.2, h3.2, h4.2⟩]

/-- a bare `"text"` (as the printer writes date-times, floats, booleans and URIs) is one string token when the text has
    nothing to escape -/
theorem lex_bare (n : Nat) (t : String) (rest : List Char) (ht : NoSpecial t.toList) (hq : ∀ c ∈ rest.head?, c ≠ '"') :
    lex (n + 1) ('"' :: (t.toList ++ '"' :: rest)) = (lex n rest).map (Tok.str t :: ·) := by
  have := lex_short n t.toList rest ht.2.2.1 ht.2.2.2 hq
  rw [escape_id t.toList ht] at this
  simpa using this

/-- ` %% datatype` -/
theorem lex_typed_suffix (n : Nat) (ty rest : List Char) (hty : IsWord ty) (hr : EndsWord rest) :
    lex (n + 4) (' ' :: '%' :: '%' :: ' ' :: (ty ++ rest)) =
      (lex n rest).map (fun ts => Tok.pct2 :: Tok.word (String.ofList ty) :: ts) := by
  rw [show n + 4 = (n + 3) + 1 from rfl, lex_space, show n + 3 = (n + 2) + 1 from rfl, lex_pct2,
    show n + 2 = (n + 1) + 1 from rfl, lex_space, lex_word n ty rest hty hr]
  cases lex n rest <;> rfl

/-! ### every value -/

/-- the tokens of the `literal` production for a value -/
def litToks : Value → List Tok
  | .str s => [.str s]
  | .dt t => [.str t.iso, .pct2, .word "xsd:dateTime"]
  | .float f => [.str f.repr, .pct2, .word "xsd:double"]
  | .bool b => [.str (if b then "1" else "0"), .pct2, .word "xsd:boolean"]
  | .int n => [.word (toString n)]
  | .qn q => [.qnlit q.print]
  | .uri u => [.str u, .pct2, .word "xsd:anyURI"]
  | .lit v ty lang =>
    match lang with
    | some l => if l == "" then [.str v, .pct2, .word (match ty with | some t => t.print | none => "None")] else [.str v, .lang l]
    | none => [.str v, .pct2, .word (match ty with | some t => t.print | none => "None")]

/-- lexer steps the value's text takes -/
def litSteps : Value → Nat
  | .str _ => 1 | .int _ => 1 | .qn _ => 1
  | .lit _ _ (some l) => if l == "" then 5 else 2
  | _ => 5

/-- lexical side conditions: the texts written without escaping have nothing to escape, names are words -/
def Printable : Value → Prop
  | .dt t => NoSpecial t.iso.toList
  | .float f => NoSpecial f.repr.toList
  | .uri u => NoSpecial u.toList
  | .qn q => '\'' ∉ q.print.toList
  | .lit _ (some t) none => IsWord t.print.toList
  | .lit _ none none => True
  | .lit _ ty (some l) => if l == "" then (match ty with | some t => IsWord t.print.toList | none => True)
      else ∀ c ∈ l.toList, (c.isAlphanum || c == '-') = true
  | _ => True

theorem isWord_lit (w : String) (h : w.toList.all isWordChar = true) (h0 : w.toList ≠ [])
    (h1 : ∀ c ∈ w.toList.head?, c ≠ '%' ∧ c ≠ '@') : IsWord w.toList :=
  ⟨h0, fun c hc => by simpa using (List.all_eq_true.mp h) c hc, h1⟩

/-- **C06, lexing a value**: the printer's text for any attribute value, followed by `,` or `]`, is tokenised into exactly
    the value's `literal` tokens; the lexer then continues with what follows -/
theorem c06_value_lex (v : Value) (hp : Printable v) (n : Nat) (rest : List Char) (hr : AfterValue rest) :
    lex (n + litSteps v) ((provnValue v).toList ++ rest) = (lex n rest).map (litToks v ++ ·) := by
  have hew := afterValue_endsWord hr
  have hnq := afterValue_noQuote hr
  have wdt : IsWord ("xsd:dateTime" : String).toList := isWord_lit _ (by decide) (by decide) (by decide)
  have wdb : IsWord ("xsd:double" : String).toList := isWord_lit _ (by decide) (by decide) (by decide)
  have wbo : IsWord ("xsd:boolean" : String).toList := isWord_lit _ (by decide) (by decide) (by decide)
  have wur : IsWord ("xsd:anyURI" : String).toList := isWord_lit _ (by decide) (by decide) (by decide)
  have wno : IsWord ("None" : String).toList := isWord_lit _ (by decide) (by decide) (by decide)
  have sfx : (" %% " : String).toList = [' ', '%', '%', ' '] := rfl
  -- `"text" %% ty`
  have typed : ∀ (body : List Char) (tok : String) (ty : String), IsWord ty.toList →
      (∀ m r, (∀ c ∈ r.head?, c ≠ '"') → lex (m + 1) (body ++ r) = (lex m r).map (Tok.str tok :: ·)) →
      lex (n + 5) (body ++ (' ' :: '%' :: '%' :: ' ' :: (ty.toList ++ rest))) =
        (lex n rest).map ([Tok.str tok, Tok.pct2, Tok.word ty] ++ ·) := by
    intro body tok ty hty hbody
    rw [show n + 5 = (n + 4) + 1 from rfl, hbody (n + 4) _ (by simp), lex_typed_suffix n ty.toList rest hty hew]
    cases lex n rest <;> simp
  cases v with
  | str s => simpa [provnValue, litSteps, litToks] using lex_quote n s rest hnq
  | int k =>
    have := lex_word n (toString k).toList rest (int_isWord k) hew
    simpa [provnValue, litSteps, litToks] using this
  | qn q =>
    have := lex_qnlit n q.print.toList rest hp
    simpa [provnValue, litSteps, litToks, String.toList_append] using this
  | dt t =>
    have := typed ('"' :: (t.iso.toList ++ ['"'])) t.iso "xsd:dateTime" wdt (fun m r hq => by
      have := lex_bare m t.iso r hp hq
      simpa using this)
    simpa [provnValue, litSteps, litToks, String.toList_append] using this
  | float f =>
    have := typed ('"' :: (f.repr.toList ++ ['"'])) f.repr "xsd:double" wdb (fun m r hq => by
      have := lex_bare m f.repr r hp hq
      simpa using this)
    simpa [provnValue, litSteps, litToks, String.toList_append] using this
  | uri u =>
    have := typed ('"' :: (u.toList ++ ['"'])) u "xsd:anyURI" wur (fun m r hq => by
      have := lex_bare m u r hp hq
      simpa using this)
    simpa [provnValue, litSteps, litToks, String.toList_append] using this
  | bool b =>
    have := typed ('"' :: ((if b then "1" else "0" : String).toList ++ ['"'])) (if b then "1" else "0") "xsd:boolean" wbo (fun m r hq => by
      have := lex_bare m (if b then "1" else "0") r (by cases b <;> exact ⟨by decide, by decide, by decide, by decide⟩) hq
      simpa using this)
    cases b <;> simpa [provnValue, litSteps, litToks, String.toList_append] using this
  | lit s ty lang =>
    cases lang with
    | none =>
      cases ty with
      | none =>
        have := typed (provnQuote s).toList s "None" wno (fun m r hq => lex_quote m s r hq)
        simpa [provnValue, litSteps, litToks, String.toList_append] using this
      | some t =>
        have := typed (provnQuote s).toList s t.print hp (fun m r hq => lex_quote m s r hq)
        simpa [provnValue, litSteps, litToks, String.toList_append] using this
    | some l =>
      by_cases hl : (l == "") = true
      · cases ty with
        | none =>
          have := typed (provnQuote s).toList s "None" wno (fun m r hq => lex_quote m s r hq)
          simpa [provnValue, litSteps, litToks, String.toList_append, hl] using this
        | some t =>
          have hw : IsWord t.print.toList := by simpa [Printable, hl] using hp
          have := typed (provnQuote s).toList s t.print hw (fun m r hq => lex_quote m s r hq)
          simpa [provnValue, litSteps, litToks, String.toList_append, hl] using this
      · have hl0 : (l == "") = false := by simpa using hl
        have htag : ∀ c ∈ l.toList, (c.isAlphanum || c == '-') = true := by
          cases ty <;> simpa [Printable, hl0] using hp
        have h1 := lex_quote (n + 1) s ('@' :: (l.toList ++ rest)) (by simp)
        have h2 := lex_lang n l.toList rest htag (afterValue_noTag hr)
        simp only [provnValue, hl0, Bool.false_eq_true, if_false, litSteps, litToks, String.toList_append]
        have hat : ("@" : String).toList = ['@'] := rfl
        rw [hat]
        simp only [List.append_assoc, List.cons_append, List.nil_append]
        rw [show n + 2 = (n + 1) + 1 from rfl, h1, h2]
        cases lex n rest <;> simp

/-! ### … and the tokens are parsed into the value -/

/-- the reading scope resolves the printer's fixed datatype names as the grammar's reader expects -/
structure StdScopeN (sc : Scope) : Prop where
  double : sc.resolve "xsd:double" = some (xsdNs ++ "double")
  dateTime : sc.resolve "xsd:dateTime" = some (xsdNs ++ "dateTime")
  anyURI : sc.resolve "xsd:anyURI" = some (xsdNs ++ "anyURI")
  boolean : sc.resolve "xsd:boolean" = some (xsdNs ++ "boolean")

/-- names resolve to what they denote; literals that stay literals have a datatype without a conversion; a float's text
    is in the table of float texts (A-LEX) -/
def ParseReadable (sc : Scope) (hints : List (String × FloatAtom)) : Value → Prop
  | .qn q => sc.resolve q.print = some q.uri
  | .lit _ (some t) none => sc.resolve t.print = some t.uri ∧ C10.ForeignType t.uri
  | .lit _ none none => False
  | .lit _ ty (some l) => l ≠ "" ∧ ty.map QName.uri = some (provNs ++ "InternationalizedString")
  | .dt t => ValidDT t
  | .float f => ∃ h, hints.find? (fun h => h.1 == f.repr) = some h ∧ h.2.repr = f.repr
  | _ => True

/-- **C06, parsing a value**: the `literal` production reads the value's tokens as the value -/
theorem c06_value_parse (sc : Scope) (std : StdScopeN sc) (hints : List (String × FloatAtom)) (v : Value)
    (hr : ParseReadable sc hints v) (more : List Tok) (hmore : ∃ ts, more = Tok.comma :: ts ∨ more = Tok.rb :: ts) :
    pLiteral sc hints (litToks v ++ more) = some (C10.absValue v, more) := by
  have l1 : "1".toLower = "1" := by decide +kernel
  have l0 : "0".toLower = "0" := by decide +kernel
  have t1 : (xsdNs ++ "dateTime" == xsdNs ++ "string") = false := by decide
  have t2 : (xsdNs ++ "dateTime" == xsdNs ++ "anyURI") = false := by decide
  have d1 : (xsdNs ++ "double" == xsdNs ++ "string") = false := by decide
  have d2 : (xsdNs ++ "double" == xsdNs ++ "anyURI") = false := by decide
  have d3 : (xsdNs ++ "double" == xsdNs ++ "dateTime") = false := by decide
  have b1 : (xsdNs ++ "boolean" == xsdNs ++ "string") = false := by decide
  have b2 : (xsdNs ++ "boolean" == xsdNs ++ "anyURI") = false := by decide
  have b3 : (xsdNs ++ "boolean" == xsdNs ++ "dateTime") = false := by decide
  have b4 : (xsdNs ++ "boolean" == xsdNs ++ "double") = false := by decide
  have u1 : (xsdNs ++ "anyURI" == xsdNs ++ "string") = false := by decide
  cases v with
  | str s =>
    obtain ⟨ts, h | h⟩ := hmore <;> subst h <;> simp [litToks, pLiteral, C10.absValue]
  | int k =>
    have : (toString k).toInt? = some k := Int.toInt?_repr k
    simp [litToks, pLiteral, C10.absValue, this]
  | qn q =>
    have hq : sc.resolve q.print = some q.uri := hr
    simp [litToks, pLiteral, C10.absValue, hq]
  | dt t =>
    have hp : (parseIso t.iso).isSome = true := by rw [parseIso_iso t hr]; rfl
    simp [litToks, pLiteral, typedLit, std.dateTime, t1, t2, hp, C10.absValue]
  | float f =>
    obtain ⟨h, hf, hrepr⟩ := hr
    simp [litToks, pLiteral, typedLit, std.double, d1, d2, d3, hf, hrepr, C10.absValue]
  | uri u => simp [litToks, pLiteral, typedLit, std.anyURI, u1, C10.absValue]
  | bool b =>
    cases b
    · simp [litToks, pLiteral, typedLit, std.boolean, b1, b2, b3, b4, C10.absValue, l0]
    · simp [litToks, pLiteral, typedLit, std.boolean, b1, b2, b3, b4, C10.absValue, l1]
  | lit s ty lang =>
    cases lang with
    | some l =>
      have hr' : l ≠ "" ∧ ty.map QName.uri = some (provNs ++ "InternationalizedString") := by
        cases ty <;> simpa [ParseReadable] using hr
      obtain ⟨hl, hty⟩ := hr'
      have hl' : (l == "") = false := by simpa using hl
      simp [litToks, hl', pLiteral, C10.absValue, hty]
    | none =>
      cases ty with
      | none => exact absurd hr (by simp [ParseReadable])
      | some t =>
        have hr' : sc.resolve t.print = some t.uri ∧ C10.ForeignType t.uri := by simpa [ParseReadable] using hr
        obtain ⟨hres, f1, f2, f3, f4, f5, f6, f7, f8⟩ := hr'
        simp [litToks, pLiteral, typedLit, hres, f1, f3, f4, f5, f6, f7, f8, C10.absValue]

/-! ### the attribute list `[a=v, …]` -/

theorem lex_eq (n : Nat) (cs : List Char) : lex (n + 1) ('=' :: cs) = (lex n cs).map (Tok.eq :: ·) := by
  simp [lex_succ, lexBody]

theorem lex_comma (n : Nat) (cs : List Char) : lex (n + 1) (',' :: cs) = (lex n cs).map (Tok.comma :: ·) := by
  simp [lex_succ, lexBody]

theorem lex_rb (n : Nat) (cs : List Char) : lex (n + 1) (']' :: cs) = (lex n cs).map (Tok.rb :: ·) := by
  simp [lex_succ, lexBody]

theorem lex_lb (n : Nat) (cs : List Char) : lex (n + 1) ('[' :: cs) = (lex n cs).map (Tok.lb :: ·) := by
  simp [lex_succ, lexBody]

/-- one `name=value` item followed by `,` or `]` -/
theorem lex_item (a : QName) (v : Value) (ha : IsWord a.print.toList) (hp : Printable v) (n : Nat) (rest : List Char)
    (hr : AfterValue rest) :
    lex (n + litSteps v + 2) ((a.print ++ "=" ++ provnValue v).toList ++ rest) =
      (lex n rest).map (fun ts => Tok.word a.print :: Tok.eq :: (litToks v ++ ts)) := by
  have heq : ("=" : String).toList = ['='] := rfl
  simp only [String.toList_append, heq, List.append_assoc, List.cons_append, List.nil_append]
  rw [show n + litSteps v + 2 = (n + litSteps v + 1) + 1 from rfl,
    lex_word _ a.print.toList _ ha (by intro c hc; simp at hc; subst hc; decide),
    lex_eq, c06_value_lex v hp n rest hr]
  cases lex n rest <;> simp

/-- the items of an attribute list after the opening bracket, up to and including the closing one -/
def itemsText : List (QName × Value) → String
  | [] => "]"
  | [p] => p.1.print ++ "=" ++ provnValue p.2 ++ "]"
  | p :: q :: l => p.1.print ++ "=" ++ provnValue p.2 ++ ", " ++ itemsText (q :: l)

def itemsToks : List (QName × Value) → List Tok
  | [] => [.rb]
  | [p] => Tok.word p.1.print :: Tok.eq :: (litToks p.2 ++ [.rb])
  | p :: q :: l => Tok.word p.1.print :: Tok.eq :: (litToks p.2 ++ Tok.comma :: itemsToks (q :: l))

def itemsSteps : List (QName × Value) → Nat
  | [] => 1
  | [p] => litSteps p.2 + 3
  | p :: q :: l => litSteps p.2 + 4 + itemsSteps (q :: l)

/-- **C06, lexing an attribute list**: the items the printer writes between `[` and `]` are tokenised into name, `=`,
    the value's tokens and the separators, item by item -/
theorem c06_items_lex : ∀ (l : List (QName × Value)), (∀ p ∈ l, IsWord p.1.print.toList ∧ Printable p.2) →
    ∀ (n : Nat) (rest : List Char),
      lex (n + itemsSteps l) ((itemsText l).toList ++ rest) = (lex n rest).map (itemsToks l ++ ·)
  | [], _, n, rest => by
    have : ("]" : String).toList = [']'] := rfl
    simp only [itemsText, itemsSteps, itemsToks, this, List.cons_append, List.nil_append]
    rw [lex_rb]
  | [p], h, n, rest => by
    obtain ⟨ha, hp⟩ := h p List.mem_cons_self
    have hb : ("]" : String).toList = [']'] := rfl
    simp only [itemsText, itemsSteps, itemsToks]
    rw [String.toList_append, hb, List.append_assoc, List.cons_append, List.nil_append,
      show n + (litSteps p.2 + 3) = (n + 1) + litSteps p.2 + 2 by omega,
      lex_item p.1 p.2 ha hp (n + 1) (']' :: rest) ⟨rest, Or.inr rfl⟩, lex_rb]
    cases lex n rest <;> simp
  | p :: q :: l, h, n, rest => by
    obtain ⟨ha, hp⟩ := h p List.mem_cons_self
    have ih := c06_items_lex (q :: l) (fun x hx => h x (List.mem_cons_of_mem _ hx)) n rest
    have hs : (", " : String).toList = [',', ' '] := rfl
    simp only [itemsText, itemsSteps, itemsToks]
    rw [String.toList_append, String.toList_append, hs, List.append_assoc, List.append_assoc, List.cons_append,
      List.cons_append, List.nil_append,
      show n + (litSteps p.2 + 4 + itemsSteps (q :: l)) = ((n + itemsSteps (q :: l)) + 2) + litSteps p.2 + 2 by omega,
      lex_item p.1 p.2 ha hp _ (',' :: ' ' :: ((itemsText (q :: l)).toList ++ rest)) ⟨_, Or.inl rfl⟩,
      show (n + itemsSteps (q :: l)) + 2 = ((n + itemsSteps (q :: l)) + 1) + 1 from rfl, lex_comma, lex_space, ih]
    cases lex n rest <;> simp

/-- **C06, parsing an attribute list**: the item tokens are parsed into the (attribute URI, value) pairs, in order -/
theorem c06_items_parse (sc : Scope) (std : StdScopeN sc) (hints : List (String × FloatAtom)) :
    ∀ (l : List (QName × Value)) (fuel : Nat), l.length < fuel →
      (∀ p ∈ l, sc.resolve p.1.print = some p.1.uri ∧ ParseReadable sc hints p.2) →
      ∀ more, pAttrs sc hints fuel (itemsToks l ++ more) = some (l.map (fun p => (p.1.uri, C10.absValue p.2)), more)
  | [], fuel, hf, _, more => by
    cases fuel with
    | zero => cases hf
    | succ n => simp [itemsToks, pAttrs]
  | [p], fuel, hf, h, more => by
    obtain ⟨hres, hpr⟩ := h p List.mem_cons_self
    cases fuel with
    | zero => cases hf
    | succ n =>
      have hv := c06_value_parse sc std hints p.2 hpr (Tok.rb :: more) ⟨more, Or.inr rfl⟩
      simp only [itemsToks, List.cons_append, List.append_assoc, List.nil_append, pAttrs, hres, hv]
      simp
  | p :: q :: l, fuel, hf, h, more => by
    obtain ⟨hres, hpr⟩ := h p List.mem_cons_self
    cases fuel with
    | zero => cases hf
    | succ n =>
      have ih := c06_items_parse sc std hints (q :: l) n (by simp at hf ⊢; omega)
        (fun x hx => h x (List.mem_cons_of_mem _ hx)) more
      have hv := c06_value_parse sc std hints p.2 hpr (Tok.comma :: (itemsToks (q :: l) ++ more)) ⟨_, Or.inl rfl⟩
      simp only [itemsToks, List.cons_append, List.append_assoc, pAttrs, hres, hv, ih]
      simp

/-! ### a whole element expression: `entity(id, [a=v, …])`, `agent(id, …)` -/

theorem lex_lp (n : Nat) (cs : List Char) : lex (n + 1) ('(' :: cs) = (lex n cs).map (Tok.lp :: ·) := by
  simp [lex_succ, lexBody]

theorem lex_rp (n : Nat) (cs : List Char) : lex (n + 1) (')' :: cs) = (lex n cs).map (Tok.rp :: ·) := by
  simp [lex_succ, lexBody]

theorem itemsText_eq : ∀ (l : List (QName × Value)), l ≠ [] →
    joinWith ", " (l.map (fun p => p.1.print ++ "=" ++ provnValue p.2)) ++ "]" = itemsText l
  | [], h => absurd rfl h
  | [p], _ => by simp [joinWith, itemsText]
  | p :: q :: l, _ => by
    have ih := itemsText_eq (q :: l) (by simp)
    simp only [List.map_cons, joinWith, itemsText] at ih ⊢
    rw [← ih]
    simp [String.append_assoc]

/-- the text of an element expression without positional arguments, given its keyword, identifier and attribute pairs -/
def elemText (kw : String) (q : QName) (pairs : List (QName × Value)) : String :=
  if pairs.isEmpty then kw ++ "(" ++ q.print ++ ")"
  else kw ++ "(" ++ q.print ++ ", [" ++ itemsText pairs ++ ")"

def elemToks (kw : String) (q : QName) (pairs : List (QName × Value)) : List Tok :=
  Tok.word kw :: Tok.lp :: Tok.word q.print ::
    (if pairs.isEmpty then [Tok.rp] else Tok.comma :: Tok.lb :: (itemsToks pairs ++ [Tok.rp]))

def elemSteps (pairs : List (QName × Value)) : Nat :=
  if pairs.isEmpty then 4 else 7 + itemsSteps pairs

/-- **C06, lexing an element expression** -/
theorem c06_elem_lex (kw : String) (hkw : IsWord kw.toList) (q : QName) (hq : IsWord q.print.toList)
    (pairs : List (QName × Value)) (hp : ∀ p ∈ pairs, IsWord p.1.print.toList ∧ Printable p.2) (n : Nat) (rest : List Char) :
    lex (n + elemSteps pairs) ((elemText kw q pairs).toList ++ rest) = (lex n rest).map (elemToks kw q pairs ++ ·) := by
  have hl : ("(" : String).toList = ['('] := rfl
  have hr : (")" : String).toList = [')'] := rfl
  have hcb : (", [" : String).toList = [',', ' ', '['] := rfl
  by_cases he : pairs.isEmpty = true
  · simp only [elemText, elemToks, elemSteps, he, if_true, String.toList_append, hl, hr, List.append_assoc, List.cons_append,
      List.nil_append]
    rw [show n + 4 = (n + 3) + 1 from rfl, lex_word _ kw.toList _ hkw (by intro c hc; simp at hc; subst hc; decide),
      show n + 3 = (n + 2) + 1 from rfl, lex_lp,
      show n + 2 = (n + 1) + 1 from rfl, lex_word _ q.print.toList _ hq (by intro c hc; simp at hc; subst hc; decide), lex_rp]
    cases lex n rest <;> simp
  · have he0 : pairs.isEmpty = false := by simpa using he
    have hit := c06_items_lex pairs hp (n + 1) (')' :: rest)
    simp only [elemText, elemToks, elemSteps, he0, Bool.false_eq_true, if_false, String.toList_append, hl, hr, hcb,
      List.append_assoc, List.cons_append, List.nil_append]
    rw [show n + (7 + itemsSteps pairs) = ((n + 1 + itemsSteps pairs) + 5) + 1 by omega,
      lex_word _ kw.toList _ hkw (by intro c hc; simp at hc; subst hc; decide),
      show (n + 1 + itemsSteps pairs) + 5 = ((n + 1 + itemsSteps pairs) + 4) + 1 from rfl, lex_lp,
      show (n + 1 + itemsSteps pairs) + 4 = ((n + 1 + itemsSteps pairs) + 3) + 1 from rfl,
      lex_word _ q.print.toList _ hq (by intro c hc; simp at hc; subst hc; decide),
      show (n + 1 + itemsSteps pairs) + 3 = ((n + 1 + itemsSteps pairs) + 2) + 1 from rfl, lex_comma,
      show (n + 1 + itemsSteps pairs) + 2 = ((n + 1 + itemsSteps pairs) + 1) + 1 from rfl, lex_space, lex_lb, hit, lex_rp]
    cases lex n rest <;> simp

/-- **C06, parsing an element expression**: `entity(...)` / `agent(...)` tokens are parsed into the element with its
    identifier URI and exactly its (attribute URI, value) pairs, in order -/
theorem c06_elem_parse (sc : Scope) (std : StdScopeN sc) (hints : List (String × FloatAtom)) (isEntity : Bool) (q : QName)
    (hq : sc.resolve q.print = some q.uri) (pairs : List (QName × Value)) (fuel : Nat) (hf : pairs.length < fuel)
    (hp : ∀ p ∈ pairs, sc.resolve p.1.print = some p.1.uri ∧ ParseReadable sc hints p.2) (more : List Tok) :
    pExpr sc hints fuel (elemToks (if isEntity then "entity" else "agent") q pairs ++ more) =
      some (⟨if isEntity then "Entity" else "Agent", some q.uri, pairs.map (fun p => (p.1.uri, C10.absValue p.2))⟩, more) := by
  have hname : ((if isEntity then "entity" else "agent" : String) == "entity" ||
      (if isEntity then "entity" else "agent" : String) == "agent") = true := by cases isEntity <;> decide
  have hkind : ((if isEntity then "entity" else "agent" : String) == "entity") = isEntity := by cases isEntity <;> decide
  by_cases he : pairs.isEmpty = true
  · have hnil : pairs = [] := by simpa using he
    subst hnil
    simp only [elemToks, List.isEmpty_nil, if_true, List.cons_append, List.nil_append, pExpr, hname, hq, pTail, hkind]
    cases isEntity <;> simp
  · have he0 : pairs.isEmpty = false := by simpa using he
    have hit := c06_items_parse sc std hints pairs fuel hf hp (Tok.rp :: more)
    simp only [elemToks, he0, Bool.false_eq_true, if_false, List.cons_append, List.append_assoc, List.nil_append, pExpr, hname,
      hq, pTail, hit, hkind]
    cases isEntity <;> simp

/-- the printer's text of an entity or agent record is that element text -/
theorem provnRecord_elem (r : Record) (hk : r.kind = .entity ∨ r.kind = .agent) (q : QName) (hid : r.id = some q) :
    provnRecord r = elemText r.kind.provN q r.flat := by
  have hform : r.kind.formals = [] := by rcases hk with h | h <;> rw [h] <;> rfl
  have helem : r.kind.isElement = true := by rcases hk with h | h <;> rw [h] <;> rfl
  have hnf : ∀ a : QName, isFormalOf r.kind a = false := by
    intro a; simp [isFormalOf, hform, inProvSet]
  have hextras : (r.attrs.filter (fun p => !isFormalOf r.kind p.1)).flatMap (fun p =>
      p.2.map (fun v => p.1.print ++ "=" ++ provnValue v)) = r.flat.map (fun p => p.1.print ++ "=" ++ provnValue p.2) := by
    have : r.attrs.filter (fun p => !isFormalOf r.kind p.1) = r.attrs := by
      apply List.filter_eq_self.mpr
      intro p _; simp [hnf]
    rw [this]
    simp [Record.flat, List.map_flatMap, List.map_map]
    rfl
  unfold provnRecord
  simp only [hid, helem, if_true, hform, List.map_nil, List.append_nil, hextras]
  unfold elemText
  by_cases he : r.flat.isEmpty = true
  · have : r.flat = [] := by simpa using he
    simp [this, joinWith]
  · have he0 : r.flat.isEmpty = false := by simpa using he
    have hne : r.flat ≠ [] := by simpa using he
    have hme : (r.flat.map (fun p => p.1.print ++ "=" ++ provnValue p.2)).isEmpty = false := by simpa using hne
    simp only [hme, he0, Bool.false_eq_true, if_false, List.cons_append, List.nil_append, joinWith]
    rw [← itemsText_eq r.flat hne]
    simp only [String.append_assoc]
    have hcat : ∀ X : String, ", " ++ ("[" ++ X) = ", [" ++ X := fun X => by
      rw [← String.append_assoc]
      have : (", " : String) ++ "[" = ", [" := by decide +kernel
      rw [this]
    simp [hcat]

/-- **C06 for an element record, from characters to content**: the text `get_provn()` prints for an entity or agent —
    any identifier, any number of attributes, every value kind, every string — is tokenised by the grammar's lexer and
    parsed by its `entity`/`agent` production into that element: same identifier URI, exactly its (attribute URI, value)
    pairs in order. Hypotheses: names are words and resolve in the reading scope to what they denote (C03 (c)); texts printed
    unescaped have nothing to escape (`Printable`); floats' texts are in the float table (A-LEX). -/
theorem c06_element (sc : Scope) (std : StdScopeN sc) (hints : List (String × FloatAtom)) (r : Record) (isEntity : Bool)
    (hk : r.kind = if isEntity then .entity else .agent) (q : QName) (hid : r.id = some q)
    (hqw : IsWord q.print.toList) (hqr : sc.resolve q.print = some q.uri)
    (hp : ∀ p ∈ r.flat, IsWord p.1.print.toList ∧ Printable p.2 ∧ sc.resolve p.1.print = some p.1.uri ∧ ParseReadable sc hints p.2)
    (n : Nat) (rest : List Char) (more : List Tok) :
    lex (n + elemSteps r.flat) ((provnRecord r).toList ++ rest) =
      (lex n rest).map (elemToks (if isEntity then "entity" else "agent") q r.flat ++ ·) ∧
    pExpr sc hints (r.flat.length + 1) (elemToks (if isEntity then "entity" else "agent") q r.flat ++ more) =
      some (⟨if isEntity then "Entity" else "Agent", some q.uri, r.flat.map (fun p => (p.1.uri, C10.absValue p.2))⟩, more) := by
  have hk' : r.kind = .entity ∨ r.kind = .agent := by cases isEntity <;> simp [hk]
  have hkw : r.kind.provN = (if isEntity then "entity" else "agent") := by cases isEntity <;> simp [hk] <;> rfl
  have hkww : IsWord (if isEntity then "entity" else "agent" : String).toList := by
    cases isEntity
    · exact isWord_lit _ (by decide) (by decide) (by decide)
    · exact isWord_lit _ (by decide) (by decide) (by decide)
  constructor
  · rw [provnRecord_elem r hk' q hid, hkw]
    exact c06_elem_lex _ hkww q hqw r.flat (fun p hp' => ⟨(hp p hp').1, (hp p hp').2.1⟩) n rest
  · exact c06_elem_parse sc std hints isEntity q hqr r.flat _ (Nat.lt_succ_self _)
      (fun p hp' => ⟨(hp p hp').2.2.1, (hp p hp').2.2.2⟩) more

/-! ### non-vacuity -/

def rEnt : Record := ⟨.entity, some (C09.exQ "e"),
  [(C09.exQ "k", [.int 1, .str "a \"q\"\nline"]),
   (provQ "label", [.lit "étiquette" (some (provQ "InternationalizedString")) (some "fr")]),
   (C09.exQ "t", [.lit "abc" (some (C09.exQ "T")) none])]⟩

theorem scEx_stdN : StdScopeN C10.scEx := ⟨by decide, by decide, by decide, by decide⟩

theorem rEnt_ok : ∀ p ∈ rEnt.flat, IsWord p.1.print.toList ∧ Printable p.2 ∧ C10.scEx.resolve p.1.print = some p.1.uri ∧
    ParseReadable C10.scEx [] p.2 := by
  intro p hp
  have hp' : p ∈ [(C09.exQ "k", Value.int 1), (C09.exQ "k", .str "a \"q\"\nline"),
      (provQ "label", .lit "étiquette" (some (provQ "InternationalizedString")) (some "fr")),
      (C09.exQ "t", .lit "abc" (some (C09.exQ "T")) none)] := by simpa [rEnt, Record.flat] using hp
  simp only [List.mem_cons, List.mem_nil_iff, or_false] at hp'
  rcases hp' with rfl | rfl | rfl | rfl
  · exact ⟨isWord_lit _ (by decide) (by decide) (by decide), trivial, by decide +kernel, trivial⟩
  · exact ⟨isWord_lit _ (by decide) (by decide) (by decide), trivial, by decide +kernel, trivial⟩
  · refine ⟨isWord_lit _ (by decide) (by decide) (by decide), ?_, by decide +kernel, by decide, by decide +kernel⟩
    show ∀ c ∈ ("fr" : String).toList, (c.isAlphanum || c == '-') = true
    decide
  · exact ⟨isWord_lit _ (by decide) (by decide) (by decide), isWord_lit _ (by decide) (by decide) (by decide), by decide +kernel,
      by decide +kernel, by decide +kernel, by decide +kernel, by decide +kernel, by decide +kernel, by decide +kernel,
      by decide +kernel, by decide +kernel, by decide +kernel⟩

/-- the hypotheses of `c06_element` hold for a concrete entity with an integer, a string with quotes and a line break, a
    language-tagged label and a literal of a foreign datatype -/
example (n : Nat) (rest : List Char) (more : List Tok) :=
  c06_element C10.scEx scEx_stdN [] rEnt true rfl (C09.exQ "e") rfl (isWord_lit _ (by decide) (by decide) (by decide))
    (by decide +kernel) rEnt_ok n rest more

end Prov.C06

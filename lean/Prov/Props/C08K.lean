/-
  C08, idempotence of `unified()`, second half: what `unified()` returns has no two records sharing identifier URI and kind.
  (1) the merge table built by `_unified_records()` sends two records with the same key to the same merged record
  (`mergeAll_keyfun`); (2) in the placed list — unmerged records and merged records — equal keys mean equal references
  (`placed_keys_nodup`); (3) the records of the returned bundle are `==` copies, so their keys are those of the placed list
  (`c08_unified_nodupkey`). With `Props/C08J`: unifying the result again merges nothing (`c08_unified_twice_noop`).
-/
import Prov.Props.C08J
import Prov.Props.C08I

namespace Prov.C08
open Prov Prov.Heap Prov.C05 Prov.C09 Prov.C18 Prov.C04

/-! ### (1) the merge table is a function of the key -/

/-- the key of a group: that of its first member -/
def gkey (kf : Nat → Option (String × RecKind)) (g : List Nat) : Option (String × RecKind) := g.head?.bind kf

theorem mergeAll_keyfun (kf : Nat → Option (String × RecKind)) : ∀ (gs : List (List Nat)) (h : Heap) (acc : List (Nat × Nat)) (h' : Heap) (mp : List (Nat × Nat)),
    (∀ g ∈ gs, ∀ r ∈ g, kf r = gkey kf g ∧ (gkey kf g).isSome = true) → ((gs.map (gkey kf)).Nodup) →
    (∀ e ∈ acc, kf e.1 ∉ gs.map (gkey kf)) →
    (∀ e1 ∈ acc, ∀ e2 ∈ acc, kf e1.1 = kf e2.1 → (kf e1.1).isSome = true → e1.2 = e2.2) →
    unifiedRecords.mergeAll h acc gs = (h', .ok mp) →
    ∀ e1 ∈ mp, ∀ e2 ∈ mp, kf e1.1 = kf e2.1 → (kf e1.1).isSome = true → e1.2 = e2.2
  | [], h, acc, h', mp, _, _, _, hinv, hres => by
    simp only [unifiedRecords.mergeAll, Prod.mk.injEq, Except.ok.injEq] at hres
    obtain ⟨_, rfl⟩ := hres
    exact hinv
  | g :: gs, h, acc, h', mp, hg, hnd, hout, hinv, hres => by
    unfold unifiedRecords.mergeAll at hres
    cases hmg : h.mergeGroup g with
    | mk h1 e =>
      rw [hmg] at hres
      cases e with
      | error err => simp at hres
      | ok mref =>
        simp only [] at hres
        simp only [List.map_cons, List.nodup_cons] at hnd
        refine mergeAll_keyfun kf gs h1 (acc ++ g.map (fun r => (r, mref))) h' mp
          (fun g' hg' => hg g' (List.mem_cons_of_mem _ hg')) hnd.2 ?_ ?_ hres
        · intro e he
          rcases List.mem_append.mp he with he | he
          · intro hmem
            exact hout e he (List.mem_cons_of_mem _ hmem)
          · obtain ⟨r, hr, rfl⟩ := List.mem_map.mp he
            simp only
            rw [(hg g List.mem_cons_self r hr).1]
            exact hnd.1
        · intro e1 he1 e2 he2 hk hs
          rcases List.mem_append.mp he1 with h1' | h1' <;> rcases List.mem_append.mp he2 with h2' | h2'
          · exact hinv e1 h1' e2 h2' hk hs
          · obtain ⟨r, hr, rfl⟩ := List.mem_map.mp h2'
            simp only at hk
            exfalso
            apply hout e1 h1'
            rw [hk, (hg g List.mem_cons_self r hr).1]
            exact List.mem_cons_self
          · obtain ⟨r, hr, rfl⟩ := List.mem_map.mp h1'
            simp only at hk
            exfalso
            apply hout e2 h2'
            rw [← hk, (hg g List.mem_cons_self r hr).1]
            exact List.mem_cons_self
          · obtain ⟨r1, _, rfl⟩ := List.mem_map.mp h1'
            obtain ⟨r2, _, rfl⟩ := List.mem_map.mp h2'
            rfl

/-! ### (2) the groups are the key classes of the record list -/

theorem key_pred (h : Heap) (e1 : QName) (kd : RecKind) (r : Nat) :
    ((match idsOf h r with | some i => i.same e1 | none => false) && ((h.recCell r).r.kind == kd)) =
      (keyOf h r == some (e1.uri, kd)) := by
  unfold keyOf idsOf
  cases hid : (h.recCell r).r.id with
  | none => simp
  | some q =>
    simp only [Option.map_some, QName.same]
    rw [Bool.eq_iff_iff]
    simp only [Bool.and_eq_true, beq_iff_eq, Option.some.injEq, Prod.mk.injEq]

/-- a group of an index entry is a key class of the record list -/
theorem group_is_class {h : Heap} (hw : WF2 h) (c : Nat) (hc : c < h.conts.size) (e : QName × List Nat)
    (he : e ∈ (h.cont c).idMap) (g : RecKind × List Nat) (hg : g ∈ groupByKind h e.2) :
    g.2 = (h.cont c).records.filter (fun r => keyOf h r == some (e.1.uri, g.1)) := by
  rw [groupByKind_filter h e.2 g hg, entry_is_byId hw c hc e he]
  unfold byId
  rw [List.filter_filter]
  apply List.filter_congr
  intro r _
  rw [Bool.and_comm]
  exact key_pred h e.1 g.1 r

theorem groupsOf_char {h : Heap} (hw : WF2 h) (c : Nat) (hc : c < h.conts.size) (g : List Nat) (hg : g ∈ groupsOf h c) :
    ∃ k, g = (h.cont c).records.filter (fun r => keyOf h r == some k) ∧ g.length > 1 := by
  unfold groupsOf at hg
  obtain ⟨hg1, hlen⟩ := List.mem_filter.mp hg
  obtain ⟨e, he, hge⟩ := List.mem_flatMap.mp hg1
  obtain ⟨kg, hkg, rfl⟩ := List.mem_map.mp hge
  exact ⟨(e.1.uri, kg.1), group_is_class hw c hc e he kg hkg, by simpa using hlen⟩

/-- a key class with more than one member is one of the groups -/
theorem groupsOf_of_big {h : Heap} (hw : WF2 h) (c : Nat) (hc : c < h.conts.size) (k : String × RecKind)
    (hbig : ((h.cont c).records.filter (fun r => keyOf h r == some k)).length > 1) :
    (h.cont c).records.filter (fun r => keyOf h r == some k) ∈ groupsOf h c := by
  -- a member
  obtain ⟨x, hx⟩ : ∃ x, x ∈ (h.cont c).records.filter (fun r => keyOf h r == some k) := by
    cases hl : (h.cont c).records.filter (fun r => keyOf h r == some k) with
    | nil => rw [hl] at hbig; simp at hbig
    | cons a _ => exact ⟨a, List.mem_cons_self⟩
  obtain ⟨hxr, hxk⟩ := List.mem_filter.mp hx
  have hxk' : keyOf h x = some k := by simpa using hxk
  unfold keyOf at hxk'
  cases hid : (h.recCell x).r.id with
  | none => rw [hid] at hxk'; simp at hxk'
  | some q =>
    rw [hid] at hxk'
    simp only [Option.map_some, Option.some.injEq] at hxk'
    -- its index entry
    have hcoh := (hw.1 c hc).1 q
    have hxin : x ∈ byId (idsOf h) (h.cont c).records q := by
      unfold byId
      refine List.mem_filter.mpr ⟨hxr, ?_⟩
      simp [idsOf, hid, QName.same]
    rw [← hcoh] at hxin
    unfold idMapGet at hxin
    cases hf : (h.cont c).idMap.find? (fun p => p.1.same q) with
    | none => rw [hf] at hxin; simp at hxin
    | some e =>
      rw [hf] at hxin
      simp only at hxin
      have he : e ∈ (h.cont c).idMap := List.mem_of_find?_eq_some hf
      have hes : e.1.same q = true := by have := List.find?_some hf; simpa using this
      have heu : e.1.uri = q.uri := by simpa [QName.same] using hes
      -- its group
      obtain ⟨hm, hk, _, _⟩ := c08_groupByKind_spec h e.2
      obtain ⟨g, hg, hxg⟩ := (hm x).mpr hxin
      have hgk : g.1 = (h.recCell x).r.kind := (hk g hg x hxg).symm
      have hcls := group_is_class hw c hc e he g hg
      have hkk : (e.1.uri, g.1) = k := by rw [heu, hgk]; exact hxk'
      rw [hkk] at hcls
      unfold groupsOf
      refine List.mem_filter.mpr ⟨List.mem_flatMap.mpr ⟨e, he, List.mem_map.mpr ⟨g, hg, hcls⟩⟩, ?_⟩
      simpa using hbig

theorem gkey_class (h : Heap) (rs : List Nat) (k : String × RecKind)
    (hne : rs.filter (fun r => keyOf h r == some k) ≠ []) :
    gkey (keyOf h) (rs.filter (fun r => keyOf h r == some k)) = some k := by
  unfold gkey
  cases hl : rs.filter (fun r => keyOf h r == some k) with
  | nil => exact absurd hl hne
  | cons a tl =>
    have ha : a ∈ rs.filter (fun r => keyOf h r == some k) := by rw [hl]; exact List.mem_cons_self
    have := (List.mem_filter.mp ha).2
    simp only [List.head?_cons, Option.bind_some]
    simpa using this

/-- every member of a group has the group's key -/
theorem groupsOf_member_key {h : Heap} (hw : WF2 h) (c : Nat) (hc : c < h.conts.size) :
    ∀ g ∈ groupsOf h c, ∀ r ∈ g, keyOf h r = gkey (keyOf h) g ∧ (gkey (keyOf h) g).isSome = true := by
  intro g hg r hr
  obtain ⟨k, hgk, hlen⟩ := groupsOf_char hw c hc g hg
  have hne : (h.cont c).records.filter (fun r => keyOf h r == some k) ≠ [] := by
    intro e; rw [hgk, e] at hlen; simp at hlen
  have hkey := gkey_class h (h.cont c).records k hne
  rw [← hgk] at hkey
  rw [hkey]
  refine ⟨?_, rfl⟩
  rw [hgk] at hr
  simpa using (List.mem_filter.mp hr).2

/-! ### the keys of the groups are pairwise different -/

theorem nodup_map_of_inj {α β : Type} (f : α → β) (hf : ∀ a b, f a = f b → a = b) : ∀ (l : List α), l.Nodup → (l.map f).Nodup
  | [], _ => by simp
  | x :: xs, hn => by
    simp only [List.nodup_cons] at hn
    simp only [List.map_cons, List.nodup_cons]
    refine ⟨fun hm => ?_, nodup_map_of_inj f hf xs hn.2⟩
    obtain ⟨y, hy, hxy⟩ := List.mem_map.mp hm
    exact hn.1 (hf _ _ hxy.symm ▸ hy)

/-- the keys of the groups formed from one index entry -/
theorem entry_group_keys {h : Heap} (hw : WF2 h) (c : Nat) (hc : c < h.conts.size) (e : QName × List Nat)
    (he : e ∈ (h.cont c).idMap) :
    ((((groupByKind h e.2).map (·.2)).filter (fun g => g.length > 1)).map (gkey (keyOf h))).Nodup ∧
      ∀ k ∈ (((groupByKind h e.2).map (·.2)).filter (fun g => g.length > 1)).map (gkey (keyOf h)),
        ∃ kd, k = some (e.1.uri, kd) := by
  obtain ⟨_, _, hd, _⟩ := c08_groupByKind_spec h e.2
  rw [List.filter_map, List.map_map]
  have hcongr : ∀ g' ∈ (groupByKind h e.2).filter ((fun g => decide (g.length > 1)) ∘ (·.2)),
      (gkey (keyOf h) ∘ (·.2)) g' = (fun g'' : RecKind × List Nat => some (e.1.uri, g''.1)) g' := by
    intro g' hg'
    obtain ⟨hg1, hlen⟩ := List.mem_filter.mp hg'
    have hcls := group_is_class hw c hc e he g' hg1
    simp only [Function.comp]
    rw [hcls]
    apply gkey_class
    intro hnil
    simp only [Function.comp, gt_iff_lt, decide_eq_true_eq] at hlen
    rw [hcls, hnil] at hlen
    simp at hlen
  rw [List.map_congr_left hcongr]
  constructor
  · have h1 : (((groupByKind h e.2).filter ((fun g => decide (g.length > 1)) ∘ (·.2))).map (·.1)).Nodup :=
      (List.filter_sublist.map _).nodup hd
    have := nodup_map_of_inj (fun kd : RecKind => some (e.1.uri, kd)) (fun a b hab => by simpa using hab) _ h1
    rw [List.map_map] at this
    exact this
  · intro k hk
    obtain ⟨g', _, rfl⟩ := List.mem_map.mp hk
    exact ⟨g'.1, rfl⟩

theorem groups_keys_aux {h : Heap} (hw : WF2 h) (c : Nat) (hc : c < h.conts.size) :
    ∀ (im : List (QName × List Nat)), (∀ e ∈ im, e ∈ (h.cont c).idMap) → (im.map (fun e => e.1.uri)).Nodup →
      (((im.flatMap (fun e => (groupByKind h e.2).map (·.2))).filter (fun g => g.length > 1)).map (gkey (keyOf h))).Nodup ∧
      ∀ k ∈ ((im.flatMap (fun e => (groupByKind h e.2).map (·.2))).filter (fun g => g.length > 1)).map (gkey (keyOf h)),
        ∃ u kd, k = some (u, kd) ∧ u ∈ im.map (fun e => e.1.uri)
  | [], _, _ => by simp
  | e :: tl, hmem, hn => by
    simp only [List.map_cons, List.nodup_cons] at hn
    obtain ⟨i1, i2⟩ := groups_keys_aux hw c hc tl (fun x hx => hmem x (List.mem_cons_of_mem _ hx)) hn.2
    obtain ⟨e1, e2⟩ := entry_group_keys hw c hc e (hmem e List.mem_cons_self)
    simp only [List.flatMap_cons, List.filter_append, List.map_append]
    constructor
    · refine List.nodup_append.mpr ⟨e1, i1, ?_⟩
      intro a ha b hb hab
      obtain ⟨kd, rfl⟩ := e2 a ha
      obtain ⟨u, kd', hb', hu⟩ := i2 b hb
      rw [← hab] at hb'
      simp only [Option.some.injEq, Prod.mk.injEq] at hb'
      exact hn.1 (hb'.1 ▸ hu)
    · intro k hk
      rcases List.mem_append.mp hk with h1 | h1
      · obtain ⟨kd, rfl⟩ := e2 k h1
        exact ⟨e.1.uri, kd, rfl, List.mem_cons_self⟩
      · obtain ⟨u, kd, hk', hu⟩ := i2 k h1
        exact ⟨u, kd, hk', List.mem_cons_of_mem _ hu⟩

theorem groupsOf_keys_nodup {h : Heap} (hw : WF2 h) (c : Nat) (hc : c < h.conts.size) :
    ((groupsOf h c).map (gkey (keyOf h))).Nodup :=
  (groups_keys_aux hw c hc (h.cont c).idMap (fun _ he => he) (hw.2 c hc).2).1

/-! ### (3) the placed list, and the returned bundle -/

theorem mem_stepPlace' (mp : List (Nat × Nat)) (acc : List Nat) (r y : Nat) (hy : y ∈ stepPlace mp acc r) :
    y ∈ acc ∨ (y = r ∧ mp.find? (fun p => p.1 == r) = none) ∨ ∃ p ∈ mp, p.2 = y := by
  unfold stepPlace at hy
  split at hy
  · next p mref hfind =>
    split at hy
    · exact Or.inl hy
    · rcases List.mem_append.mp hy with h | h
      · exact Or.inl h
      · simp only [List.mem_singleton] at h
        exact Or.inr (Or.inr ⟨_, List.mem_of_find?_eq_some hfind, h.symm⟩)
  · next hnone =>
    rcases List.mem_append.mp hy with h | h
    · exact Or.inl h
    · simp only [List.mem_singleton] at h
      exact Or.inr (Or.inl ⟨h, hnone⟩)

theorem mem_foldl_stepPlace' (mp : List (Nat × Nat)) (rs acc : List Nat) :
    ∀ x ∈ rs.foldl (stepPlace mp) acc, x ∈ acc ∨ (x ∈ rs ∧ mp.find? (fun p => p.1 == x) = none) ∨ ∃ p ∈ mp, p.2 = x := by
  induction rs generalizing acc with
  | nil => intro x hx; exact Or.inl hx
  | cons r rest ih =>
    intro x hx
    simp only [List.foldl_cons] at hx
    rcases ih _ x hx with h | h | h
    · rcases mem_stepPlace' mp acc r x h with h' | ⟨rfl, h'⟩ | h'
      · exact Or.inl h'
      · exact Or.inr (Or.inl ⟨List.mem_cons_self, h'⟩)
      · exact Or.inr (Or.inr h')
    · exact Or.inr (Or.inl ⟨List.mem_cons_of_mem _ h.1, h.2⟩)
    · exact Or.inr (Or.inr h)

theorem mem_placed' (mp : List (Nat × Nat)) (rs : List Nat) :
    ∀ x ∈ placeMerged mp rs, (x ∈ rs ∧ mp.find? (fun p => p.1 == x) = none) ∨ ∃ p ∈ mp, p.2 = x := by
  intro x hx
  rw [placeMerged_eq] at hx
  rcases mem_foldl_stepPlace' mp rs [] x hx with h | h | h
  · cases h
  · exact Or.inl h
  · exact Or.inr h

theorem nodup_filterMap_of_inj {α β : Type} (f : α → Option β) : ∀ (l : List α), l.Nodup →
    (∀ x ∈ l, ∀ y ∈ l, f x = f y → (f x).isSome = true → x = y) → (l.filterMap f).Nodup
  | [], _, _ => by simp
  | a :: tl, hn, hinj => by
    simp only [List.nodup_cons] at hn
    have ih := nodup_filterMap_of_inj f tl hn.2 (fun x hx y hy => hinj x (List.mem_cons_of_mem _ hx) y (List.mem_cons_of_mem _ hy))
    rw [List.filterMap_cons]
    cases hfa : f a with
    | none => exact ih
    | some b =>
      simp only [List.nodup_cons]
      refine ⟨fun hm => ?_, ih⟩
      obtain ⟨y, hy, hfy⟩ := List.mem_filterMap.mp hm
      have := hinj a List.mem_cons_self y (List.mem_cons_of_mem _ hy) (by rw [hfa, hfy]) (by rw [hfa]; rfl)
      exact hn.1 (this ▸ hy)

theorem two_mem_length {α : Type} (l : List α) (x y : α) (hx : x ∈ l) (hy : y ∈ l) (hne : x ≠ y) : l.length > 1 := by
  match l, hx, hy with
  | [a], hx, hy =>
    simp only [List.mem_singleton] at hx hy
    exact absurd (hx.trans hy.symm) hne
  | _ :: _ :: _, _, _ => simp

/-- **in the placed list equal keys mean the same record** -/
theorem placed_keys_nodup {h h1 : Heap} (hw : WF2 h) (c : Nat) (hc : c < h.conts.size) (mp : List (Nat × Nat))
    (hgm : GoodMap h h1 (groupsOf h c) mp) (hframe : ∀ r, r < h.recs.size → h1.recCell r = h.recCell r)
    (hma : unifiedRecords.mergeAll h [] (groupsOf h c) = (h1, .ok mp)) :
    ((placeMerged mp (h.cont c).records).filterMap (keyOf h1)).Nodup := by
  have hrsN := (hw.2 c hc).1
  have hlt := (hw.1 c hc).2
  have hfresh : ∀ p ∈ mp, p.2 ∉ (h.cont c).records := by
    intro p hp hmem
    obtain ⟨_, _, _, hge, _⟩ := hgm.sound p hp
    exact Nat.lt_irrefl _ (Nat.lt_of_lt_of_le (hlt p.2 hmem) hge)
  have hplN := c08_no_duplicates mp (h.cont c).records hrsN hfresh
  have hmk := groupsOf_member_key hw c hc
  -- the key of a merged record is the key of every record it stands for
  have E1 : ∀ p ∈ mp, keyOf h1 p.2 = keyOf h p.1 ∧ (keyOf h p.1).isSome = true := by
    intro p hp
    obtain ⟨g, hg, hpg, _, _, _, hkid⟩ := hgm.sound p hp
    obtain ⟨e1, e2⟩ := hmk g hg p.1 hpg
    refine ⟨?_, by rw [e1]; exact e2⟩
    cases hgl : g with
    | nil => rw [hgl] at hpg; cases hpg
    | cons r0 rest =>
      obtain ⟨hk, hi⟩ := hkid r0 rest hgl
      have e0 := (hmk g hg r0 (by rw [hgl]; exact List.mem_cons_self)).1
      rw [e1, ← e0]
      unfold keyOf
      rw [hk, hi]
  have E2 := mergeAll_keyfun (keyOf h) (groupsOf h c) h [] h1 mp hmk (groupsOf_keys_nodup hw c hc)
    (by simp) (by simp) hma
  have hkeyU : ∀ x ∈ (h.cont c).records, keyOf h1 x = keyOf h x := fun x hx => by
    unfold keyOf; rw [hframe x (hlt x hx)]
  -- a record of the list whose key is that of a group belongs to the group, hence to the table
  have inTable : ∀ x ∈ (h.cont c).records, ∀ g ∈ groupsOf h c, ∀ r ∈ g, keyOf h x = keyOf h r → ∃ m, (x, m) ∈ mp := by
    intro x hx g hg r hr hk
    obtain ⟨k, hgk, _⟩ := groupsOf_char hw c hc g hg
    have hrk : keyOf h r = some k := by
      rw [hgk] at hr
      simpa using (List.mem_filter.mp hr).2
    have hxg : x ∈ g := by
      rw [hgk]
      exact List.mem_filter.mpr ⟨hx, by rw [hk, hrk]; simp⟩
    exact hgm.complete g hg x hxg
  have notFound : ∀ x m, (x, m) ∈ mp → mp.find? (fun p => p.1 == x) = none → False := by
    intro x m hm hnone
    have := List.find?_eq_none.mp hnone (x, m) hm
    simp at this
  refine nodup_filterMap_of_inj (keyOf h1) _ hplN ?_
  intro x hx y hy hk hs
  rcases mem_placed' mp _ x hx with ⟨hxr, hxn⟩ | ⟨p1, hp1, rfl⟩ <;> rcases mem_placed' mp _ y hy with ⟨hyr, hyn⟩ | ⟨p2, hp2, rfl⟩
  · -- two unmerged records with one key would form a group
    by_cases hxy : x = y
    · exact hxy
    exfalso
    have hne : x ≠ y := hxy
    rw [hkeyU x hxr, hkeyU y hyr] at hk
    rw [hkeyU x hxr] at hs
    obtain ⟨k, hkx⟩ := Option.isSome_iff_exists.mp hs
    have hbig : ((h.cont c).records.filter (fun r => keyOf h r == some k)).length > 1 :=
      two_mem_length _ x y (List.mem_filter.mpr ⟨hxr, by rw [hkx]; simp⟩)
        (List.mem_filter.mpr ⟨hyr, by rw [← hk, hkx]; simp⟩) hne
    have hg := groupsOf_of_big hw c hc k hbig
    obtain ⟨m, hm⟩ := hgm.complete _ hg x (List.mem_filter.mpr ⟨hxr, by rw [hkx]; simp⟩)
    exact notFound x m hm hxn
  · exfalso
    obtain ⟨g, hg, hpg, _⟩ := hgm.sound p2 hp2
    rw [hkeyU x hxr, (E1 p2 hp2).1] at hk
    obtain ⟨m, hm⟩ := inTable x hxr g hg p2.1 hpg hk
    exact notFound x m hm hxn
  · exfalso
    obtain ⟨g, hg, hpg, _⟩ := hgm.sound p1 hp1
    rw [hkeyU y hyr, (E1 p1 hp1).1] at hk
    obtain ⟨m, hm⟩ := inTable y hyr g hg p1.1 hpg hk.symm
    exact notFound y m hm hyn
  · rw [(E1 p1 hp1).1, (E1 p2 hp2).1] at hk
    exact E2 p1 hp1 p2 hp2 hk (E1 p1 hp1).2

theorem key_of_recEq (a b : Record) (h : recEq a b = true) :
    a.id.map (fun q => (q.uri, a.kind)) = b.id.map (fun q => (q.uri, b.kind)) := by
  unfold recEq at h
  simp only [Bool.and_eq_true, beq_iff_eq] at h
  obtain ⟨⟨hk, hi⟩, _⟩ := h
  unfold optSame at hi
  cases ha : a.id <;> cases hb : b.id <;> rw [ha, hb] at hi <;> simp_all [QName.same]

theorem zip_filterMap {α β γ : Type} (f : α → Option γ) (g : β → Option γ) : ∀ (l1 : List α) (l2 : List β),
    l1.length = l2.length → (∀ p ∈ l1.zip l2, f p.1 = g p.2) → l1.filterMap f = l2.filterMap g
  | [], [], _, _ => rfl
  | a :: l1, b :: l2, hl, hp => by
    have h1 : f a = g b := hp (a, b) (by simp)
    have ih := zip_filterMap f g l1 l2 (by simpa using hl) (fun p hp' => hp p (by simp only [List.zip_cons_cons, List.mem_cons]; exact Or.inr hp'))
    rw [List.filterMap_cons, List.filterMap_cons, h1, ih]
  | [], _ :: _, hl, _ => by simp at hl
  | _ :: _, [], hl, _ => by simp at hl

/-- **what `unified()` returns holds no two records with one identifier URI and one kind** -/
theorem c08_unified_nodupkey {h : Heap} (g : Good2 h) (hw : WF2 h) (c : Nat) (hc : c < h.conts.size) (h' : Heap) (nb : Nat)
    (hres : h.unifiedBundle c = (h', .ok nb)) : NoDupKey h' nb := by
  obtain ⟨h1, mp, news, hgm, hframe, _, hrecs, hlen, hzip, _, _, hma⟩ := c08_unifiedBundle_content h c g.good h' nb hres
  unfold NoDupKey
  rw [hrecs]
  have hpl := placed_keys_nodup hw c hc mp hgm hframe hma
  have : news.filterMap (keyOf h') = (placeMerged mp (h.cont c).records).filterMap (keyOf h1) := by
    refine (zip_filterMap (keyOf h1) (keyOf h') _ news hlen.symm ?_).symm
    intro p hp
    unfold keyOf
    exact key_of_recEq _ _ (hzip p hp)
  rw [this]
  exact hpl

/-- **`unified()` is idempotent**: unifying what `unified()` returned merges nothing — its `_unified_records()` is the record
    list of the first result itself, and nothing is written -/
theorem c08_unified_twice_noop {h : Heap} (g : Good2 h) (hw : WF2 h) (c : Nat) (hc : c < h.conts.size) (h' : Heap) (nb : Nat)
    (hres : h.unifiedBundle c = (h', .ok nb)) : h'.unifiedRecords nb = (h', .ok (h'.cont nb).records) := by
  have hw' : WF2 h' := by have := wf2_unifiedBundle hw c; rw [hres] at this; exact this
  obtain ⟨_, _, hlt⟩ := unifiedBundle_result h c h' nb hres
  exact c08_unifiedRecords_noop hw' nb hlt (c08_unified_nodupkey g hw c hc h' nb hres)

/-- … in every state the public operations reach -/
theorem c08_unified_idempotent_reach {h : Heap} (hr : Reach h) (c : Nat) (hc : c < h.conts.size) (h' : Heap) (nb : Nat)
    (hres : h.unifiedBundle c = (h', .ok nb)) :
    NoDupKey h' nb ∧ h'.unifiedRecords nb = (h', .ok (h'.cont nb).records) :=
  ⟨c08_unified_nodupkey (reach_good2 hr) (reachAny_wf2 (reachAny_of_reach hr)) c hc h' nb hres,
   c08_unified_twice_noop (reach_good2 hr) (reachAny_wf2 (reachAny_of_reach hr)) c hc h' nb hres⟩

/-- non-vacuity: the bundle of `opsBundleDup` states `ex:e` twice; its `unified()` holds one record, and unifying that again
    returns the very same list -/
example : let h := opsBundleDup.foldl hstep Heap.empty
    ∃ h' nb, h.unifiedBundle 1 = (h', .ok nb) ∧ (h.cont 1).records.length = 2 ∧ (h'.cont nb).records.length = 1 ∧
      h'.unifiedRecords nb = (h', .ok (h'.cont nb).records) := by
  refine ⟨_, _, rfl, by decide, by decide, ?_⟩
  exact (c08_unified_idempotent_reach (reach_of_ops opsBundleDup Heap.empty Reach.empty opsBundleDup_ok (fun n hn => by
    have : n = 0 ∨ n = 1 ∨ n = 2 ∨ n = 3 ∨ n = 4 ∨ n = 5 := by
      have : n ≤ 5 := hn
      omega
    rcases this with rfl | rfl | rfl | rfl | rfl | rfl <;> exact clean_of_cleanB (by decide +kernel))) 1 (by decide) _ _ rfl).2

end Prov.C08

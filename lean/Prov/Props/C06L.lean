/-
  C06, the tokenizer's fuel: `lex n cs` succeeds with the same tokens for every larger `n` (`lex_mono`), and once the fuel
  exceeds the length of the input it does not matter at all (`lex_enough`) — every step consumes at least one character.
  So a statement "`lex (n + steps) text = …`" with some explicit step count transfers to the fuel `parseDocument` uses
  (`text.length + 1`).
-/
import Prov.ProvNSpec

namespace Prov.C06
open Prov Prov.ProvNSpec

theorem map_some_mono {α β : Type} {f : α → β} {o o' : Option α} {b : β} (h : o.map f = some b)
    (hm : ∀ a, o = some a → o' = some a) : o'.map f = some b := by
  cases o with
  | none => cases h
  | some a => rw [hm a rfl]; exact h

/-- one tokenizer step is monotone in its continuation -/
theorem lexBody_mono (k k' : List Char → Option (List Tok)) (hk : ∀ cs ts, k cs = some ts → k' cs = some ts)
    (cs : List Char) (ts : List Tok) (h : lexBody k cs = some ts) : lexBody k' cs = some ts := by
  unfold lexBody at h ⊢
  cases cs with
  | nil => exact h
  | cons c cs =>
    simp only at h ⊢
    by_cases h0 : (c == ' ' || c == '\n' || c == '\t' || c == '\r') = true
    · simp only [h0, if_true] at h ⊢; exact hk _ _ h
    simp only [h0, Bool.false_eq_true, if_false] at h ⊢
    by_cases h1 : (c == '(') = true
    · simp only [h1, if_true] at h ⊢; exact map_some_mono h (fun a ha => hk _ a ha)
    simp only [h1, Bool.false_eq_true, if_false] at h ⊢
    by_cases h2 : (c == ')') = true
    · simp only [h2, if_true] at h ⊢; exact map_some_mono h (fun a ha => hk _ a ha)
    simp only [h2, Bool.false_eq_true, if_false] at h ⊢
    by_cases h3 : (c == ',') = true
    · simp only [h3, if_true] at h ⊢; exact map_some_mono h (fun a ha => hk _ a ha)
    simp only [h3, Bool.false_eq_true, if_false] at h ⊢
    by_cases h4 : (c == ';') = true
    · simp only [h4, if_true] at h ⊢; exact map_some_mono h (fun a ha => hk _ a ha)
    simp only [h4, Bool.false_eq_true, if_false] at h ⊢
    by_cases h5 : (c == '[') = true
    · simp only [h5, if_true] at h ⊢; exact map_some_mono h (fun a ha => hk _ a ha)
    simp only [h5, Bool.false_eq_true, if_false] at h ⊢
    by_cases h6 : (c == ']') = true
    · simp only [h6, if_true] at h ⊢; exact map_some_mono h (fun a ha => hk _ a ha)
    simp only [h6, Bool.false_eq_true, if_false] at h ⊢
    by_cases h7 : (c == '=') = true
    · simp only [h7, if_true] at h ⊢; exact map_some_mono h (fun a ha => hk _ a ha)
    simp only [h7, Bool.false_eq_true, if_false] at h ⊢
    by_cases hp : (c == '%') = true
    · simp only [hp, if_true] at h ⊢
      split at h
      · exact map_some_mono h (fun a ha => hk _ a ha)
      · cases h
    simp only [hp, Bool.false_eq_true, if_false] at h ⊢
    by_cases hl : (c == '<') = true
    · simp only [hl, if_true] at h ⊢
      split at h
      · exact map_some_mono h (fun a ha => hk _ a ha)
      · cases h
    simp only [hl, Bool.false_eq_true, if_false] at h ⊢
    by_cases hq : (c == '\'') = true
    · simp only [hq, if_true] at h ⊢
      split at h
      · exact map_some_mono h (fun a ha => hk _ a ha)
      · cases h
    simp only [hq, Bool.false_eq_true, if_false] at h ⊢
    by_cases ha : (c == '@') = true
    · simp only [ha, if_true] at h ⊢; exact map_some_mono h (fun a ha => hk _ a ha)
    simp only [ha, Bool.false_eq_true, if_false] at h ⊢
    by_cases hs : (c == '"') = true
    · simp only [hs, if_true] at h ⊢
      unfold lexString at h ⊢
      split at h
      · split at h
        · exact map_some_mono h (fun a ha => hk _ a ha)
        · cases h
      · split at h
        · exact map_some_mono h (fun a ha => hk _ a ha)
        · cases h
    simp only [hs, Bool.false_eq_true, if_false] at h ⊢
    by_cases hw : isWordChar c = true
    · simp only [hw, if_true] at h ⊢; exact map_some_mono h (fun a ha => hk _ a ha)
    · simp only [hw, Bool.false_eq_true, if_false] at h; cases h

theorem lex_mono_succ : ∀ (n : Nat) (cs : List Char) (ts : List Tok), lex n cs = some ts → lex (n + 1) cs = some ts
  | 0, cs, ts, h => by
    simp only [lex] at h
    split at h
    · next he =>
      have : cs = [] := by simpa using he
      subst this
      cases h
      rfl
    · cases h
  | n + 1, cs, ts, h => by
    show lexBody (lex (n + 1)) cs = some ts
    exact lexBody_mono (lex n) (lex (n + 1)) (lex_mono_succ n) cs ts h

/-- **more fuel never changes a successful tokenisation** -/
theorem lex_mono (n m : Nat) (hnm : n ≤ m) (cs : List Char) (ts : List Tok) (h : lex n cs = some ts) : lex m cs = some ts := by
  induction m with
  | zero => have : n = 0 := Nat.le_zero.mp hnm; subst this; exact h
  | succ m ih =>
    by_cases e : n = m + 1
    · subst e; exact h
    · exact lex_mono_succ m cs ts (ih (by omega))

/-! ### fuel beyond the input length is irrelevant -/

theorem takeWhileC_length (p : Char → Bool) : ∀ (cs : List Char), (takeWhileC p cs).2.length ≤ cs.length
  | [] => Nat.le_refl _
  | c :: cs => by
    unfold takeWhileC
    split
    · have := takeWhileC_length p cs
      simp only [List.length_cons]
      omega
    · exact Nat.le_refl _

theorem lexShort_length (cs acc s r : List Char) (h : lexShort cs acc = some (s, r)) : r.length < cs.length := by
  fun_induction lexShort cs acc with
  | case1 => cases h
  | case2 rest acc => simp only [Option.some.injEq, Prod.mk.injEq] at h; rw [← h.2]; simp
  | case3 c rest acc d hd ih => have := ih h; simp only [List.length_cons]; omega
  | case4 c rest acc hd => cases h
  | case5 c rest acc hc1 hc2 hbad => cases h
  | case6 c rest acc hc1 hc2 hok ih => have := ih h; simp only [List.length_cons]; omega

theorem lexLong_length (cs acc s r : List Char) (h : lexLong cs acc = some (s, r)) : r.length < cs.length := by
  fun_induction lexLong cs acc with
  | case1 => cases h
  | case2 rest acc => simp only [Option.some.injEq, Prod.mk.injEq] at h; rw [← h.2]; simp only [List.length_cons]; omega
  | case3 c rest acc d hd ih => have := ih h; simp only [List.length_cons]; omega
  | case4 c rest acc hd => cases h
  | case5 c rest acc hc1 hc2 hbad => cases h
  | case6 c rest acc hc1 hc2 hok ih => have := ih h; simp only [List.length_cons]; omega

/-- one tokenizer step calls its continuation on strictly shorter input only -/
theorem lexBody_congr (k k' : List Char → Option (List Tok)) (cs : List Char)
    (hk : ∀ r, r.length < cs.length → k r = k' r) : lexBody k cs = lexBody k' cs := by
  unfold lexBody
  cases cs with
  | nil => rfl
  | cons c cs =>
    simp only
    by_cases h0 : (c == ' ' || c == '\n' || c == '\t' || c == '\r') = true
    · simp only [h0, if_true]; rw [hk cs (Nat.lt_succ_self _)]
    simp only [h0, Bool.false_eq_true, if_false]
    by_cases h1 : (c == '(') = true
    · simp only [h1, if_true]; rw [hk cs (Nat.lt_succ_self _)]
    simp only [h1, Bool.false_eq_true, if_false]
    by_cases h2 : (c == ')') = true
    · simp only [h2, if_true]; rw [hk cs (Nat.lt_succ_self _)]
    simp only [h2, Bool.false_eq_true, if_false]
    by_cases h3 : (c == ',') = true
    · simp only [h3, if_true]; rw [hk cs (Nat.lt_succ_self _)]
    simp only [h3, Bool.false_eq_true, if_false]
    by_cases h4 : (c == ';') = true
    · simp only [h4, if_true]; rw [hk cs (Nat.lt_succ_self _)]
    simp only [h4, Bool.false_eq_true, if_false]
    by_cases h5 : (c == '[') = true
    · simp only [h5, if_true]; rw [hk cs (Nat.lt_succ_self _)]
    simp only [h5, Bool.false_eq_true, if_false]
    by_cases h6 : (c == ']') = true
    · simp only [h6, if_true]; rw [hk cs (Nat.lt_succ_self _)]
    simp only [h6, Bool.false_eq_true, if_false]
    by_cases h7 : (c == '=') = true
    · simp only [h7, if_true]; rw [hk cs (Nat.lt_succ_self _)]
    simp only [h7, Bool.false_eq_true, if_false]
    by_cases hp : (c == '%') = true
    · simp only [hp, if_true]
      split
      · next rest => rw [hk rest (by simp only [List.length_cons]; omega)]
      · rfl
    simp only [hp, Bool.false_eq_true, if_false]
    by_cases hl : (c == '<') = true
    · simp only [hl, if_true]
      have hlen := takeWhileC_length (· != '>') cs
      split
      · next r heq => rw [hk r (by rw [heq] at hlen; simp only [List.length_cons] at hlen ⊢; omega)]
      · rfl
    simp only [hl, Bool.false_eq_true, if_false]
    by_cases hq : (c == '\'') = true
    · simp only [hq, if_true]
      have hlen := takeWhileC_length (· != '\'') cs
      split
      · next r heq => rw [hk r (by rw [heq] at hlen; simp only [List.length_cons] at hlen ⊢; omega)]
      · rfl
    simp only [hq, Bool.false_eq_true, if_false]
    by_cases ha : (c == '@') = true
    · simp only [ha, if_true]
      have hlen := takeWhileC_length (fun x => x.isAlphanum || x == '-') cs
      rw [hk _ (by simp only [List.length_cons]; omega)]
    simp only [ha, Bool.false_eq_true, if_false]
    by_cases hs : (c == '"') = true
    · simp only [hs, if_true]
      unfold lexString
      split
      · next rest =>
        split
        · next s r heq => rw [hk r (by have := lexLong_length rest [] s r heq; simp only [List.length_cons]; omega)]
        · rfl
      · split
        · next s r heq => rw [hk r (by have := lexShort_length cs [] s r heq; simp only [List.length_cons]; omega)]
        · rfl
    simp only [hs, Bool.false_eq_true, if_false]
    by_cases hw : isWordChar c = true
    · simp only [hw, if_true]
      have hlen := takeWhileC_length isWordChar cs
      have htw : (takeWhileC isWordChar (c :: cs)).2 = (takeWhileC isWordChar cs).2 := by simp [takeWhileC, hw]
      rw [hk _ (by rw [htw]; simp only [List.length_cons]; omega)]
    · simp only [hw, Bool.false_eq_true, if_false]

/-- **fuel beyond the length of the input is irrelevant** -/
theorem lex_enough : ∀ (n m : Nat) (cs : List Char), cs.length < n → cs.length < m → lex n cs = lex m cs
  | 0, _, _, h, _ => absurd h (Nat.not_lt_zero _)
  | _, 0, _, _, h => absurd h (Nat.not_lt_zero _)
  | n + 1, m + 1, cs, hn, hm => by
    show lexBody (lex n) cs = lexBody (lex m) cs
    exact lexBody_congr _ _ cs (fun r hr => lex_enough n m r (by omega) (by omega))

/-- a successful tokenisation with any fuel is the tokenisation `parseDocument` computes -/
theorem lex_at_length (n : Nat) (cs : List Char) (ts : List Tok) (h : lex n cs = some ts) : lex (cs.length + 1) cs = some ts := by
  by_cases e : n ≤ cs.length + 1
  · exact lex_mono n _ e cs ts h
  · rw [← lex_enough n (cs.length + 1) cs (by omega) (Nat.lt_succ_self _)]; exact h

end Prov.C06

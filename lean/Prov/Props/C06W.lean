/-
  C06, document and bundle framing: from the characters of `get_provn()` of a whole document to its content.
  `Props/C06V` reads one expression; here the lines are put together — `document`, the `default`/`prefix` declarations, the
  expressions, the `bundle … endBundle` blocks, `endDocument`, joined by line breaks and indentation — and the independent
  reader `parseDocument` (with the fuel it really uses) is shown to return, for the document and for every bundle, the
  declared identifier and exactly the expressions' contents in order.
-/
import Prov.Props.C06V
import Prov.Props.C06L
import Prov.ProvN

namespace Prov.C06
open Prov Prov.ProvNSpec Prov.JsonSpec

/-! ### lexing blocks of text that end at a line break -/

/-- what follows a block: the end of the text or a line break -/
def LineEnd (rest : List Char) : Prop := rest = [] ∨ rest.head? = some '\n'

theorem lineEnd_endsWord {rest : List Char} (h : LineEnd rest) : EndsWord rest := by
  rcases h with rfl | h
  · intro c hc; simp at hc
  · intro c hc; rw [h] at hc; simp at hc; subst hc; decide

/-- `text`, followed by a line end, is tokenised into `toks`, and the lexer goes on with what follows -/
def Blk (text : String) (toks : List Tok) : Prop :=
  ∃ steps, ∀ n rest, LineEnd rest → lex (n + steps) (text.toList ++ rest) = (lex n rest).map (toks ++ ·)

def IsWs (c : Char) : Prop := c = ' ' ∨ c = '\n' ∨ c = '\t' ∨ c = '\r'

theorem lex_ws1 (n : Nat) (c : Char) (hc : IsWs c) (cs : List Char) : lex (n + 1) (c :: cs) = lex n cs := by
  rcases hc with rfl | rfl | rfl | rfl <;> simp [lex_succ, lexBody]

theorem lex_ws : ∀ (ws : List Char), (∀ c ∈ ws, IsWs c) → ∀ (n : Nat) (cs : List Char), lex (n + ws.length) (ws ++ cs) = lex n cs
  | [], _, n, cs => rfl
  | w :: ws, h, n, cs => by
    simp only [List.length_cons, List.cons_append]
    rw [show n + (ws.length + 1) = (n + ws.length) + 1 from rfl, lex_ws1 _ w (h w List.mem_cons_self)]
    exact lex_ws ws (fun c hc => h c (List.mem_cons_of_mem _ hc)) n cs

theorem map_map_append {ts : Option (List Tok)} (a b : List Tok) : (ts.map (b ++ ·)).map (a ++ ·) = ts.map ((a ++ b) ++ ·) := by
  cases ts <;> simp

theorem blk_empty : Blk "" [] := ⟨0, fun n rest _ => by cases h : lex n rest <;> simp [h]⟩

theorem blk_append {t1 t2 : String} {k1 k2 : List Tok} (h1 : ∃ steps, ∀ n rest, lex (n + steps) (t1.toList ++ rest) = (lex n rest).map (k1 ++ ·))
    (h2 : Blk t2 k2) : Blk (t1 ++ t2) (k1 ++ k2) := by
  obtain ⟨s1, e1⟩ := h1
  obtain ⟨s2, e2⟩ := h2
  refine ⟨s2 + s1, fun n rest hr => ?_⟩
  rw [String.toList_append, List.append_assoc, ← Nat.add_assoc, e1, e2 n rest hr, map_map_append]

/-- a separator: a line break followed by blanks -/
structure IsSep (sep : String) : Prop where
  ws : ∀ c ∈ sep.toList, IsWs c
  nl : sep.toList.head? = some '\n'

theorem blk_join (sep : String) (hs : IsSep sep) : ∀ (ls : List (String × List Tok)), (∀ l ∈ ls, Blk l.1 l.2) →
    Blk (joinWith sep (ls.map (·.1))) (ls.flatMap (·.2))
  | [], _ => by simpa [joinWith] using blk_empty
  | [l], h => by simpa [joinWith] using h l List.mem_cons_self
  | l :: l2 :: ls, h => by
    obtain ⟨s1, e1⟩ := h l List.mem_cons_self
    obtain ⟨s2, e2⟩ := blk_join sep hs (l2 :: ls) (fun x hx => h x (List.mem_cons_of_mem _ hx))
    refine ⟨s2 + sep.toList.length + s1, fun n rest hr => ?_⟩
    have hj : joinWith sep ((l :: l2 :: ls).map (·.1)) = l.1 ++ sep ++ joinWith sep ((l2 :: ls).map (·.1)) := by
      simp [joinWith]
    rw [hj, String.toList_append, String.toList_append, List.append_assoc, List.append_assoc, ← Nat.add_assoc, ← Nat.add_assoc]
    rw [e1 _ _ (Or.inr (by
      cases hsl : sep.toList with
      | nil => have := hs.nl; rw [hsl] at this; cases this
      | cons c cs => have := hs.nl; rw [hsl] at this; simpa using this))]
    rw [lex_ws sep.toList hs.ws, e2 n rest hr, map_map_append]
    simp [List.flatMap_cons]

/-! ### the lines of a header -/

theorem blk_word (w : String) (hw : IsWord w.toList) : Blk w [.word w] :=
  ⟨1, fun n rest hr => by
    rw [lex_word n w.toList rest hw (lineEnd_endsWord hr)]
    cases lex n rest <;> simp⟩

theorem lex_iri (n : Nat) (u rest : List Char) (hu : '>' ∉ u) :
    lex (n + 1) ('<' :: (u ++ '>' :: rest)) = (lex n rest).map (Tok.iri (String.ofList u) :: ·) := by
  have htw : takeWhileC (· != '>') (u ++ '>' :: rest) = (u, '>' :: rest) :=
    takeWhile_upto _ u _ (fun c hc => by
      have : c ≠ '>' := fun e => hu (e ▸ hc)
      simpa using this) (by simp)
  simp [lex_succ, lexBody, htw]

theorem wDefault : IsWord ("default" : String).toList := isWord_lit _ (by decide) (by decide) (by decide)
theorem wPrefix : IsWord ("prefix" : String).toList := isWord_lit _ (by decide) (by decide) (by decide)
theorem wBundle : IsWord ("bundle" : String).toList := isWord_lit _ (by decide) (by decide) (by decide)
theorem wDocument : IsWord ("document" : String).toList := isWord_lit _ (by decide) (by decide) (by decide)
theorem wEndBundle : IsWord ("endBundle" : String).toList := isWord_lit _ (by decide) (by decide) (by decide)
theorem wEndDocument : IsWord ("endDocument" : String).toList := isWord_lit _ (by decide) (by decide) (by decide)

theorem endsWord_space (cs : List Char) : EndsWord (' ' :: cs) := by
  intro c hc; simp at hc; subst hc; decide

theorem blk_default (u : String) (hu : '>' ∉ u.toList) : Blk ("default <" ++ u ++ ">") [.word "default", .iri u] :=
  ⟨3, fun n rest _ => by
    have e : ("default <" ++ u ++ ">").toList ++ rest = ("default" : String).toList ++ (' ' :: '<' :: (u.toList ++ '>' :: rest)) := by
      simp [String.toList_append]
    rw [e, show n + 3 = (n + 2) + 1 from rfl, lex_word _ _ _ wDefault (endsWord_space _), lex_space, lex_iri n u.toList rest hu]
    cases lex n rest <;> simp⟩

theorem blk_prefix (p u : String) (hp : IsWord p.toList) (hu : '>' ∉ u.toList) :
    Blk ("prefix " ++ p ++ " <" ++ u ++ ">") [.word "prefix", .word p, .iri u] :=
  ⟨5, fun n rest _ => by
    have e : ("prefix " ++ p ++ " <" ++ u ++ ">").toList ++ rest =
        ("prefix" : String).toList ++ (' ' :: (p.toList ++ (' ' :: '<' :: (u.toList ++ '>' :: rest)))) := by
      simp [String.toList_append]
    rw [e, show n + 5 = (n + 4) + 1 from rfl, lex_word _ _ _ wPrefix (endsWord_space _), lex_space,
      lex_word _ p.toList _ hp (endsWord_space _), lex_space, lex_iri n u.toList rest hu]
    cases lex n rest <;> simp⟩

theorem blk_bundleLine (idp : String) (hp : IsWord idp.toList) : Blk ("bundle " ++ idp) [.word "bundle", .word idp] :=
  ⟨3, fun n rest hr => by
    have e : ("bundle " ++ idp).toList ++ rest = ("bundle" : String).toList ++ (' ' :: (idp.toList ++ rest)) := by
      simp [String.toList_append]
    rw [e, show n + 3 = (n + 2) + 1 from rfl, lex_word _ _ _ wBundle (endsWord_space _), lex_space,
      lex_word _ idp.toList _ hp (lineEnd_endsWord hr)]
    cases lex n rest <;> simp⟩

/-- namespace declarations as the printer lists them -/
def declLines (dflt : Option String) (pfx : List (String × String)) : List String :=
  (match dflt with | some u => ["default <" ++ u ++ ">"] | none => []) ++
    pfx.map (fun p => "prefix " ++ p.1 ++ " <" ++ p.2 ++ ">")

def declToks (dflt : Option String) (pfx : List (String × String)) : List Tok :=
  (match dflt with | some u => [Tok.word "default", .iri u] | none => []) ++
    pfx.flatMap (fun p => [Tok.word "prefix", .word p.1, .iri p.2])

/-- … and as the reader's table -/
def declsOf (dflt : Option String) (pfx : List (String × String)) : List (String × String) :=
  (match dflt with | some u => [("default", u)] | none => []) ++ pfx

structure DeclsOk (dflt : Option String) (pfx : List (String × String)) : Prop where
  dflt : ∀ u ∈ dflt, '>' ∉ u.toList
  pfx : ∀ p ∈ pfx, IsWord p.1.toList ∧ '>' ∉ p.2.toList

/-- the declaration lines, each with its tokens -/
def declBlocks (dflt : Option String) (pfx : List (String × String)) : List (String × List Tok) :=
  (match dflt with | some u => [("default <" ++ u ++ ">", [Tok.word "default", .iri u])] | none => []) ++
    pfx.map (fun p => ("prefix " ++ p.1 ++ " <" ++ p.2 ++ ">", [Tok.word "prefix", .word p.1, .iri p.2]))

theorem declBlocks_lines (dflt : Option String) (pfx : List (String × String)) :
    (declBlocks dflt pfx).map (·.1) = declLines dflt pfx := by
  cases dflt <;> simp [declBlocks, declLines, Function.comp_def]

theorem declBlocks_toks (dflt : Option String) (pfx : List (String × String)) :
    (declBlocks dflt pfx).flatMap (·.2) = declToks dflt pfx := by
  cases dflt <;> simp [declBlocks, declToks, List.flatMap_map]

theorem declBlocks_blk (dflt : Option String) (pfx : List (String × String)) (ok : DeclsOk dflt pfx) :
    ∀ l ∈ declBlocks dflt pfx, Blk l.1 l.2 := by
  intro l hl
  unfold declBlocks at hl
  rcases List.mem_append.mp hl with h | h
  · cases dflt with
    | none => cases h
    | some u =>
      simp only [List.mem_singleton] at h
      subst h
      exact blk_default u (ok.dflt u rfl)
  · obtain ⟨p, hp, rfl⟩ := List.mem_map.mp h
    exact blk_prefix p.1 p.2 (ok.pfx p hp).1 (ok.pfx p hp).2

/-! ### reading the declarations -/

/-- the next token does not start another declaration -/
def NotDecl (more : List Tok) : Prop := ∀ t ∈ more.head?, t ≠ Tok.word "default" ∧ t ≠ Tok.word "prefix"

theorem pNsDecls_stop (fuel : Nat) (more : List Tok) (hm : NotDecl more) : pNsDecls fuel more = ([], more) := by
  cases fuel with
  | zero => rfl
  | succ n =>
    unfold pNsDecls
    split
    · next u rest => exact absurd rfl (hm (Tok.word "default") (by simp)).1
    · next p u rest => exact absurd rfl (hm (Tok.word "prefix") (by simp)).2
    · rfl

theorem pNsDecls_pfx : ∀ (pfx : List (String × String)) (fuel : Nat), pfx.length ≤ fuel → ∀ (more : List Tok), NotDecl more →
    pNsDecls fuel (pfx.flatMap (fun p => [Tok.word "prefix", .word p.1, .iri p.2]) ++ more) = (pfx, more)
  | [], fuel, _, more, hm => by simpa using pNsDecls_stop fuel more hm
  | p :: rest, fuel, hf, more, hm => by
    cases fuel with
    | zero => simp at hf
    | succ n =>
      have ih := pNsDecls_pfx rest n (by simpa using hf) more hm
      simp only [List.flatMap_cons, List.cons_append, List.nil_append, List.append_assoc]
      unfold pNsDecls
      simp only [ih]

theorem pNsDecls_spec (dflt : Option String) (pfx : List (String × String)) (fuel : Nat) (hf : pfx.length + 1 ≤ fuel)
    (more : List Tok) (hm : NotDecl more) : pNsDecls fuel (declToks dflt pfx ++ more) = (declsOf dflt pfx, more) := by
  cases dflt with
  | none => simpa [declToks, declsOf] using pNsDecls_pfx pfx fuel (by omega) more hm
  | some u =>
    cases fuel with
    | zero => simp at hf
    | succ n =>
      have ih := pNsDecls_pfx pfx n (by omega) more hm
      simp only [declToks, declsOf, List.cons_append, List.nil_append, List.append_assoc]
      unfold pNsDecls
      simp only [ih]

/-! ### reading the expressions -/

/-- how one record is read in scope `sc`: its printed text is tokenised into `toks` (whatever follows), and `toks` parse, with
    fuel of at least their number, to the abstract record `a`; the first token is an expression keyword -/
structure RecReads (sc : Scope) (hints : List (String × FloatAtom)) (r : Record) (a : ARec) (toks : List Tok) : Prop where
  lexes : ∃ steps, ∀ n rest, lex (n + steps) ((provnRecord r).toList ++ rest) = (lex n rest).map (toks ++ ·)
  parses : ∀ fuel more, toks.length ≤ fuel → pExpr sc hints fuel (toks ++ more) = some (a, more)
  head : ∃ kw rest, toks = Tok.word kw :: rest ∧ kw ≠ "bundle" ∧ kw ≠ "endBundle" ∧ kw ≠ "endDocument" ∧
    kw ≠ "default" ∧ kw ≠ "prefix"

/-- what ends a list of expressions -/
def Stop (more : List Tok) : Prop :=
  ∃ kw rest, more = Tok.word kw :: rest ∧ (kw = "bundle" ∨ kw = "endBundle" ∨ kw = "endDocument")

theorem stop_notDecl {more : List Tok} (h : Stop more) : NotDecl more := by
  obtain ⟨kw, rest, rfl, hk⟩ := h
  intro t ht
  simp only [List.head?_cons, Option.mem_def, Option.some.injEq] at ht
  subst ht
  rcases hk with rfl | rfl | rfl <;> exact ⟨by decide, by decide⟩

theorem recReads_notDecl {sc : Scope} {hints : List (String × FloatAtom)} {r : Record} {a : ARec} {toks : List Tok}
    (h : RecReads sc hints r a toks) (more : List Tok) : NotDecl (toks ++ more) := by
  obtain ⟨kw, rest, rfl, _, _, _, h4, h5⟩ := h.head
  intro t ht
  simp only [List.cons_append, List.head?_cons, Option.mem_def, Option.some.injEq] at ht
  subst ht
  exact ⟨fun e => h4 (by injection e), fun e => h5 (by injection e)⟩

theorem pExprs_stop (sc : Scope) (hints : List (String × FloatAtom)) (fuel : Nat) (more : List Tok) (h : Stop more) :
    pExprs sc hints fuel more = ([], more) := by
  cases fuel with
  | zero => rfl
  | succ n =>
    obtain ⟨kw, rest, rfl, hk⟩ := h
    rcases hk with rfl | rfl | rfl <;> simp [pExprs]

theorem pExprs_spec (sc : Scope) (hints : List (String × FloatAtom)) :
    ∀ (rs : List (Record × ARec × List Tok)), (∀ x ∈ rs, RecReads sc hints x.1 x.2.1 x.2.2) →
    ∀ (fuel : Nat) (more : List Tok), (rs.flatMap (·.2.2)).length < fuel → Stop more →
      pExprs sc hints fuel (rs.flatMap (·.2.2) ++ more) = (rs.map (·.2.1), more)
  | [], _, fuel, more, _, hs => by simpa using pExprs_stop sc hints fuel more hs
  | x :: rest, h, fuel, more, hf, hs => by
    have hx := h x List.mem_cons_self
    obtain ⟨kw, t, hk, n1, n2, n3, _, _⟩ := hx.head
    cases fuel with
    | zero => simp at hf
    | succ n =>
      simp only [List.flatMap_cons, List.length_append] at hf
      have hlen : 1 ≤ x.2.2.length := by rw [hk]; simp
      have hp := hx.parses n (rest.flatMap (·.2.2) ++ more) (by omega)
      have ih := pExprs_spec sc hints rest (fun y hy => h y (List.mem_cons_of_mem _ hy)) n more (by omega) hs
      simp only [List.flatMap_cons, List.append_assoc, List.map_cons]
      rw [hk] at hp ⊢
      simp only [List.cons_append] at hp ⊢
      unfold pExprs
      split
      · next heq => simp only [List.cons.injEq, Tok.word.injEq] at heq; exact absurd heq.1 n1
      · next heq => simp only [List.cons.injEq, Tok.word.injEq] at heq; exact absurd heq.1 n2
      · next heq => simp only [List.cons.injEq, Tok.word.injEq] at heq; exact absurd heq.1 n3
      · rw [hp]
        simp only [ih]

/-! ### bundles -/

/-- a bundle as the printer sees it: printed identifier, declarations, records (each with its reading) -/
structure BundleSrc where
  idp : String
  dflt : Option String
  pfx : List (String × String)
  recs : List (Record × ARec × List Tok)

def blankIf (dflt : Option String) (pfx : List (String × String)) : List String :=
  if dflt.isNone && pfx.isEmpty then [] else [""]

def bundleLines (b : BundleSrc) : List String :=
  ["bundle " ++ b.idp] ++ declLines b.dflt b.pfx ++ blankIf b.dflt b.pfx ++ b.recs.map (fun x => provnRecord x.1)

/-- `ProvBundle.get_provn(1)` -/
def bundleText (b : BundleSrc) : String := joinWith "\n    " (bundleLines b) ++ "\n  endBundle"

def bundleToks (b : BundleSrc) : List Tok :=
  [Tok.word "bundle", .word b.idp] ++ (declToks b.dflt b.pfx ++ (b.recs.flatMap (·.2.2) ++ [Tok.word "endBundle"]))

theorem isSep4 : IsSep "\n    " := ⟨by intro c hc; simp at hc; rcases hc with rfl | rfl <;> simp [IsWs], rfl⟩
theorem isSep2 : IsSep "\n  " := ⟨by intro c hc; simp at hc; rcases hc with rfl | rfl <;> simp [IsWs], rfl⟩
theorem isSep0 : IsSep "\n" := ⟨by intro c hc; simp at hc; subst hc; simp [IsWs], rfl⟩

def blankBlocks (dflt : Option String) (pfx : List (String × String)) : List (String × List Tok) :=
  if dflt.isNone && pfx.isEmpty then [] else [("", [])]

theorem blk_of_lexes {text : String} {toks : List Tok}
    (h : ∃ steps, ∀ n rest, lex (n + steps) (text.toList ++ rest) = (lex n rest).map (toks ++ ·)) : Blk text toks := by
  obtain ⟨s, e⟩ := h
  exact ⟨s, fun n rest _ => e n rest⟩

/-- the bundle's text is tokenised into the bundle's tokens -/
theorem bundle_blk (sc : Scope) (hints : List (String × FloatAtom)) (b : BundleSrc) (hid : IsWord b.idp.toList)
    (hd : DeclsOk b.dflt b.pfx) (hr : ∀ x ∈ b.recs, RecReads sc hints x.1 x.2.1 x.2.2) : Blk (bundleText b) (bundleToks b) := by
  let blocks : List (String × List Tok) :=
    [("bundle " ++ b.idp, [Tok.word "bundle", .word b.idp])] ++ declBlocks b.dflt b.pfx ++ blankBlocks b.dflt b.pfx ++
      b.recs.map (fun x => (provnRecord x.1, x.2.2))
  have hb : ∀ l ∈ blocks, Blk l.1 l.2 := by
    intro l hl
    simp only [blocks, List.mem_append, List.mem_singleton, List.mem_map] at hl
    rcases hl with ((rfl | h) | h) | ⟨x, hx, rfl⟩
    · exact blk_bundleLine b.idp hid
    · exact declBlocks_blk b.dflt b.pfx hd l h
    · unfold blankBlocks at h
      split at h
      · cases h
      · simp only [List.mem_singleton] at h; subst h; exact blk_empty
    · exact blk_of_lexes (hr x hx).lexes
  have hlines : blocks.map (·.1) = bundleLines b := by
    simp only [blocks, bundleLines, List.map_append, List.map_cons, List.map_nil, declBlocks_lines, List.map_map]
    congr 1
    congr 1
    unfold blankBlocks blankIf
    split <;> rfl
  have htoks : blocks.flatMap (·.2) = [Tok.word "bundle", .word b.idp] ++ (declToks b.dflt b.pfx ++ b.recs.flatMap (·.2.2)) := by
    simp only [blocks, List.flatMap_append, List.flatMap_cons, List.flatMap_nil, declBlocks_toks, List.flatMap_map, List.append_nil]
    have : (blankBlocks b.dflt b.pfx).flatMap (·.2) = [] := by unfold blankBlocks; split <;> rfl
    rw [this]
    simp
  have h1 := blk_join "\n    " isSep4 blocks hb
  rw [hlines, htoks] at h1
  have h2 := blk_join "\n  " isSep2 [(joinWith "\n    " (bundleLines b), _), ("endBundle", [Tok.word "endBundle"])]
    (by
      intro l hl
      simp only [List.mem_cons, List.mem_nil_iff, or_false] at hl
      rcases hl with rfl | rfl
      · exact h1
      · exact blk_word "endBundle" wEndBundle)
  have e : joinWith "\n    " (bundleLines b) ++ "\n  " ++ "endBundle" = bundleText b := by
    unfold bundleText; rw [String.append_assoc]; rfl
  simp only [joinWith, List.map_cons, List.map_nil, List.flatMap_cons, List.flatMap_nil, List.append_nil, e] at h2
  simpa [bundleToks, List.append_assoc] using h2

/-- a bundle is readable below the document's declarations `docDecls`: identifier and names resolve in the bundle's scope -/
structure BundleReads (docDecls : List (String × String)) (hints : List (String × FloatAtom)) (b : BundleSrc) (bu : String) : Prop where
  idWord : IsWord b.idp.toList
  decls : DeclsOk b.dflt b.pfx
  idRes : (⟨declsOf b.dflt b.pfx, docDecls⟩ : Scope).resolve b.idp = some bu
  recs : ∀ x ∈ b.recs, RecReads ⟨declsOf b.dflt b.pfx, docDecls⟩ hints x.1 x.2.1 x.2.2

theorem declToks_length (dflt : Option String) (pfx : List (String × String)) : pfx.length ≤ (declToks dflt pfx).length := by
  unfold declToks
  have : (pfx.flatMap (fun p => [Tok.word "prefix", .word p.1, .iri p.2])).length = 3 * pfx.length := by
    induction pfx with
    | nil => rfl
    | cons p rest ih => simp only [List.flatMap_cons, List.length_append, ih, List.length_cons, List.length_nil]; omega
  rw [List.length_append, this]
  omega

theorem pBundles_spec (docDecls : List (String × String)) (hints : List (String × FloatAtom)) :
    ∀ (bs : List (BundleSrc × String)), (∀ b ∈ bs, BundleReads docDecls hints b.1 b.2) →
    ∀ (fuel : Nat), (bs.flatMap (fun b => bundleToks b.1)).length < fuel →
      pBundles docDecls hints fuel (bs.flatMap (fun b => bundleToks b.1) ++ [Tok.word "endDocument"]) =
        some (bs.map (fun b => (b.2, b.1.recs.map (·.2.1))), [Tok.word "endDocument"])
  | [], _, fuel, hf => by
    cases fuel with
    | zero => simp at hf
    | succ n => simp [pBundles]
  | b :: rest, h, fuel, hf => by
    have hb := h b List.mem_cons_self
    cases fuel with
    | zero => simp at hf
    | succ n =>
      simp only [List.flatMap_cons, List.length_append] at hf
      have hlen : (bundleToks b.1).length =
          2 + ((declToks b.1.dflt b.1.pfx).length + ((b.1.recs.flatMap (·.2.2)).length + 1)) := by
        simp [bundleToks]; omega
      have hdl := declToks_length b.1.dflt b.1.pfx
      have ih := pBundles_spec docDecls hints rest (fun y hy => h y (List.mem_cons_of_mem _ hy)) n (by omega)
      have hstop : Stop (Tok.word "endBundle" :: (rest.flatMap (fun b => bundleToks b.1) ++ [Tok.word "endDocument"])) :=
        ⟨"endBundle", _, rfl, Or.inr (Or.inl rfl)⟩
      have hnd : NotDecl (b.1.recs.flatMap (·.2.2) ++ Tok.word "endBundle" :: (rest.flatMap (fun b => bundleToks b.1) ++ [Tok.word "endDocument"])) := by
        cases hrs : b.1.recs with
        | nil => simpa using stop_notDecl hstop
        | cons x xs =>
          have hx := hb.recs x (by rw [hrs]; exact List.mem_cons_self)
          simp only [List.flatMap_cons, List.append_assoc]
          exact recReads_notDecl hx _
      have e1 := pNsDecls_spec b.1.dflt b.1.pfx n (by omega) _ hnd
      have e2 := pExprs_spec ⟨declsOf b.1.dflt b.1.pfx, docDecls⟩ hints b.1.recs hb.recs n _ (by omega) hstop
      have hbt : bundleToks b.1 = Tok.word "bundle" :: Tok.word b.1.idp ::
          (declToks b.1.dflt b.1.pfx ++ (b.1.recs.flatMap (·.2.2) ++ [Tok.word "endBundle"])) := rfl
      rw [List.flatMap_cons, hbt]
      simp only [List.cons_append, List.nil_append, List.append_assoc, List.map_cons]
      unfold pBundles
      simp only [e1, e2, hb.idRes, ih, Option.map_some]

/-! ### the document -/

structure DocSrc where
  dflt : Option String
  pfx : List (String × String)
  recs : List (Record × ARec × List Tok)
  bundles : List (BundleSrc × String)

def docLines (d : DocSrc) : List String :=
  ["document"] ++ declLines d.dflt d.pfx ++ blankIf d.dflt d.pfx ++ d.recs.map (fun x => provnRecord x.1) ++
    d.bundles.map (fun b => bundleText b.1)

/-- `ProvDocument.get_provn()` -/
def docText (d : DocSrc) : String := joinWith "\n  " (docLines d) ++ "\nendDocument"

def docToks (d : DocSrc) : List Tok :=
  Tok.word "document" :: (declToks d.dflt d.pfx ++ (d.recs.flatMap (·.2.2) ++
    (d.bundles.flatMap (fun b => bundleToks b.1) ++ [Tok.word "endDocument"])))

structure DocReads (hints : List (String × FloatAtom)) (d : DocSrc) : Prop where
  decls : DeclsOk d.dflt d.pfx
  recs : ∀ x ∈ d.recs, RecReads ⟨declsOf d.dflt d.pfx, []⟩ hints x.1 x.2.1 x.2.2
  bundles : ∀ b ∈ d.bundles, BundleReads (declsOf d.dflt d.pfx) hints b.1 b.2

/-- the whole text is tokenised into the document's tokens -/
theorem doc_lex (hints : List (String × FloatAtom)) (d : DocSrc) (hd : DocReads hints d) :
    ∃ n, lex n (docText d).toList = some (docToks d) := by
  let blocks : List (String × List Tok) :=
    [("document", [Tok.word "document"])] ++ declBlocks d.dflt d.pfx ++ blankBlocks d.dflt d.pfx ++
      d.recs.map (fun x => (provnRecord x.1, x.2.2)) ++ d.bundles.map (fun b => (bundleText b.1, bundleToks b.1))
  have hb : ∀ l ∈ blocks, Blk l.1 l.2 := by
    intro l hl
    simp only [blocks, List.mem_append, List.mem_singleton, List.mem_map] at hl
    rcases hl with (((rfl | h) | h) | ⟨x, hx, rfl⟩) | ⟨b, hbm, rfl⟩
    · exact blk_word "document" wDocument
    · exact declBlocks_blk d.dflt d.pfx hd.decls l h
    · unfold blankBlocks at h
      split at h
      · cases h
      · simp only [List.mem_singleton] at h; subst h; exact blk_empty
    · exact blk_of_lexes (hd.recs x hx).lexes
    · have := hd.bundles b hbm
      exact bundle_blk _ hints b.1 this.idWord this.decls this.recs
  have hlines : blocks.map (·.1) = docLines d := by
    simp only [blocks, docLines, List.map_append, List.map_cons, List.map_nil, declBlocks_lines, List.map_map]
    congr 1
    congr 1
    congr 1
    unfold blankBlocks blankIf
    split <;> rfl
  have htoks : blocks.flatMap (·.2) = Tok.word "document" :: (declToks d.dflt d.pfx ++ (d.recs.flatMap (·.2.2) ++
      d.bundles.flatMap (fun b => bundleToks b.1))) := by
    simp only [blocks, List.flatMap_append, List.flatMap_cons, List.flatMap_nil, declBlocks_toks, List.flatMap_map, List.append_nil]
    have : (blankBlocks d.dflt d.pfx).flatMap (·.2) = [] := by unfold blankBlocks; split <;> rfl
    rw [this]
    simp
  have h1 := blk_join "\n  " isSep2 blocks hb
  rw [hlines, htoks] at h1
  have h2 := blk_join "\n" isSep0 [(joinWith "\n  " (docLines d), _), ("endDocument", [Tok.word "endDocument"])]
    (by
      intro l hl
      simp only [List.mem_cons, List.mem_nil_iff, or_false] at hl
      rcases hl with rfl | rfl
      · exact h1
      · exact blk_word "endDocument" wEndDocument)
  have e : joinWith "\n  " (docLines d) ++ "\n" ++ "endDocument" = docText d := by
    unfold docText; rw [String.append_assoc]; rfl
  simp only [joinWith, List.map_cons, List.map_nil, List.flatMap_cons, List.flatMap_nil, List.append_nil, e] at h2
  obtain ⟨steps, hs⟩ := h2
  refine ⟨0 + steps, ?_⟩
  have := hs 0 [] (Or.inl rfl)
  simp only [List.append_nil] at this
  rw [this]
  simp [lex, docToks, List.append_assoc]

/-- **C06, the whole document**: for a document whose declarations are printable, whose records read in the scope the
    printed declarations make (`RecReads`: from characters to content, `Props/C06V`) and whose bundles read below it, the
    PROV-N text of the document, given to the independent reader exactly as the check runs it, yields the document's
    records and, per bundle, the bundle's identifier URI and records — nothing else, in order -/
theorem c06_document (hints : List (String × FloatAtom)) (d : DocSrc) (hd : DocReads hints d) :
    parseDocument hints (docText d) =
      some (("", d.recs.map (·.2.1)) :: d.bundles.map (fun b => (b.2, b.1.recs.map (·.2.1)))) := by
  obtain ⟨n, hlex⟩ := doc_lex hints d hd
  have hl := lex_at_length n _ _ hlex
  unfold parseDocument
  simp only [hl]
  have hdl := declToks_length d.dflt d.pfx
  have hlen : (docToks d).length = 1 + ((declToks d.dflt d.pfx).length + ((d.recs.flatMap (·.2.2)).length +
      ((d.bundles.flatMap (fun b => bundleToks b.1)).length + 1))) := by
    simp [docToks]; omega
  have hstop : Stop (d.bundles.flatMap (fun b => bundleToks b.1) ++ [Tok.word "endDocument"]) := by
    cases hbs : d.bundles with
    | nil => exact ⟨"endDocument", [], by simp, Or.inr (Or.inr rfl)⟩
    | cons b rest =>
      exact ⟨"bundle", Tok.word b.1.idp :: (declToks b.1.dflt b.1.pfx ++ (b.1.recs.flatMap (·.2.2) ++ [Tok.word "endBundle"])) ++
        (rest.flatMap (fun b => bundleToks b.1) ++ [Tok.word "endDocument"]),
        by simp only [List.flatMap_cons, bundleToks, List.cons_append, List.nil_append, List.append_assoc], Or.inl rfl⟩
  have hnd : NotDecl (d.recs.flatMap (·.2.2) ++ (d.bundles.flatMap (fun b => bundleToks b.1) ++ [Tok.word "endDocument"])) := by
    cases hrs : d.recs with
    | nil => simpa using stop_notDecl hstop
    | cons x xs =>
      have hx := hd.recs x (by rw [hrs]; exact List.mem_cons_self)
      simp only [List.flatMap_cons, List.append_assoc]
      exact recReads_notDecl hx _
  have e1 := pNsDecls_spec d.dflt d.pfx ((docToks d).length + 1) (by omega) _ hnd
  have e2 := pExprs_spec ⟨declsOf d.dflt d.pfx, []⟩ hints d.recs hd.recs ((docToks d).length + 1) _ (by omega) hstop
  have e3 := pBundles_spec (declsOf d.dflt d.pfx) hints d.bundles hd.bundles ((docToks d).length + 1) (by omega)
  have hdt : docToks d = Tok.word "document" :: (declToks d.dflt d.pfx ++ (d.recs.flatMap (·.2.2) ++
    (d.bundles.flatMap (fun b => bundleToks b.1) ++ [Tok.word "endDocument"]))) := rfl
  generalize hF : (docToks d).length + 1 = fuel at e1 e2 e3
  rw [hdt]
  simp only [e1, e2, e3]

/-! ### the three kinds of expression are readable records (`Props/C06V`, with any sufficient fuel) -/

theorem itemsToks_length : ∀ (l : List (QName × Value)), l.length + 1 ≤ (itemsToks l).length
  | [] => by simp [itemsToks]
  | [p] => by simp [itemsToks]
  | p :: q :: l => by
    have := itemsToks_length (q :: l)
    simp only [itemsToks, List.length_cons, List.length_append] at this ⊢
    omega

theorem tailToks_length (pairs : List (QName × Value)) : pairs.length + 1 ≤ (tailToks pairs).length := by
  have := itemsToks_length pairs
  by_cases he : pairs.isEmpty = true
  · have hn : pairs = [] := by simpa using he
    simp [tailToks, hn]
  · simp only [tailToks, he, Bool.false_eq_true, if_false, List.length_cons, List.length_append, List.length_nil]
    omega

theorem elemToks_length (kw : String) (q : QName) (pairs : List (QName × Value)) : pairs.length < (elemToks kw q pairs).length := by
  have := itemsToks_length pairs
  by_cases he : pairs.isEmpty = true
  · have hn : pairs = [] := by simpa using he
    simp [elemToks, hn]
  · simp only [elemToks, he, Bool.false_eq_true, if_false, List.length_cons, List.length_append, List.length_nil]
    omega

theorem relToks_length (kw : String) (id : Option QName) (ws : List String) (pairs : List (QName × Value)) :
    pairs.length < (relToks kw id ws pairs).length := by
  have := tailToks_length pairs
  simp only [relToks, List.length_cons, List.length_append]
  omega

theorem recReads_element (sc : Scope) (std : StdScopeN sc) (hints : List (String × FloatAtom)) (r : Record) (isEntity : Bool)
    (hk : r.kind = if isEntity then .entity else .agent) (q : QName) (hid : r.id = some q)
    (hqw : IsWord q.print.toList) (hqr : sc.resolve q.print = some q.uri)
    (hp : ∀ p ∈ r.flat, IsWord p.1.print.toList ∧ Printable p.2 ∧ sc.resolve p.1.print = some p.1.uri ∧ ParseReadable sc hints p.2) :
    RecReads sc hints r ⟨if isEntity then "Entity" else "Agent", some q.uri, r.flat.map (fun p => (p.1.uri, C10.absValue p.2))⟩
      (elemToks (if isEntity then "entity" else "agent") q r.flat) := by
  refine ⟨⟨elemSteps r.flat, fun n rest => (c06_element sc std hints r isEntity hk q hid hqw hqr hp n rest []).1⟩, ?_, ?_⟩
  · intro fuel more hf
    have hlen := elemToks_length (if isEntity then "entity" else "agent") q r.flat
    exact c06_elem_parse sc std hints isEntity q hqr r.flat fuel (by omega)
      (fun p hp' => ⟨(hp p hp').2.2.1, (hp p hp').2.2.2⟩) more
  · refine ⟨if isEntity then "entity" else "agent", _, rfl, ?_⟩
    cases isEntity <;> decide

theorem recReads_activity (sc : Scope) (std : StdScopeN sc) (hints : List (String × FloatAtom)) (r : Record)
    (hk : r.kind = .activity) (q : QName) (hid : r.id = some q)
    (hqw : IsWord q.print.toList) (hqr : sc.resolve q.print = some q.uri)
    (hst : TimeOk (r.get (formalQ "startTime")).head? ∧ IsWord (timeWord (r.get (formalQ "startTime")).head?).toList)
    (hen : TimeOk (r.get (formalQ "endTime")).head? ∧ IsWord (timeWord (r.get (formalQ "endTime")).head?).toList)
    (hp : ∀ p ∈ recPairs r, IsWord p.1.print.toList ∧ Printable p.2 ∧ sc.resolve p.1.print = some p.1.uri ∧ ParseReadable sc hints p.2) :
    RecReads sc hints r ⟨"Activity", some q.uri, timeAbs "startTime" (r.get (formalQ "startTime")).head? ++
        timeAbs "endTime" (r.get (formalQ "endTime")).head? ++ (recPairs r).map (fun p => (p.1.uri, C10.absValue p.2))⟩
      (actToks q (timeWord (r.get (formalQ "startTime")).head?) (timeWord (r.get (formalQ "endTime")).head?) (recPairs r)) := by
  refine ⟨⟨2 + wordsSteps [q.print, timeWord (r.get (formalQ "startTime")).head?, timeWord (r.get (formalQ "endTime")).head?] +
      tailSteps (recPairs r), fun n rest => ?_⟩, ?_, ⟨"activity", _, rfl, by decide, by decide, by decide, by decide, by decide⟩⟩
  · rw [provnRecord_act r hk q hid]
    exact c06_act_lex q hqw _ _ hst.2 hen.2 (recPairs r) (fun p hp' => ⟨(hp p hp').1, (hp p hp').2.1⟩) n rest
  · intro fuel more hf
    have hlen : (recPairs r).length < (actToks q (timeWord (r.get (formalQ "startTime")).head?)
        (timeWord (r.get (formalQ "endTime")).head?) (recPairs r)).length := by
      have := tailToks_length (recPairs r)
      simp only [actToks, List.length_cons, List.length_append]
      omega
    exact c06_act_parse sc std hints q hqr _ _ hst.1 hen.1 (recPairs r) fuel (by omega)
      (fun p hp' => ⟨(hp p hp').2.2.1, (hp p hp').2.2.2⟩) more

theorem recReads_relation (sc : Scope) (std : StdScopeN sc) (hints : List (String × FloatAtom)) (r : Record) (pr : Prod)
    (hk : r.kind.isElement = false)
    (hprod : prods.find? (fun p => p.1 == r.kind.provN) = some (r.kind.provN, pr))
    (hnot : (r.kind.provN == "entity" || r.kind.provN == "agent") = false ∧ (r.kind.provN == "activity") = false)
    (hkw : IsWord r.kind.provN.toList)
    (hkw2 : r.kind.provN ≠ "bundle" ∧ r.kind.provN ≠ "endBundle" ∧ r.kind.provN ≠ "endDocument" ∧
      r.kind.provN ≠ "default" ∧ r.kind.provN ≠ "prefix")
    (hf : pr.args.map (·.1) = r.kind.formals) (hne : pr.args ≠ [])
    (hid : ∀ q ∈ r.id, IsWord q.print.toList ∧ sc.resolve q.print = some q.uri ∧ q.print ≠ "-" ∧ pr.hasIdAttrs = true)
    (hslots : ∀ x ∈ recSlots pr r, SlotOk sc x ∧ IsWord (slotWord x).toList)
    (hpa : recPairs r = [] ∨ pr.hasIdAttrs = true)
    (hp : ∀ p ∈ recPairs r, IsWord p.1.print.toList ∧ Printable p.2 ∧ sc.resolve p.1.print = some p.1.uri ∧ ParseReadable sc hints p.2) :
    RecReads sc hints r ⟨pr.kind, r.id.map QName.uri,
        (recSlots pr r).flatMap slotAbs ++ (recPairs r).map (fun p => (p.1.uri, C10.absValue p.2))⟩
      (relToks r.kind.provN r.id (provnFormals r) (recPairs r)) := by
  refine ⟨⟨relSteps r.id (provnFormals r) (recPairs r), fun n rest =>
    (c06_relation sc std hints r pr hk hprod hnot hkw hf hne hid hslots hpa hp n rest []).1⟩, ?_,
    ⟨r.kind.provN, _, rfl, hkw2.1, hkw2.2.1, hkw2.2.2.1, hkw2.2.2.2.1, hkw2.2.2.2.2⟩⟩
  intro fuel more hfu
  have hwords := recSlots_words pr r hf
  cases hsl : recSlots pr r with
  | nil =>
    have := congrArg List.length (recSlots_args pr r)
    rw [hsl] at this
    simp at this
    exact absurd (List.length_eq_zero_iff.mp this.symm) hne
  | cons s slots =>
    have hargs : (s :: slots).map (·.1) = pr.args := by rw [← hsl]; exact recSlots_args pr r
    have hw' : (s :: slots).map slotWord = provnFormals r := by rw [← hsl]; exact hwords
    rw [← hw']
    exact c06_rel_parse sc std hints r.kind.provN pr hprod hnot r.id
      (fun q hq => ⟨(hid q hq).2.1, (hid q hq).2.2.1, (hid q hq).2.2.2⟩) s slots hargs
      (fun x hx => (hslots x (by rw [hsl]; exact hx)).1) (recPairs r) hpa fuel
      (by have := relToks_length r.kind.provN r.id ((s :: slots).map slotWord) (recPairs r); rw [← hw'] at hfu; omega)
      (fun p hp' => ⟨(hp p hp').2.2.1, (hp p hp').2.2.2⟩) more

/-! ### the printer of the heap model is `docText` -/

open Prov.Heap in
def mgrDflt (h : Heap) (c : Nat) : Option String := (h.mgrOf c).dflt.map (·.uri)

open Prov.Heap in
def mgrPfx (h : Heap) (c : Nat) : List (String × String) := (h.mgrOf c).reg.values.map (fun n => (n.pfx, n.uri))

/-- container `c` as a bundle source, with `reading r` = what record `r` is read as and from which tokens -/
def bundleSrc (h : Heap) (reading : Record → ARec × List Tok) (c : Nat) : BundleSrc :=
  ⟨match (h.cont c).id with | some q => q.print | none => "None", mgrDflt h c, mgrPfx h c,
   (h.recsOf c).map (fun r => (r, reading r))⟩

def docSrc (h : Heap) (reading : Record → ARec × List Tok) (bu : Nat → String) (d : Nat) : DocSrc :=
  ⟨mgrDflt h d, mgrPfx h d, (h.recsOf d).map (fun r => (r, reading r)),
   (h.cont d).bundles.map (fun p => (bundleSrc h reading p.2, bu p.2))⟩

theorem header_eq (h : Heap) (c : Nat) (first : String)
    (hf : first = if (h.cont c).isDoc then "document" else "bundle " ++ (match (h.cont c).id with | some q => q.print | none => "None")) :
    h.provnHeader c = [first] ++ declLines (mgrDflt h c) (mgrPfx h c) ++ blankIf (mgrDflt h c) (mgrPfx h c) := by
  subst hf
  unfold Heap.provnHeader declLines blankIf mgrDflt mgrPfx
  simp only []
  generalize (h.mgrOf c).dflt = df
  generalize (h.mgrOf c).reg.values = vs
  cases df <;> cases vs <;> simp [Function.comp_def] <;> rfl

theorem provnBundle_eq (h : Heap) (reading : Record → ARec × List Tok) (c : Nat) (hb : (h.cont c).isDoc = false) :
    h.provnBundle c 1 = bundleText (bundleSrc h reading c) := by
  unfold Heap.provnBundle bundleText bundleLines
  rw [header_eq h c _ rfl]
  simp only [hb, Bool.false_eq_true, if_false, bundleSrc, List.map_map, Function.comp_def, List.append_assoc]
  have e1 : ("\n" ++ indentStr (1 + 1) : String) = "\n    " := by decide
  have e2 : ("\n" ++ (indentStr 1 ++ "endBundle") : String) = "\n  endBundle" := by decide
  rw [e1, String.append_assoc, String.append_assoc, e2]

theorem provnDocument_eq (h : Heap) (reading : Record → ARec × List Tok) (bu : Nat → String) (d : Nat)
    (hd : (h.cont d).isDoc = true) (hb : ∀ p ∈ (h.cont d).bundles, (h.cont p.2).isDoc = false) :
    h.provnDocument d = docText (docSrc h reading bu d) := by
  unfold Heap.provnDocument docText docLines
  rw [header_eq h d _ rfl]
  simp only [hd, if_true, docSrc, List.map_map, Function.comp_def, List.append_assoc]
  have e : (h.cont d).bundles.map (fun p => h.provnBundle p.2 1) =
      (h.cont d).bundles.map (fun x => bundleText (bundleSrc h reading x.2)) :=
    List.map_congr_left (fun p hp => provnBundle_eq h reading p.2 (hb p hp))
  rw [e]

/-- **C06 on the heap model**: the text `ProvDocument.get_provn()` produces (model `provnDocument`, compared character by
    character with the real printer in the correspondence), read by `parseDocument`, gives back the document: its records
    as they are read, then each bundle under the URI of its identifier with its records, in order -/
theorem c06_provnDocument (h : Heap) (hints : List (String × FloatAtom)) (reading : Record → ARec × List Tok) (bu : Nat → String)
    (d : Nat) (hd : (h.cont d).isDoc = true) (hb : ∀ p ∈ (h.cont d).bundles, (h.cont p.2).isDoc = false)
    (hr : DocReads hints (docSrc h reading bu d)) :
    parseDocument hints (h.provnDocument d) =
      some (("", (h.recsOf d).map (fun r => (reading r).1)) ::
        (h.cont d).bundles.map (fun p => (bu p.2, (h.recsOf p.2).map (fun r => (reading r).1)))) := by
  rw [provnDocument_eq h reading bu d hd hb, c06_document hints _ hr]
  simp [docSrc, bundleSrc, List.map_map, Function.comp_def]

/-! ### non-vacuity: a document with a declaration, an entity, and a bundle holding the same entity -/

def exPfx : List (String × String) := [("ex", "http://example.org/")]

def entReading : ARec × List Tok :=
  (⟨"Entity", some (C09.exQ "e").uri, rEnt.flat.map (fun p => (p.1.uri, C10.absValue p.2))⟩, elemToks "entity" (C09.exQ "e") rEnt.flat)

def docEx : DocSrc :=
  ⟨none, exPfx, [(rEnt, entReading)], [(⟨"ex:b", none, [], [(rEnt, entReading)]⟩, "http://example.org/b")]⟩

theorem rEnt_reads (sc : Scope) (hsc : sc = C10.scEx ∨ sc = ⟨[], exPfx⟩) : RecReads sc [] rEnt entReading.1 entReading.2 := by
  have hstd : StdScopeN sc := by rcases hsc with rfl | rfl <;> exact ⟨by decide, by decide, by decide, by decide⟩
  have hq : sc.resolve (C09.exQ "e").print = some (C09.exQ "e").uri := by rcases hsc with rfl | rfl <;> decide +kernel
  refine recReads_element sc hstd [] rEnt true rfl (C09.exQ "e") rfl (isWord_lit _ (by decide) (by decide) (by decide)) hq ?_
  intro p hp
  obtain ⟨h1, h2, h3, h4⟩ := rEnt_ok p hp
  rcases hsc with rfl | rfl
  · exact ⟨h1, h2, h3, h4⟩
  · have hp' : p ∈ [(C09.exQ "k", Value.int 1), (C09.exQ "k", .str "a \"q\"\nline"),
        (provQ "label", .lit "étiquette" (some (provQ "InternationalizedString")) (some "fr")),
        (C09.exQ "t", .lit "abc" (some (C09.exQ "T")) none)] := by simpa [rEnt, Record.flat] using hp
    simp only [List.mem_cons, List.mem_nil_iff, or_false] at hp'
    refine ⟨h1, h2, ?_, ?_⟩
    · rcases hp' with rfl | rfl | rfl | rfl <;> decide +kernel
    · rcases hp' with rfl | rfl | rfl | rfl
      all_goals first | trivial | (simp only [ParseReadable]; decide +kernel) | decide +kernel

example : parseDocument [] (docText docEx) =
    some [("", [entReading.1]), ("http://example.org/b", [entReading.1])] := by
  have hd : DocReads [] docEx := by
    refine ⟨⟨fun u hu => (by cases hu), fun p hp => ?_⟩, fun x hx => ?_, fun b hb => ?_⟩
    · simp only [docEx, exPfx, List.mem_singleton] at hp
      subst hp
      exact ⟨isWord_lit _ (by decide) (by decide) (by decide), by decide⟩
    · simp only [docEx, List.mem_singleton] at hx
      subst hx
      exact rEnt_reads _ (Or.inl rfl)
    · simp only [docEx, List.mem_singleton] at hb
      subst hb
      refine ⟨isWord_lit _ (by decide) (by decide) (by decide), ⟨fun u hu => (by cases hu), fun p hp => (by cases hp)⟩,
        by decide +kernel, fun x hx => ?_⟩
      simp only [List.mem_singleton] at hx
      subst hx
      exact rEnt_reads _ (Or.inr rfl)
  simpa [docEx] using c06_document [] docEx hd

end Prov.C06

/-
  C08, the last clause: `unified()` raises **only** when there is a conflict.

  `Props/C08L` shows that two members of a group that disagree on a single-valued PROV attribute make the merge fail. Here
  the converse: in a heap with the reachable invariants, whenever `mergeGroup` — hence `_unified_records()`, hence
  `unified()` — ends in an error, that error is the `ProvException` of the single-value guard, and the group contains two
  statements — an earlier one and a later one — that give, for one PROV formal attribute, values that are not equal in
  Python's sense (`!=`): two names with different URIs, two date-times at different instants. Nothing else makes it fail:
  re-creating the first member in the scratch bundle never fails (`scratchCopy_ok`), a stored name is always a valid name, a
  stored value always converts to itself up to prefixes (`addOne_general`), and copying the result into the new bundle
  never fails (`c09_addRecords_heap`).
-/
import Prov.Props.C08N
import Prov.Props.C05X
import Prov.Props.C08L

namespace Prov.C08
open Prov Prov.Heap Prov.C05 Prov.C09 Prov.C04

/-- what a refusal of the guard means -/
theorem storeValue_refuses (isColl : Bool) (r : Record) (attr : QName) (v : Value) (e : Err)
    (h : (storeValue isColl r attr v).2 = some e) :
    e = errProv ∧ isColl = false ∧ isProvAttr attr = true ∧ ∃ ex, (r.get attr).head? = some ex ∧ v.pyEq ex = false := by
  unfold storeValue at h
  split at h
  · rename_i hg
    simp only [Bool.and_eq_true, Bool.not_eq_true', List.isEmpty_eq_false_iff] at hg
    split at h
    · rename_i ex hex
      split at h
      · simp at h
      · rename_i hne
        simp only [Option.some.injEq] at h
        exact ⟨h.symm, by simpa using hg.1.1, hg.1.2, ex, hex, by simpa using hne⟩
    · simp at h
  · simp at h

/-- **the attribute loop on stored pairs fails only at the guard**: if `add_attributes` of a list of stored pairs raises,
    the error is the guard's; the record is what the accepted pairs produced out of the starting record; the refused pair
    belongs to a PROV attribute for which the record already holds a value that is `!=` the offered one -/
theorem loop_refusal (par : Option NsMgr) (isColl : Bool) (pairs : List (QName × Value)) (m : NsMgr) (hm : m.Inv1) (r : Record)
    (hok : ∀ p ∈ pairs, PairOk p.1 p.2 ∧ valOk p.2) (m' : NsMgr) (r' : Record) (e : Err)
    (hres : addAttrsLoop par isColl m r (pairs.map (fun p => toArg (p.1, some p.2))) = (m', r', some e)) :
    e = errProv ∧ ∃ pre p post, pairs = pre ++ p :: post ∧
      (∀ x ∈ r'.flat, x ∈ r.flat ∨ ∃ q ∈ pre, Stands x q.1 q.2) ∧
      isProvAttr p.1 = true ∧ ∃ a' v' ex, a'.uri = p.1.uri ∧ vEq v' p.2 ∧ ex ∈ r'.get a' ∧ v'.pyEq ex = false := by
  obtain ⟨preA, a, postA, m1, e1, e2, e3⟩ := c05_refused_keeps_prefix par isColl _ m r m' r' e hres
  obtain ⟨pre, l2, hl, hpre, hl2⟩ := List.map_eq_append_iff.mp e1
  obtain ⟨p, post, hl2', hp, _⟩ := List.map_eq_cons_iff.mp hl2
  subst hl2'
  subst hl
  have hokpre : ∀ q ∈ pre, PairOk q.1 q.2 ∧ valOk q.2 := fun q hq => hok q (List.mem_append_left _ hq)
  rw [← hpre] at e2
  obtain ⟨hm1, _, _, _, _, honly⟩ := loop_merge par isColl pre m hm r hokpre m1 r' e2
  have hpok := (hok p (List.mem_append_right _ List.mem_cons_self)).1
  obtain ⟨m2, a', v', _, hu, hveq, hstep⟩ := addOne_general par isColl m1 hm1 r' p.1 p.2 hpok
  have ha : a = ⟨.qn p.1, .val p.2, none⟩ := hp.symm
  rw [ha, hstep] at e3
  simp only [Prod.mk.injEq] at e3
  obtain ⟨he, hc, hprov, ex, hex, hne⟩ := storeValue_refuses isColl r' a' v' e e3.2.2
  refine ⟨he, pre, p, post, rfl, honly, ?_, a', v', ex, hu, hveq, List.mem_of_mem_head? hex, hne⟩
  rw [← isProvAttr_congr hu]; exact hprov

/-- re-creating a stored record from its own pairs in an empty record never fails -/
theorem addAttributes_own_ok (par : Option NsMgr) (m : NsMgr) (hm : m.Inv1) (src : Record) (hs : Stored src) :
    ∃ m' rc, Record.addAttributes par m ⟨src.kind, src.id, []⟩ (argsOf src) = (m', rc, none) := by
  cases hres : Record.addAttributes par m ⟨src.kind, src.id, []⟩ (argsOf src) with
  | mk m' rest =>
    obtain ⟨rc, e⟩ := rest
    cases e with
    | none => exact ⟨m', rc, rfl⟩
    | some err =>
      exfalso
      unfold Record.addAttributes at hres
      rw [argsOf_eq] at hres
      obtain ⟨_, pre, p, post, hsplit, honly, hprov, a', v', ex, hu, _, hex, _⟩ :=
        loop_refusal par _ src.flat m hm ⟨src.kind, src.id, []⟩ hs.pairs m' rc err hres
      obtain ⟨k, hk, hku⟩ := flat_of_mem_get rc a' ex hex
      rcases honly (k, ex) hk with h0 | ⟨q, hq, hst⟩
      · simp [Record.flat] at h0
      · -- q stands before p in the flat view and carries the same PROV attribute URI
        have hnr := flat_norepeat src hs
        rw [hsplit, List.pairwise_append] at hnr
        have := hnr.2.2 q hq p List.mem_cons_self hprov
        exact this (hst.1.symm.trans (hku.trans hu))

/-- the scratch copy that starts a merge never fails for a stored record -/
theorem scratchCopy_ok (h : Heap) (hn : AllInv1 h) (r0 : Nat) (hs : StoredRec (h.recCell r0).r) :
    ∃ h1 mref, h.scratchCopy r0 = (h1, .ok mref) := by
  unfold scratchCopy
  simp only []
  have hn0 := allInv1_scratch h hn
  generalize h.allocCont false none [] none = al at hn0
  obtain ⟨h0, sc⟩ := al
  simp only at hn0 ⊢
  unfold mkRecord
  have hid : ((h.recCell r0).r.kind.isElement && (h.recCell r0).r.id.isNone) = false := by
    cases hk : (h.recCell r0).r.kind.isElement with
    | false => rfl
    | true =>
      have := hs.elemId hk
      cases hid : (h.recCell r0).r.id with
      | none => rw [hid] at this; simp at this
      | some _ => rfl
  simp only [hid, Bool.false_eq_true, ↓reduceIte]
  obtain ⟨m', rc, hok⟩ := addAttributes_own_ok (h0.parentOf sc) (h0.mgrOf sc) (hn0 _) (h.recCell r0).r hs.stored
  have hargs : (h.recCell r0).r.flat.map (fun p => ({ name := .qn p.1, value := .val p.2 } : AttrArg)) = argsOf (h.recCell r0).r := rfl
  rw [hargs, hok]
  exact ⟨_, _, rfl⟩

/-- two statements of one group disagree: an earlier and a later member give, under one PROV attribute, values that are
    `!=` in Python's sense -/
def Disagree (h0 : Heap) (earlier : List Nat) (later : List Nat) : Prop :=
  ∃ r1 ∈ earlier, ∃ r2 ∈ later, ∃ p1 ∈ (h0.recCell r1).r.flat, ∃ p2 ∈ (h0.recCell r2).r.flat,
    p1.1.uri = p2.1.uri ∧ isProvAttr p2.1 = true ∧ p2.2.pyEq p1.2 = false

/-- from the guard's verdict on converted values back to the members' own values (PROV attributes hold names or times) -/
theorem disagree_of_guard (p1 p2 : QName × Value) (hu : p1.1.uri = p2.1.uri) (hprov : isProvAttr p2.1 = true)
    (hok1 : PairOk p1.1 p1.2) (hok2 : PairOk p2.1 p2.2) (hv1 : valOk p1.2)
    (k : QName) (ex v' : Value) (hst : Stands (k, ex) p1.1 p1.2) (hveq : vEq v' p2.2) (hne : v'.pyEq ex = false) :
    p2.2.pyEq p1.2 = false := by
  obtain ⟨_, v1', hv1', hrel⟩ := hst
  simp only at hrel
  have hprov1 : isProvAttr p1.1 = true := by rw [isProvAttr_congr hu]; exact hprov
  -- PROV attributes are reference or time attributes
  have hcls : isRefAttr p2.1 = true ∨ isTimeAttr p2.1 = true := by
    simpa [isProvAttr, Bool.or_eq_true] using hprov
  rcases hcls with href | htime
  · have href1 : isRefAttr p1.1 = true := by rw [isRefAttr_congr hu]; exact href
    have h1 := hok1.1 href1
    have h2 := hok2.1 href
    cases hp1 : p1.2 <;> rw [hp1] at h1 <;> simp [isQn] at h1
    cases hp2 : p2.2 <;> rw [hp2] at h2 <;> simp [isQn] at h2
    rename_i q1 q2
    rw [hp1] at hv1'
    rw [hp2] at hveq
    cases v1' <;> simp [vEq] at hv1'
    cases v' <;> simp [vEq] at hveq
    rename_i q1' q2'
    -- ex is a name or a URI with the URI of q1
    have hex : (∃ x, ex = .qn x ∧ x.uri = q1.uri) ∨ ex = .uri q1.uri := by
      rcases hrel with hrel | hrel
      · cases ex <;> simp_all [Value.keyEq, Value.num?]
      · cases ex <;> simp_all [Value.pyEq, Value.keyEq, Value.num?]
    rcases hex with ⟨x, rfl, hx⟩ | rfl
    · simp only [Value.pyEq, Value.keyEq, beq_eq_false_iff_ne, ne_eq] at hne ⊢
      intro hh; apply hne; rw [hveq, hh, hx]
    · simp only [Value.pyEq, Value.keyEq, beq_eq_false_iff_ne, ne_eq] at hne ⊢
      intro hh; apply hne; rw [hveq, hh]
  · have htime1 : isTimeAttr p1.1 = true := by rw [isTimeAttr_congr hu]; exact htime
    have h1 := hok1.2.1 htime1
    have h2 := hok2.2.1 htime
    cases hp1 : p1.2 <;> rw [hp1] at h1 <;> simp [isDt] at h1
    cases hp2 : p2.2 <;> rw [hp2] at h2 <;> simp [isDt] at h2
    rename_i t1 t2
    rw [hp1] at hv1' hv1
    rw [hp2] at hveq
    have e1 : v1' = .dt t1 := by cases v1' <;> simp_all [vEq]
    have e2 : v' = .dt t2 := by cases v' <;> simp_all [vEq]
    subst e1; subst e2
    -- ex is a date-time equal to t1
    have hex : ex.keyEq (.dt t1) = true := by
      rcases hrel with hrel | hrel
      · exact hrel
      · have : (Value.dt t1).keyEq ex = true := by
          cases ex <;> simp_all [Value.pyEq]
        exact keyEq_symm this
    cases hq : (Value.dt t2).pyEq (.dt t1) with
    | false => rfl
    | true =>
      exfalso
      have h21 : (Value.dt t2).keyEq (.dt t1) = true := by simpa [Value.pyEq] using hq
      have := keyEq_trans hv1 h21 (keyEq_symm hex)
      have hpe : (Value.dt t2).pyEq ex = true := by
        cases ex <;> simp_all [Value.pyEq]
      rw [hpe] at hne
      exact Bool.noConfusion hne

/-- the heap form of a refused `merged.add_attributes(member.attributes)` -/
theorem addAttributes_heap_refusal (h : Heap) (mref src : Nat) (hn : AllInv1 h)
    (hok : PairsOk (h.recCell src).r) (h' : Heap) (e : Err)
    (hres : h.addAttributes mref (argsOf (h.recCell src).r) = (h', some e)) :
    e = errProv ∧ ∃ p2 ∈ (h.recCell src).r.flat, isProvAttr p2.1 = true ∧ ∃ v' k ex, vEq v' p2.2 ∧ k.uri = p2.1.uri ∧
      v'.pyEq ex = false ∧
      ((k, ex) ∈ (h.recCell mref).r.flat ∨ ∃ q ∈ (h.recCell src).r.flat, Stands (k, ex) q.1 q.2) := by
  unfold Heap.addAttributes at hres
  dsimp only at hres
  obtain ⟨m', rc, e', hra⟩ : ∃ m' rc e', Record.addAttributes (h.parentOf (h.recCell mref).bundle) (h.mgrOf (h.recCell mref).bundle)
      (h.recCell mref).r (argsOf (h.recCell src).r) = (m', rc, e') := ⟨_, _, _, rfl⟩
  rw [hra] at hres
  simp only [Prod.mk.injEq] at hres
  obtain ⟨_, he⟩ := hres
  subst he
  unfold Record.addAttributes at hra
  rw [argsOf_eq] at hra
  obtain ⟨herr, pre, p, post, hsplit, honly, hprov, a', v', ex, hu, hveq, hex, hne⟩ :=
    loop_refusal _ _ (h.recCell src).r.flat _ (hn _) (h.recCell mref).r hok m' rc e hra
  obtain ⟨k, hk, hku⟩ := flat_of_mem_get rc a' ex hex
  refine ⟨herr, p, by rw [hsplit]; simp, hprov, v', k, ex, hveq, hku.trans hu, hne, ?_⟩
  rcases honly (k, ex) hk with h0 | ⟨q, hq, hst⟩
  · exact Or.inl h0
  · exact Or.inr ⟨q, by rw [hsplit]; exact List.mem_append_left _ hq, hst⟩

/-- **the merge loop fails only on a disagreement** between the member being absorbed and an earlier statement -/
theorem mergeGo_refusal (h0 : Heap) (mref : Nat) : ∀ (rest : List Nat) (h : Heap) (done : List Nat),
    AllInv1 h → mref < h.recs.size →
    (∀ r ∈ rest, r ≠ mref ∧ h.recCell r = h0.recCell r ∧ PairsOk (h0.recCell r).r) →
    (∀ r ∈ done, PairsOk (h0.recCell r).r) →
    MergedOf h0 done (h.recCell mref).r →
    ∀ h' e, mergeGroup.go mref h rest = (h', some e) → e = errProv ∧ Disagree h0 (done ++ rest) rest
  | [], h, done, _, _, _, _, _, h', e, hres => by
    simp [mergeGroup.go] at hres
  | r :: more, h, done, hn, hlt, hsrc, hdone, hm, h', e, hres => by
    obtain ⟨hne, hsame, hok⟩ := hsrc r List.mem_cons_self
    unfold mergeGroup.go at hres
    simp only [] at hres
    have hargs : (h.recCell r).r.flat.map (fun p => ({ name := .qn p.1, value := .val p.2 } : AttrArg)) = argsOf (h.recCell r).r := rfl
    rw [hargs] at hres
    cases hstep : h.addAttributes mref (argsOf (h.recCell r).r) with
    | mk h1 e1 =>
      rw [hstep] at hres
      cases e1 with
      | some err =>
        simp only [Prod.mk.injEq, Option.some.injEq] at hres
        obtain ⟨_, rfl⟩ := hres
        obtain ⟨herr, p2, hp2, hprov, v', k, ex, hveq, hku, hneq, hwhere⟩ :=
          addAttributes_heap_refusal h mref r hn (by rw [hsame]; exact hok) h1 err hstep
        rw [hsame] at hp2 hwhere
        refine ⟨herr, ?_⟩
        -- the statement the existing value stands for
        have hfrom : ∃ r1 ∈ done ++ r :: more, ∃ p1 ∈ (h0.recCell r1).r.flat, Stands (k, ex) p1.1 p1.2 ∧
            PairOk p1.1 p1.2 ∧ valOk p1.2 := by
          rcases hwhere with hin | ⟨q, hq, hst⟩
          · obtain ⟨r1, hr1, p1, hp1, hst⟩ := hm.only (k, ex) hin
            exact ⟨r1, List.mem_append_left _ hr1, p1, hp1, hst, hdone r1 hr1 p1 hp1⟩
          · exact ⟨r, List.mem_append_right _ List.mem_cons_self, q, hq, hst, hok q hq⟩
        obtain ⟨r1, hr1, p1, hp1, hst, hok1, hv1⟩ := hfrom
        have hu : p1.1.uri = p2.1.uri := hst.1.symm.trans hku
        exact ⟨r1, hr1, r, List.mem_cons_self, p1, hp1, p2, hp2, hu, hprov,
          disagree_of_guard p1 p2 hu hprov hok1 (hok p2 hp2).1 hv1 k ex v' hst hveq hneq⟩
      | none =>
        simp only [] at hres
        obtain ⟨hn1, habs, hother, _, hsize⟩ := addAttributes_heap h mref r hn hlt hne (by rw [hsame]; exact hok) h1 hstep
        rw [hsame] at habs
        have hm1 := mergedOf_absorb r hm habs
        obtain ⟨g1, r1, hr1, r2, hr2, rest'⟩ := mergeGo_refusal h0 mref more h1 (done ++ [r]) hn1 (by rw [hsize]; exact hlt)
          (fun r' hr' => by
            obtain ⟨a1, a2, a3⟩ := hsrc r' (List.mem_cons_of_mem _ hr')
            exact ⟨a1, by rw [hother r' a1]; exact a2, a3⟩)
          (fun r' hr' => by
            rcases List.mem_append.mp hr' with h2 | h2
            · exact hdone r' h2
            · simp only [List.mem_singleton] at h2; subst h2; exact hok)
          hm1 h' e hres
        exact ⟨g1, r1, by simpa [List.append_assoc] using hr1, r2, List.mem_cons_of_mem _ hr2, rest'⟩

/-- **`mergeGroup` raises only on a conflict**: for a group of existing stored records in a heap whose managers satisfy the
    C03 invariant, an error of the merge is the single-value guard's `ProvException`, and the group holds two statements —
    the later one among the members after the first — whose values for one PROV attribute are `!=` -/
theorem c08_mergeGroup_error_conflict (h : Heap) (r0 : Nat) (rest : List Nat) (hn : AllInv1 h)
    (hex : ∀ r ∈ r0 :: rest, r < h.recs.size ∧ StoredRec (h.recCell r).r)
    (h' : Heap) (e : Err) (hres : h.mergeGroup (r0 :: rest) = (h', .error e)) :
    e = errProv ∧ Disagree h (r0 :: rest) rest := by
  have hex' : ∀ r ∈ r0 :: rest, r < h.recs.size ∧ PairsOk (h.recCell r).r := fun r hr =>
    ⟨(hex r hr).1, (hex r hr).2.stored.pairs⟩
  unfold mergeGroup at hres
  simp only [] at hres
  obtain ⟨h1, m0, hc⟩ := scratchCopy_ok h hn r0 (hex r0 List.mem_cons_self).2
  rw [hc] at hres
  simp only [] at hres
  obtain ⟨hidx, hsize, hn1, habs, hkeep⟩ := scratchCopy_content h r0 hn (hex' r0 List.mem_cons_self).2 h1 m0 hc
  cases hg : mergeGroup.go m0 h1 rest with
  | mk h2 e2 =>
    rw [hg] at hres
    cases e2 with
    | none => simp at hres
    | some err =>
      simp only [Prod.mk.injEq, Except.error.injEq] at hres
      obtain ⟨_, rfl⟩ := hres
      have hm0 : MergedOf h [r0] (h1.recCell m0).r := by
        constructor
        · intro r hr p hp
          simp only [List.mem_singleton] at hr
          subst hr
          exact habs.takes p hp
        · intro x hx
          rcases habs.only x hx with h0' | ⟨p, hp, hs⟩
          · simp [Record.flat] at h0'
          · exact ⟨r0, by simp, p, hp, hs⟩
      exact mergeGo_refusal h m0 rest h1 [r0] hn1 (by rw [hsize, hidx]; exact Nat.lt_succ_self _)
        (fun r hr => by
          obtain ⟨a1, a2⟩ := hex' r (List.mem_cons_of_mem _ hr)
          exact ⟨by rw [hidx]; exact Nat.ne_of_lt a1, hkeep r a1, a2⟩)
        (fun r hr => by
          simp only [List.mem_singleton] at hr; subst hr; exact (hex' r List.mem_cons_self).2)
        hm0 h2 err hg

theorem disagree_congr {h h0 : Heap} {e l : List Nat} (hsame : ∀ r ∈ e, h.recCell r = h0.recCell r)
    (hl : ∀ r ∈ l, r ∈ e) (hd : Disagree h e l) : Disagree h0 e l := by
  obtain ⟨r1, hr1, r2, hr2, p1, hp1, p2, hp2, rest⟩ := hd
  refine ⟨r1, hr1, r2, hr2, p1, ?_, p2, ?_, rest⟩
  · rw [← hsame r1 hr1]; exact hp1
  · rw [← hsame r2 (hl r2 hr2)]; exact hp2

/-- the merge pass raises only when one of the groups holds a disagreement -/
theorem mergeAll_error_conflict (h0 : Heap) : ∀ (gs : List (List Nat)) (h : Heap) (acc : List (Nat × Nat)),
    AllInv1 h → (∀ r, r < h0.recs.size → h.recCell r = h0.recCell r) → h0.recs.size ≤ h.recs.size →
    (∀ g ∈ gs, g ≠ [] ∧ ∀ r ∈ g, r < h0.recs.size ∧ StoredRec (h0.recCell r).r) →
    ∀ h' e, unifiedRecords.mergeAll h acc gs = (h', .error e) →
      e = errProv ∧ ∃ g ∈ gs, ∃ r0 rest, g = r0 :: rest ∧ Disagree h0 (r0 :: rest) rest
  | [], h, acc, _, _, _, _, h', e, hres => by
    simp [unifiedRecords.mergeAll] at hres
  | g :: gs, h, acc, hn, hsame, hle, hgs, h', e, hres => by
    obtain ⟨hgne, hg⟩ := hgs g List.mem_cons_self
    unfold unifiedRecords.mergeAll at hres
    cases g with
    | nil => exact absurd rfl hgne
    | cons r0 rest =>
      have hexS : ∀ r ∈ r0 :: rest, r < h.recs.size ∧ StoredRec (h.recCell r).r := by
        intro r hr
        obtain ⟨a1, a2⟩ := hg r hr
        exact ⟨Nat.lt_of_lt_of_le a1 hle, by rw [hsame r a1]; exact a2⟩
      cases hmg : h.mergeGroup (r0 :: rest) with
      | mk h1 res =>
        rw [hmg] at hres
        cases res with
        | error err =>
          simp only [Prod.mk.injEq, Except.error.injEq] at hres
          obtain ⟨_, rfl⟩ := hres
          obtain ⟨he, hd⟩ := c08_mergeGroup_error_conflict h r0 rest hn hexS h1 err hmg
          refine ⟨he, r0 :: rest, List.mem_cons_self, r0, rest, rfl, ?_⟩
          exact disagree_congr (fun r hr => hsame r (hg r hr).1) (fun r hr => List.mem_cons_of_mem _ hr) hd
        | ok mref =>
          simp only [] at hres
          have hex : ∀ r ∈ r0 :: rest, r < h.recs.size ∧ PairsOk (h.recCell r).r := fun r hr =>
            ⟨(hexS r hr).1, (hexS r hr).2.stored.pairs⟩
          obtain ⟨_, _, _, _, hkeep, hn1, hsize1⟩ := c08_mergeGroup_content h r0 rest hn hex h1 mref hmg
          have hsame1 : ∀ r, r < h0.recs.size → h1.recCell r = h0.recCell r := fun r hr => by
            rw [hkeep r (Nat.lt_of_lt_of_le hr hle), hsame r hr]
          have hsz1 : h.recs.size ≤ h1.recs.size := by rw [hsize1]; exact Nat.le_succ _
          obtain ⟨he, g', hg', rest'⟩ := mergeAll_error_conflict h0 gs h1 _ hn1 hsame1 (Nat.le_trans hle hsz1)
            (fun g' hg' => hgs g' (List.mem_cons_of_mem _ hg')) h' e hres
          exact ⟨he, g', List.mem_cons_of_mem _ hg', rest'⟩

/-- **`_unified_records()` raises only on a conflict**: in a heap whose identifier index refers to existing stored records,
    an error is the guard's `ProvException`, and one of the groups (same identifier, same kind, at least two records) holds
    two statements that give values that are `!=` for one PROV attribute -/
theorem c08_unifiedRecords_error_conflict (h : Heap) (c : Nat) (hn : AllInv1 h)
    (hidx : ∀ e ∈ (h.cont c).idMap, ∀ r ∈ e.2, r < h.recs.size ∧ StoredRec (h.recCell r).r)
    (h' : Heap) (e : Err) (hres : h.unifiedRecords c = (h', .error e)) :
    e = errProv ∧ ∃ g ∈ groupsOf h c, ∃ r0 rest, g = r0 :: rest ∧ Disagree h (r0 :: rest) rest := by
  unfold unifiedRecords at hres
  simp only [] at hres
  have hgroups : (((h.cont c).idMap.flatMap (fun e => (groupByKind h e.2).map (·.2))).filter (fun g => g.length > 1)) = groupsOf h c := rfl
  rw [hgroups] at hres
  cases hma : unifiedRecords.mergeAll h [] (groupsOf h c) with
  | mk h1 res =>
    rw [hma] at hres
    cases res with
    | ok mp => simp at hres
    | error err =>
      simp only [Prod.mk.injEq, Except.error.injEq] at hres
      obtain ⟨_, rfl⟩ := hres
      exact mergeAll_error_conflict h (groupsOf h c) h [] hn (fun _ _ => rfl) (Nat.le_refl _)
        (fun g hg => by
          obtain ⟨a1, a2⟩ := groupsOf_members h c g hg
          exact ⟨a1, fun r hr => by obtain ⟨e, he, hre⟩ := a2 r hr; exact hidx e he r hre⟩)
        h1 err hma

/-- **C08, `unified()` raises only when there is a conflict**: in a heap with the reachable invariants, if `unified()` of
    container `c` ends in an error, the error is the `ProvException` of the single-value guard and some group of `c` —
    records with one identifier and one kind — holds two statements whose values for one PROV formal attribute are `!=` -/
theorem c08_unifiedBundle_error_conflict (h : Heap) (c : Nat) (g : Good h)
    (h' : Heap) (e : Err) (hres : h.unifiedBundle c = (h', .error e)) :
    e = errProv ∧ ∃ grp ∈ groupsOf h c, ∃ r0 rest, grp = r0 :: rest ∧ Disagree h (r0 :: rest) rest := by
  have hidxS : ∀ e ∈ (h.cont c).idMap, ∀ r ∈ e.2, r < h.recs.size ∧ StoredRec (h.recCell r).r := fun e he r hr =>
    ⟨g.wf.inRange c r (g.wf.idxIn c e he r hr), g.storedRec r (g.wf.inRange c r (g.wf.idxIn c e he r hr))⟩
  unfold unifiedBundle at hres
  have g1 := good_unifiedRecords g c
  have hsz := (C13.frameB_unifiedRecords 0 0 h c (Nat.zero_le _) (Nat.zero_le _)).rsize
  cases hur : h.unifiedRecords c with
  | mk h1 res =>
    rw [hur] at hres g1 hsz
    simp only at g1 hsz
    cases res with
    | error err =>
      simp only [Prod.mk.injEq, Except.error.injEq] at hres
      obtain ⟨_, rfl⟩ := hres
      exact c08_unifiedRecords_error_conflict h c g.allInv1 hidxS h1 err hur
    | ok rs =>
      -- the copy into the new bundle cannot fail
      exfalso
      simp only at hres
      obtain ⟨mp, hrs, hgm, _, _, _⟩ := c08_unifiedRecords_content h c g.allInv1
        (fun e he r hr => ⟨(hidxS e he r hr).1, (hidxS e he r hr).2.stored.pairs⟩) h1 rs hur
      obtain ⟨a1, _, _, _, a5⟩ := allocCont_fresh h1 false (h1.cont c).id [] none
      have hn2 := allInv1_allocCont h1 g1.allInv1 false (h1.cont c).id none
      generalize hal : h1.allocCont false (h1.cont c).id [] none = al at hres a1 a5 hn2
      obtain ⟨h2, nb'⟩ := al
      simp only at hres a1 a5 hn2
      have hsz2 : h2.conts.size = h1.conts.size + 1 := by
        have := congrArg (fun p => p.1.conts.size) hal
        simp only [allocCont, allocMgr, Array.size_push] at this
        exact this.symm
      have hrecs2 : ∀ r, h2.recCell r = h1.recCell r := fun r => by simp [recCell, a5]
      have hsrc : ∀ r ∈ rs, r < h2.recs.size ∧ StoredRec (h2.recCell r).r := by
        intro r hr
        have hlt : r < h1.recs.size := by
          rw [hrs] at hr
          rcases c08_nothing_invented mp _ r hr with h3 | ⟨e, he, rfl⟩
          · exact Nat.lt_of_lt_of_le (g.wf.inRange c r h3) hsz
          · obtain ⟨_, _, _, _, hlt, _⟩ := hgm.sound e he
            exact hlt
        exact ⟨by rw [a5]; exact hlt, by rw [hrecs2]; exact g1.storedRec r hlt⟩
      obtain ⟨h3, news, f1, _⟩ := c09_addRecords_heap nb' rs h2
        (by rw [hsz2, a1]; exact Nat.lt_succ_self _) hn2 hsrc
      rw [f1] at hres
      simp at hres

/-- the same on every state the public interface can reach (`Reach`, `Props/C08I`) -/
theorem c08_unified_raises_only_on_conflict {h : Heap} (hr : Reach h) (c : Nat)
    (h' : Heap) (e : Err) (hres : h.unifiedBundle c = (h', .error e)) :
    e = errProv ∧ ∃ grp ∈ groupsOf h c, ∃ r0 rest, grp = r0 :: rest ∧ Disagree h (r0 :: rest) rest :=
  c08_unifiedBundle_error_conflict h c (reach_good2 hr).good h' e hres

/-- non-vacuity: the conflicting generations of `Props/C08L` -/
example : ((opsConflict.foldl hstep Heap.empty).unifiedBundle 0).2 = .error errProv := rfl

end Prov.C08

namespace Prov.C08
open Prov Prov.Heap Prov.C05 Prov.C09 Prov.C04

/-- two stored values of one PROV attribute that are `!=` cannot both be represented by one value -/
theorem conflict_of_ne (a : QName) (hprov : isProvAttr a = true) (v1 v2 : Value)
    (hok1 : PairOk a v1) (hok2 : PairOk a v2) (hv1 : valOk v1) (hne : v2.pyEq v1 = false) : Conflict a v1 v2 := by
  intro x ⟨h1, h2⟩
  obtain ⟨_, w1, hw1, hr1⟩ := h1
  obtain ⟨_, w2, hw2, hr2⟩ := h2
  have hcls : isRefAttr a = true ∨ isTimeAttr a = true := by
    simpa [isProvAttr, Bool.or_eq_true] using hprov
  rcases hcls with href | htime
  · have g1 := hok1.1 href
    have g2 := hok2.1 href
    cases hp1 : v1 <;> rw [hp1] at g1 <;> simp [isQn] at g1
    cases hp2 : v2 <;> rw [hp2] at g2 <;> simp [isQn] at g2
    rename_i q1 q2
    rw [hp1] at hw1; rw [hp2] at hw2
    cases w1 <;> simp [vEq] at hw1
    cases w2 <;> simp [vEq] at hw2
    rename_i q1' q2'
    have hx1 : (∃ y, x.2 = .qn y ∧ y.uri = q1.uri) ∨ x.2 = .uri q1.uri := by
      rcases hr1 with hr | hr
      · cases hx : x.2 <;> rw [hx] at hr <;> simp_all [Value.keyEq, Value.num?]
      · cases hx : x.2 <;> rw [hx] at hr <;> simp_all [Value.pyEq, Value.keyEq, Value.num?]
    have hx2 : (∃ y, x.2 = .qn y ∧ y.uri = q2.uri) ∨ x.2 = .uri q2.uri := by
      rcases hr2 with hr | hr
      · cases hx : x.2 <;> rw [hx] at hr <;> simp_all [Value.keyEq, Value.num?]
      · cases hx : x.2 <;> rw [hx] at hr <;> simp_all [Value.pyEq, Value.keyEq, Value.num?]
    rw [hp1, hp2] at hne
    simp only [Value.pyEq, Value.keyEq, beq_eq_false_iff_ne, ne_eq] at hne
    apply hne
    rcases hx1 with ⟨y1, e1, u1⟩ | e1 <;> rcases hx2 with ⟨y2, e2, u2⟩ | e2
    · rw [e1] at e2; cases e2; exact u2.symm.trans u1
    · rw [e1] at e2; cases e2
    · rw [e1] at e2; cases e2
    · rw [e1] at e2; simp only [Value.uri.injEq] at e2; exact e2.symm
  · have g1 := hok1.2.1 htime
    have g2 := hok2.2.1 htime
    cases hp1 : v1 <;> rw [hp1] at g1 <;> simp [isDt] at g1
    cases hp2 : v2 <;> rw [hp2] at g2 <;> simp [isDt] at g2
    rename_i t1 t2
    rw [hp1] at hw1 hv1; rw [hp2] at hw2
    have e1 : w1 = .dt t1 := by cases w1 <;> simp_all [vEq]
    have e2 : w2 = .dt t2 := by cases w2 <;> simp_all [vEq]
    subst e1; subst e2
    have k1 : x.2.keyEq (.dt t1) = true := by
      rcases hr1 with hr | hr
      · exact hr
      · have : (Value.dt t1).keyEq x.2 = true := by cases hx : x.2 <;> rw [hx] at hr <;> simp_all [Value.pyEq]
        exact keyEq_symm this
    have k2 : (Value.dt t2).keyEq x.2 = true := by
      rcases hr2 with hr | hr
      · exact keyEq_symm hr
      · cases hx : x.2 <;> rw [hx] at hr <;> simp_all [Value.pyEq]
    have hxv : valOk x.2 := by
      cases hx : x.2 <;> rw [hx] at k1 <;> simp_all [Value.keyEq, Value.num?, valOk]
    have := keyEq_trans hxv k2 k1
    rw [hp1, hp2] at hne
    simp only [Value.pyEq] at hne
    rw [this] at hne
    exact Bool.noConfusion hne

/-- **C08, `unified()` raises exactly when there is a conflict** — for one group of stored records of a heap with the reachable
    invariants: the merge ends in an error if and only if an earlier and a later statement of the group give, for one PROV
    formal attribute, values that are `!=` (`Props/C08L` for "if", the theorems above for "only if") -/
theorem c08_mergeGroup_error_iff (h : Heap) (g : Good h) (r0 : Nat) (rest : List Nat)
    (hex : ∀ r ∈ r0 :: rest, r < h.recs.size) :
    (∃ h' e, h.mergeGroup (r0 :: rest) = (h', .error e)) ↔ Disagree h (r0 :: rest) rest := by
  constructor
  · rintro ⟨h', e, hres⟩
    exact (c08_mergeGroup_error_conflict h r0 rest g.allInv1 (fun r hr => ⟨hex r hr, g.storedRec r (hex r hr)⟩) h' e hres).2
  · rintro ⟨r1, hr1, r2, hr2, p1, hp1, p2, hp2, hu, hprov, hne⟩
    have s1 := (g.storedRec r1 (hex r1 hr1)).stored.pairs p1 hp1
    have s2 := (g.storedRec r2 (hex r2 (List.mem_cons_of_mem _ hr2))).stored.pairs p2 hp2
    have hc : Conflict p2.1 p1.2 p2.2 :=
      conflict_of_ne p2.1 hprov p1.2 p2.2 (pairOk_congr hu s1.1) s2.1 s1.2 hne
    cases hm : h.mergeGroup (r0 :: rest) with
    | mk h' res =>
      cases res with
      | error e => exact ⟨h', e, rfl⟩
      | ok mref =>
        exfalso
        exact c08_conflict_no_merge h g r0 rest hex p2.1 hprov r1 r2 hr1 (List.mem_cons_of_mem _ hr2) p1.1 p2.1 p1.2 p2.2
          (by cases p1; exact hp1) (by cases p2; exact hp2) hu rfl hc h' mref hm

end Prov.C08

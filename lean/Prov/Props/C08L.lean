/-
  C08, the other branch: when two records of one group disagree on a single-valued PROV attribute, the merge does not
  succeed. If `mergeGroup` returned a record, that record would be in normal form (at most one value per PROV attribute,
  `good_mergeGroup`) and would hold a value standing for each member's value (`c08_mergeGroup_content`); one value cannot stand
  for two values that differ — two qualified names with different URIs, two date-times at different instants — so
  `mergeGroup`, hence `_unified_records()` and `unified()`, ends in the error branch (`ProvException` in the library).
-/
import Prov.Props.C08K

namespace Prov.C08
open Prov Prov.Heap Prov.C05 Prov.C09 Prov.C04

/-- no single stored value stands for both `v1` and `v2` -/
def Conflict (a : QName) (v1 v2 : Value) : Prop := ∀ x : QName × Value, ¬ (Stands x a v1 ∧ Stands x a v2)

/-- a value that stands for the qualified name `q` is that name or its URI -/
theorem stands_qn (x : QName × Value) (a q : QName) (h : Stands x a (.qn q)) :
    (∃ qx, x.2 = .qn qx ∧ qx.uri = q.uri) ∨ x.2 = .uri q.uri := by
  obtain ⟨_, v', hv, hk⟩ := h
  have hv' : ∃ q', v' = .qn q' ∧ q'.uri = q.uri := by
    cases v' <;> simp_all [vEq]
  obtain ⟨q', rfl, hq'⟩ := hv'
  rcases hk with hk | hk
  · cases hx : x.2 <;> rw [hx] at hk <;> simp_all [Value.keyEq, Value.num?]
  · cases hx : x.2 <;> rw [hx] at hk <;> simp_all [Value.pyEq, Value.keyEq, Value.num?]

theorem conflict_qn (a q1 q2 : QName) (hne : q1.uri ≠ q2.uri) : Conflict a (.qn q1) (.qn q2) := by
  intro x ⟨h1, h2⟩
  rcases stands_qn x a q1 h1 with ⟨qx, hx, hu⟩ | hx <;> rcases stands_qn x a q2 h2 with ⟨qy, hy, hv⟩ | hy
  · rw [hx] at hy; cases hy; exact hne (hu.symm.trans hv)
  · rw [hx] at hy; cases hy
  · rw [hx] at hy; cases hy
  · rw [hx] at hy; simp only [Value.uri.injEq] at hy; exact hne hy

/-- **a conflict on a PROV attribute makes the merge fail**: for a group of existing stored records in a heap with the reachable
    invariants, if two members carry, under one PROV attribute, values that no single value stands for, then `mergeGroup`
    does not return a record -/
theorem c08_conflict_no_merge (h : Heap) (g : Good h) (r0 : Nat) (rest : List Nat)
    (hex : ∀ r ∈ r0 :: rest, r < h.recs.size)
    (a : QName) (ha : isProvAttr a = true) (r1 r2 : Nat) (hr1 : r1 ∈ r0 :: rest) (hr2 : r2 ∈ r0 :: rest)
    (k1 k2 : QName) (v1 v2 : Value) (hv1 : (k1, v1) ∈ (h.recCell r1).r.flat) (hv2 : (k2, v2) ∈ (h.recCell r2).r.flat)
    (hk1 : k1.uri = a.uri) (hk2 : k2.uri = a.uri) (hc : Conflict a v1 v2)
    (h' : Heap) (mref : Nat) : h.mergeGroup (r0 :: rest) ≠ (h', .ok mref) := by
  intro hres
  have hex' : ∀ r ∈ r0 :: rest, r < h.recs.size ∧ PairsOk (h.recCell r).r := fun r hr =>
    ⟨hex r hr, (stored_of_normal_extra (g.normal.2 r) (g.extra r)).pairs⟩
  obtain ⟨_, _, _, hmer, _, _, _⟩ := c08_mergeGroup_content h r0 rest g.allInv1 hex' h' mref hres
  have g' : Good h' := by have := good_mergeGroup g (r0 :: rest); rw [hres] at this; exact this
  obtain ⟨x1, hx1, hs1⟩ := hmer.all r1 hr1 (k1, v1) hv1
  obtain ⟨x2, hx2, hs2⟩ := hmer.all r2 hr2 (k2, v2) hv2
  -- both values sit under the one entry of the merged record for that attribute, which holds at most one value
  have hkeys := (g'.extra mref).keys
  have hn := g'.normal.2 mref
  have e1 := mem_get_of_flat _ hkeys x1 hx1
  have e2 := mem_get_of_flat _ hkeys x2 hx2
  obtain ⟨p1, hp1, f1, f1'⟩ := (mem_flat_iff _ x1).mp hx1
  obtain ⟨p2, hp2, f2, f2'⟩ := (mem_flat_iff _ x2).mp hx2
  have hu1 : x1.1.uri = a.uri := hs1.1.trans hk1
  have hu2 : x2.1.uri = a.uri := hs2.1.trans hk2
  have hpp : p1 = p2 := by
    apply nodup_map_inj _ hkeys hp1 hp2
    show p1.1.uri = p2.1.uri
    rw [← f1, ← f2, hu1, hu2]
  subst hpp
  have hget : (h'.recCell mref).r.get p1.1 = p1.2 := get_of_mem _ hkeys p1 hp1
  have hprov : isProvAttr p1.1 = true := by
    have : p1.1.uri = a.uri := by rw [← f1]; exact hu1
    rw [isProvAttr_congr this]; exact ha
  have hlen := hn.single p1.1 hprov
  rw [hget] at hlen
  have hsame : x1.2 = x2.2 := by
    match hl : p1.2, f1', f2', hlen with
    | [], f1', _, _ => cases f1'
    | [v], f1', f2', _ =>
      simp only [List.mem_singleton] at f1' f2'
      rw [f1', f2']
    | _ :: _ :: _, _, _, hlen => simp at hlen
  have hx12 : x1 = x2 := by
    apply Prod.ext
    · rw [f1, f2]
    · exact hsame
  subst hx12
  exact hc x1 ⟨⟨hu1, hs1.2⟩, ⟨hu2, hs2.2⟩⟩

/-- … for reference-valued attributes: two members naming different things under one PROV reference attribute -/
theorem c08_conflict_refs (h : Heap) (g : Good h) (r0 : Nat) (rest : List Nat) (hex : ∀ r ∈ r0 :: rest, r < h.recs.size)
    (a : QName) (ha : isProvAttr a = true) (r1 r2 : Nat) (hr1 : r1 ∈ r0 :: rest) (hr2 : r2 ∈ r0 :: rest)
    (k1 k2 q1 q2 : QName) (hv1 : (k1, .qn q1) ∈ (h.recCell r1).r.flat) (hv2 : (k2, .qn q2) ∈ (h.recCell r2).r.flat)
    (hk1 : k1.uri = a.uri) (hk2 : k2.uri = a.uri) (hne : q1.uri ≠ q2.uri) (h' : Heap) (mref : Nat) :
    h.mergeGroup (r0 :: rest) ≠ (h', .ok mref) :=
  c08_conflict_no_merge h g r0 rest hex a ha r1 r2 hr1 hr2 k1 k2 _ _ hv1 hv2 hk1 hk2 (conflict_qn a q1 q2 hne) h' mref

/-- non-vacuity: two generations under one identifier naming different activities; `unified()` of the document raises -/
def opsConflict : List HOp :=
  [.newDoc [⟨"ex", "http://example.org/"⟩],
   .newRecord 0 .generation (.str "ex:g") [⟨.str "prov:entity", .val (.qn ⟨⟨"ex", "http://example.org/"⟩, "e"⟩), none⟩,
                                            ⟨.str "prov:activity", .val (.qn ⟨⟨"ex", "http://example.org/"⟩, "a1"⟩), none⟩],
   .newRecord 0 .generation (.str "ex:g") [⟨.str "prov:entity", .val (.qn ⟨⟨"ex", "http://example.org/"⟩, "e"⟩), none⟩,
                                            ⟨.str "prov:activity", .val (.qn ⟨⟨"ex", "http://example.org/"⟩, "a2"⟩), none⟩]]

example : ((opsConflict.foldl hstep Heap.empty).unifiedDoc 0).2 = .error errProv := rfl

end Prov.C08

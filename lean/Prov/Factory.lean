/-
  Typed factory methods of `ProvBundle` (`entity`, `generation`, …, `revision`, `collection`, …) and
  the element convenience methods (`ProvEntity.wasGeneratedBy`, …), as tables over `newRecord`.
-/
import Prov.Heap

namespace Prov

structure FactorySpec where
  kind : RecKind
  formals : List String        -- formal attribute (local name) for each positional argument
  hasId : Bool                 -- takes `identifier=` (elements: first positional argument)
  hasOther : Bool              -- takes `other_attributes=`
  asserted : Option String     -- `add_asserted_type(PROV[...])` afterwards
  deriving Repr

def factoryTable : List (String × FactorySpec) := [
  ("entity",        ⟨.entity, [], true, true, none⟩),
  ("activity",      ⟨.activity, ["startTime", "endTime"], true, true, none⟩),
  ("agent",         ⟨.agent, [], true, true, none⟩),
  ("collection",    ⟨.entity, [], true, true, some "Collection"⟩),
  ("generation",    ⟨.generation, ["entity", "activity", "time"], true, true, none⟩),
  ("usage",         ⟨.usage, ["activity", "entity", "time"], true, true, none⟩),
  ("start",         ⟨.start, ["activity", "trigger", "starter", "time"], true, true, none⟩),
  ("end",           ⟨.«end», ["activity", "trigger", "ender", "time"], true, true, none⟩),
  ("invalidation",  ⟨.invalidation, ["entity", "activity", "time"], true, true, none⟩),
  ("communication", ⟨.communication, ["informed", "informant"], true, true, none⟩),
  ("attribution",   ⟨.attribution, ["entity", "agent"], true, true, none⟩),
  ("association",   ⟨.association, ["activity", "agent", "plan"], true, true, none⟩),
  ("delegation",    ⟨.delegation, ["delegate", "responsible", "activity"], true, true, none⟩),
  ("influence",     ⟨.influence, ["influencee", "influencer"], true, true, none⟩),
  ("derivation",    ⟨.derivation, ["generatedEntity", "usedEntity", "activity", "generation", "usage"], true, true, none⟩),
  ("revision",      ⟨.derivation, ["generatedEntity", "usedEntity", "activity", "generation", "usage"], true, true, some "Revision"⟩),
  ("quotation",     ⟨.derivation, ["generatedEntity", "usedEntity", "activity", "generation", "usage"], true, true, some "Quotation"⟩),
  ("primary_source", ⟨.derivation, ["generatedEntity", "usedEntity", "activity", "generation", "usage"], true, true, some "PrimarySource"⟩),
  ("specialization", ⟨.specialization, ["specificEntity", "generalEntity"], false, false, none⟩),
  ("alternate",     ⟨.alternate, ["alternate1", "alternate2"], false, false, none⟩),
  ("mention",       ⟨.mention, ["specificEntity", "generalEntity", "bundle"], false, false, none⟩),
  ("membership",    ⟨.membership, ["collection", "entity"], false, false, none⟩)]

def factorySpec (name : String) : Option FactorySpec := (factoryTable.find? (·.1 == name)).map (·.2)

/-- element convenience method ↦ bundle factory (the element itself is the first argument) -/
def convTable : List (String × String) := [
  ("wasGeneratedBy", "generation"), ("wasInvalidatedBy", "invalidation"), ("wasDerivedFrom", "derivation"),
  ("wasAttributedTo", "attribution"), ("alternateOf", "alternate"), ("specializationOf", "specialization"),
  ("hadMember", "membership"), ("used", "usage"), ("wasInformedBy", "communication"),
  ("wasStartedBy", "start"), ("wasEndedBy", "end"), ("wasAssociatedWith", "association"),
  ("actedOnBehalfOf", "delegation")]

namespace Heap

/-- apply `_ensure_datetime` to the time-valued positional arguments (evaluated before `new_record`) -/
def ensureTimes : List (String × ArgVal) → Except Err (List AttrArg)
  | [] => .ok []
  | (l, v) :: rest =>
    let v' : Except Err ArgVal :=
      if attrLiterals.contains l then
        match v with
        | .val x => (ensureDatetime x).map ArgVal.val
        | other => .ok other
      else .ok v
    match v', ensureTimes rest with
    | .ok a, .ok more => .ok ({ name := .qn (formalQ l), value := a } :: more)
    | .error e, _ => .error e
    | _, .error e => .error e

/-- a typed factory call -/
def factory (h : Heap) (c : Nat) (spec : FactorySpec) (idArg : NameArg) (args : List ArgVal)
    (other : List AttrArg) : Heap × Except Err Nat :=
  match ensureTimes (spec.formals.zip args) with
  | .error e => (h, .error e)
  | .ok formalAttrs =>
    match h.newRecord c spec.kind idArg (formalAttrs ++ other) with
    | (h1, .error e) => (h1, .error e)
    | (h1, .ok r) =>
      match spec.asserted with
      | none => (h1, .ok r)
      | some t =>
        match h1.addAssertedType r (.val (.qn (provQ t))) none with
        | (h2, none) => (h2, .ok r)
        | (h2, some e) => (h2, .error e)

end Heap
end Prov

/-
  DOT rendering: `prov/dot.py` (`prov_to_dot`) as a structure of nodes, edges and clusters carrying the strings
  Graphviz's parser obtains from the emitted text (quoted strings with `\"` undone, HTML-like labels verbatim).
-/
import Prov.Xml
import Prov.ProvN
import Prov.Graph

namespace Prov

/-- `html.escape(s, quote=True)` -/
def htmlEscape : List Char → List Char
  | [] => []
  | c :: cs =>
    (if c == '&' then "&amp;".toList else if c == '<' then "&lt;".toList else if c == '>' then "&gt;".toList
     else if c == '"' then "&quot;".toList else if c == '\'' then "&#x27;".toList else [c]) ++ htmlEscape cs

def htmlEsc (s : String) : String := String.ofList (htmlEscape s.toList)

/-- `_dot_quote(value)`: the text between the quotes (backslashes doubled, quotes escaped) -/
def dotQuoteBody : List Char → List Char
  | [] => []
  | c :: cs =>
    if c == '\\' then '\\' :: '\\' :: dotQuoteBody cs
    else if c == '"' then '\\' :: '"' :: dotQuoteBody cs
    else c :: dotQuoteBody cs

/-- what Graphviz's parser stores for `_dot_quote(s)`: `\"` becomes `"`, everything else (incl. `\\`) is kept -/
def dotParsed (s : String) : String :=
  String.ofList (s.toList.flatMap (fun c => if c == '\\' then ['\\', '\\'] else [c]))

structure DNode where
  name : String
  shape : String
  label : String          -- as parsed by Graphviz (quoted: `dotParsed`; HTML-like: the inner markup)
  html : Bool
  url : Option String
  cluster : Option String -- name of the enclosing cluster
  deriving Repr

structure DEdge where
  tail : String
  head : String
  label : Option String
  arrowhead : Option String
  style : Option String
  color : Option String
  deriving Repr

structure DCluster where
  name : String
  label : String
  url : String
  deriving Repr

structure DotOpts where
  showNary : Bool
  useLabels : Bool
  elemAttrs : Bool
  relAttrs : Bool

structure DState where
  nodes : List DNode := []
  edges : List DEdge := []
  clusters : List DCluster := []
  nodeMap : List (String × String) := []    -- URI ↦ node name
  cN : Nat := 0
  cB : Nat := 0
  cC : Nat := 0
  cA : Nat := 0

def kindShape : RecKind → String
  | .entity => "oval" | .activity => "box" | .agent => "house" | _ => "oval"

/-- DOT_PROV_STYLE of relations: (label, color) — only what the structure check reads -/
def relStyle : RecKind → String × Option String
  | .generation => ("wasGeneratedBy", some "darkgreen") | .usage => ("used", some "red4")
  | .communication => ("wasInformedBy", none) | .start => ("wasStartedBy", none) | .«end» => ("wasEndedBy", none)
  | .invalidation => ("wasInvalidatedBy", none) | .derivation => ("wasDerivedFrom", none)
  | .attribution => ("wasAttributedTo", some "#FED37F") | .association => ("wasAssociatedWith", some "#FED37F")
  | .delegation => ("actedOnBehalfOf", some "#FED37F") | .influence => ("wasInfluencedBy", some "grey")
  | .alternate => ("alternateOf", none) | .specialization => ("specializationOf", none)
  | .mention => ("mentionOf", none) | .membership => ("hadMember", none)
  | _ => ("", none)

/-- `str(value)` as shown in an annotation row (datetimes as isoformat, literals in PROV-N form) -/
def annValueText : Value → String
  | .dt t => t.iso
  | .lit v ty lang => provnValue (.lit v ty lang)
  | v => v.pyStr

def uriMapSet (m : List (String × String)) (k v : String) : List (String × String) :=
  match m with
  | [] => [(k, v)]
  | (k', v') :: rest => if k' == k then (k, v) :: rest else (k', v') :: uriMapSet rest k v

def uriMapGet (m : List (String × String)) (k : String) : Option String := (m.find? (fun p => p.1 == k)).map (·.2)

/-- `_attach_attribute_annotation(node, record)` -/
def attachAnnotation (st : DState) (cl : Option String) (target : String) (r : Record) : DState :=
  let attrs := r.flat.filter (fun p => !isRefAttr p.1)
  if attrs.isEmpty then st else
  let rows := (sortedAttributes r.kind attrs).map (fun p =>
    "    <TR>\n        <TD align=\"left\" href=\"" ++ htmlEsc p.1.uri ++ "\">" ++ htmlEsc p.1.print ++ "</TD>\n" ++
    "        <TD align=\"left\"" ++
      (match p.2 with
       | .qn q => " href=\"" ++ htmlEsc q.uri ++ "\""
       | .uri u => " href=\"" ++ htmlEsc u ++ "\""
       | _ => "") ++ ">" ++ htmlEsc (annValueText p.2) ++ "</TD>\n    </TR>")
  let label := joinWith "\n" (["<TABLE cellpadding=\"0\" border=\"0\">"] ++ rows ++ ["    </TABLE>"])
  let name := "ann" ++ toString (st.cA + 1)
  { st with cA := st.cA + 1,
            nodes := st.nodes ++ [⟨name, "note", label, true, none, cl⟩],
            edges := st.edges ++ [⟨name, target, none, some "none", some "dashed", some "gray"⟩] }

/-- `str(record.label)` -/
def labelText : Value → String
  | .dt t => t.pyStr
  | v => annValueText v

/-- `record.label`: first prov:label value, else the identifier -/
def recordLabel (r : Record) : Option Value := (r.get (provQ "label")).head?

/-- the pydot.Node that `_add_node(record)` creates -/
def elemNode (o : DotOpts) (cl : Option String) (r : Record) (q : QName) (name : String) : DNode :=
  let lh : String × Bool :=
    if o.useLabels then
      match recordLabel r with
      | some l => (htmlEsc (labelText l) ++ "<br /><font color=\"#333333\" point-size=\"10\">" ++ htmlEsc q.print ++ "</font>", true)
      | none => (dotParsed q.print, false)
    else (dotParsed q.print, false)
  ⟨name, kindShape r.kind, lh.1, lh.2, some (dotParsed q.uri), cl⟩

/-- `_add_node(record)` -/
def addElemNode (o : DotOpts) (st : DState) (cl : Option String) (r : Record) : DState :=
  match r.id with
  | none => st
  | some q =>
    let name := "n" ++ toString (st.cN + 1)
    let st1 := { st with cN := st.cN + 1,
                         nodes := st.nodes ++ [elemNode o cl r q name],
                         nodeMap := uriMapSet st.nodeMap q.uri name }
    if o.elemAttrs then attachAnnotation st1 cl name r else st1

def newBnode (st : DState) (cl : Option String) : DState × String :=
  let name := "b" ++ toString (st.cB + 1)
  ({ st with cB := st.cB + 1, nodes := st.nodes ++ [⟨name, "point", "", false, none, cl⟩] }, name)

/-- `_get_node(qname, prov_type)` -/
def getNode (st : DState) (cl : Option String) (v : Option Value) (attr : String) : DState × String :=
  match v with
  | some (.qn q) =>
    match uriMapGet st.nodeMap q.uri with
    | some n => (st, n)
    | none =>
      let shape := match inferredClass.find? (fun p => p.1 == attr) with
        | some (_, k) => kindShape k
        | none => if attr == "bundle" then "folder" else "oval"
      let name := "n" ++ toString (st.cN + 1)
      ({ st with cN := st.cN + 1,
                 nodes := st.nodes ++ [⟨name, shape, dotParsed q.print, false, some (dotParsed q.uri), cl⟩],
                 nodeMap := uriMapSet st.nodeMap q.uri name }, name)
  | _ => newBnode st cl

/-- one relation of `_bundle_to_dot` -/
def addRelation (o : DotOpts) (st : DState) (cl : Option String) (r : Record) : DState :=
  let refs : List (String × Option Value) :=
    (r.kind.formals.filter (fun l => attrQNames.contains l)).map (fun l => (l, (r.get (formalQ l)).head?))
  let others := r.flat.filter (fun p => !isRefAttr p.1)
  let annot := o.relAttrs && !others.isEmpty
  let nary := refs.length > 2 && o.showNary
  let (lbl, color) := relStyle r.kind
  match refs with
  | (a0, v0) :: (a1, v1) :: rest =>
    if nary || annot then
      let (st1, b) := newBnode st cl
      let (st2, n0) := getNode st1 cl v0 a0
      let st3 := { st2 with edges := st2.edges ++ [⟨n0, b, some lbl, some "none", none, color⟩] }
      let (st4, n1) := getNode st3 cl v1 a1
      let st5 := { st4 with edges := st4.edges ++ [⟨b, n1, none, none, none, color⟩] }
      let st6 := if nary then
          rest.foldl (fun (s : DState) (p : String × Option Value) =>
            match p.2 with
            | some _ =>
              let (s1, n) := getNode s cl p.2 p.1
              { s1 with edges := s1.edges ++ [⟨b, n, some p.1, none, none, some "gray"⟩] }
            | none => s) st5
        else st5
      if annot then attachAnnotation st6 cl b r else st6
    else
      let (st1, n0) := getNode st cl v0 a0
      let (st2, n1) := getNode st1 cl v1 a1
      { st2 with edges := st2.edges ++ [⟨n0, n1, some lbl, none, none, color⟩] }
  | _ => st

namespace Heap

/-- `_bundle_to_dot(dot, bundle)` for one container -/
def bundleToDot (h : Heap) (o : DotOpts) (st : DState) (c : Nat) (cl : Option String) (withBundles : Bool) : DState :=
  let recs := h.recsOf c
  let st1 := (recs.filter (fun r => r.kind.isElement)).foldl (fun s r => addElemNode o s cl r) st
  let st2 := if withBundles then
      (h.cont c).bundles.foldl (fun (s : DState) (p : QName × Nat) =>
        let name := "cluster_c" ++ toString (s.cC + 1)
        let bid := match (h.cont p.2).id with | some q => q | none => p.1
        let s1 := { s with cC := s.cC + 1, clusters := s.clusters ++ [⟨name, dotParsed bid.print, dotParsed bid.uri⟩] }
        -- nested call: elements, then relations of the bundle
        let brecs := h.recsOf p.2
        let s2 := (brecs.filter (fun r => r.kind.isElement)).foldl (fun s r => addElemNode o s (some name) r) s1
        (brecs.filter (fun r => !r.kind.isElement)).foldl (fun s r => addRelation o s (some name) r) s2) st1
    else st1
  (recs.filter (fun r => !r.kind.isElement)).foldl (fun s r => addRelation o s cl r) st2

/-- `prov_to_dot(bundle, …)`: unify (falling back to the original on ProvException), then draw -/
def toDot (h : Heap) (o : DotOpts) (d : Nat) : DState :=
  let isDoc := (h.cont d).isDoc
  let (h1, u) : Heap × Nat :=
    match (if isDoc then h.unifiedDoc d else h.unifiedBundle d) with
    | (h', .ok u) => (h', u)
    | (_, .error e) => if e == errProv then (h, d) else (h, d)
  h1.bundleToDot o {} u none (h1.cont u).isDoc

end Heap
end Prov

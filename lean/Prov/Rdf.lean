/-
  PROV-O (RDF): `ProvRDFSerializer.encode_container` / `encode_document` as a function from the heap model to
  a set of quads, and `decode_document` / `decode_container` as a function from quads *in rdflib's iteration
  order* to heap operations. rdflib itself (TriG text, the lexical-to-value conversion of literals, the order
  in which a graph is iterated) is outside: the harness observes it and passes it in.
-/
import Prov.Heap
import Prov.Xml
import Prov.Text

namespace Prov.Rdf
open Prov Prov.Text

inductive Term where
  | iri (u : String)
  | bnode (l : String)
  | lit (lex : String) (dt : Option String) (lang : Option String)
  deriving DecidableEq, Repr, Inhabited

structure Triple where
  s : Term
  p : Term
  o : Term
  deriving DecidableEq, Repr, Inhabited

def rdfType : String := "http://www.w3.org/1999/02/22-rdf-syntax-ns#type"
def rdfsLabel : String := "http://www.w3.org/2000/01/rdf-schema#label"
def provU (l : String) : String := provUri ++ l
def xsdU (l : String) : String := xsdUri ++ l

/-- `str(term)` -/
def Term.str : Term → String
  | .iri u => u
  | .bnode l => l
  | .lit lex _ _ => lex

/-! ## writer -/

/-- `encode_rdf_representation(value)`; `none` = outside the model (floats are re-lexicalised by rdflib;
    a Literal without datatype and language crashes in `literal_rdf_representation`) -/
def encodeValue : Value → Option Term
  | .str s => some (.lit s (some (xsdU "string")) none)
  | .int n => some (.lit (toString n) (some (xsdU "int")) none)
  | .bool b => some (.lit (if b then "true" else "false") (some (xsdU "boolean")) none)   -- rdflib's RDFLiteral(bool)
  | .float _ => none
  | .dt t => some (.lit t.iso (some (xsdU "dateTime")) none)
  | .uri u => some (.lit u (some (xsdU "anyURI")) none)
  | .qn q => some (.iri q.uri)
  | .lit v ty lang =>
    match lang with
    | some l => some (.lit v none (some l))
    | none =>
      match ty with
      | some t => if sContains t.uri "base64Binary" then none else some (.lit v (some t.uri) none)
      | none => none

structure EncSt where
  triples : List Triple := []
  next : Nat := 1
  deriving Repr, Inhabited

def EncSt.add (st : EncSt) (s p o : Term) : EncSt := { st with triples := st.triples ++ [⟨s, p, o⟩] }
def EncSt.remove (st : EncSt) (s p o : Term) : EncSt :=
  { st with triples := st.triples.filter (fun t => !(t == (⟨s, p, o⟩ : Triple))) }

def isProv (a : QName) (l : String) : Bool := a.uri == provU l

/-- predicate of an attribute of an element record -/
def elemPred (a : QName) : String :=
  if isProv a "type" then rdfType
  else if isProv a "label" then rdfsLabel
  else if isProv a "startTime" then provU "startedAtTime"
  else if isProv a "endTime" then provU "endedAtTime"
  else a.uri

/-- `all_attributes = list(record.formal_attributes) + list(record.attributes)` -/
def allAttributes (r : Record) : List (QName × Option Value) :=
  r.formalAttrs ++ (r.formalAttrs.filterMap (fun p => p.2.map (fun v => (p.1, some v)))) ++
    r.extraAttrs.map (fun p => (p.1, some p.2))

def encodeElement (st : EncSt) (r : Record) (ident : Term) : Option EncSt :=
  (allAttributes r).foldlM (fun (st : EncSt) (p : QName × Option Value) =>
    match p.2 with
    | none => some st
    | some v =>
      match encodeValue v with
      | none => none
      | some obj =>
        if isProv p.1 "location" then some (st.add ident (.iri (provU "atLocation")) obj)
        else some (st.add ident (.iri (elemPred p.1)) obj)) st

/-- the kinds whose unqualified triple is only written when nothing else has to be said -/
def qset : List RecKind := [.«end», .start, .usage, .generation, .derivation, .association, .invalidation]

/-- the string-matched predicate rewrites applied to every attribute of a relation -/
def relAttrPred (k : RecKind) (a : QName) : String :=
  let p0 :=
    if isFormalOf k a then a.uri                        -- attr2rdf(attr)
    else if isProv a "role" then provU "hadRole"
    else if isProv a "plan" then provU "hadPlan"
    else if isProv a "type" then rdfType
    else if isProv a "label" then rdfsLabel
    else a.uri
  let p1 := if sContains p0 (provU "plan") then provU "hadPlan" else p0
  let p2 := if sContains p1 (provU "informant") then provU "activity" else p1
  let p3 := if sContains p2 (provU "responsible") then provU "agent" else p2
  let p4 := if k == .delegation && sContains p3 (provU "activity") then provU "hadActivity" else p3
  let p5 := if ((k == .«end» || k == .start) && sContains p4 (provU "trigger")) ||
               (k == .usage && sContains p4 (provU "used")) then provU "entity" else p4
  let p6 :=
    if [RecKind.generation, .«end», .start, .usage, .invalidation].contains k then
      let a1 := if sContains p5 (provU "time") then provU "atTime" else p5
      let a2 := if sContains a1 (provU "ender") then provU "hadActivity" else a1
      let a3 := if sContains a2 (provU "starter") then provU "hadActivity" else a2
      if sContains a3 (provU "location") then provU "atLocation" else a3
    else p5
  if k == .derivation then
    let d1 := if sContains p6 (provU "activity") then provU "hadActivity" else p6
    let d2 := if sContains d1 (provU "generation") then provU "hadGeneration" else d1
    let d3 := if sContains d2 (provU "usage") then provU "hadUsage" else d2
    if sContains d3 (provU "usedEntity") then provU "entity" else d3
  else p6

structure RelSt where
  st : EncSt
  hasBnode : Bool := false
  ident : Option Term
  used : List QName := []
  hasQ : Bool
  deriving Inhabited

def usedContains (used : List QName) (a : QName) : Bool := used.any (fun u => u.same a)

/-- `prov:type` values that retype a qualified derivation -/
def derivationSubtype (v : Value) : Option String :=
  let u : Option String := match v with
    | .qn q => some q.uri
    | .uri u => some u
    | _ => none
  match u with
  | some u => ["Revision", "Quotation", "PrimarySource"].find? (fun l => u == provU l)
  | none => none

/-- the last `prov:type` extra attribute that names Revision / Quotation / PrimarySource, if any -/
def retypeOf (extras : List (QName × Value)) : Option String :=
  extras.foldl (fun (acc : Option String) p =>
    if isProv p.1 "type" then (match derivationSubtype p.2 with | some l => some l | none => acc) else acc) none

/-- the block executed while `bnode is None`; `none` = a value outside the model. Returns (state, skip rest of
    this iteration). -/
def relBlock (r : Record) (rs : RelSt) : Option (RelSt × Bool) :=
  let k := r.kind
  let fa := r.formalAttrs
  let f0 := fa.getD 0 default
  let f1 := fa.getD 1 default
  let validIdx := (List.range fa.length).filter (fun i => ((fa.getD i default).2).isSome)
  let subj0 : Option Term := match f0.2 with
    | some (.qn q) => some (.iri q.uri)
    | some (.uri u) => some (.iri u)
    | _ => none
  let rs1 : RelSt := { rs with used := [f0.1] }
  -- the unqualified triple
  let step1 : Option (RelSt × Option Term) :=
    match rs.ident, subj0 with
    | none, some subj =>
      match f1.2 with
      | some ov =>
        if !qset.contains k || (validIdx == [0, 1] && r.extraAttrs.isEmpty) then
          match encodeValue ov with
          | none => none
          | some obj =>
            let (s', o') := if k == .alternate then (obj, subj) else (subj, obj)
            let st1 := rs1.st.add s' (.iri (provU k.provN)) o'
            let rs2 : RelSt := { rs1 with st := st1, used := rs1.used ++ [f1.1] }
            if k == .mention then
              let f2 := fa.getD 2 default
              match f2.2 with
              | some bv =>
                match encodeValue bv with
                | none => none
                | some bo =>
                  let st3 := rs2.st.add s' (.iri (provU "asInBundle")) bo
                  let rs3 : RelSt := { rs2 with st := st3, used := rs2.used ++ [f2.1], hasQ := false }
                  some (rs3, some s')
              | none =>
                let rs3 : RelSt := { rs2 with hasQ := false }
                some (rs3, some s')
            else some (rs2, some s')
        else some (rs1, some subj)
      | none => some (rs1, some subj)
    | _, s => some (rs1, s)
  match step1 with
  | none => none
  | some (rs2, subj) =>
    if k == .alternate then some (rs2, true)
    else
      match subj with
      | some sj =>
        if rs2.hasQ || rs2.ident.isSome then
          -- qualified pattern
          let sub := retypeOf r.extraAttrs
          let qualifier := sub.getD k.typeName
          let recUri := provU qualifier
          let st1 := match sub, rs2.ident with
            | some _, some idt => rs2.st.remove idt (.iri rdfType) (.iri (provU k.typeName))
            | _, _ => rs2.st
          let qrole := Term.iri (provU ("qualified" ++ qualifier))
          match rs2.ident with
          | some idt => some ({ rs2 with st := st1.add sj qrole idt }, false)
          | none =>
            let b := Term.bnode ("b" ++ toString st1.next)
            let st2 := ({ st1 with next := st1.next + 1 }.add sj qrole b).add b (.iri rdfType) (.iri recUri)
            some ({ rs2 with st := st2, ident := some b, hasBnode := true }, false)
        else some (rs2, false)
      | none => some (rs2, false)

/-- one iteration of the loop over `all_attributes` for a relation -/
def relStep (r : Record) (rs : RelSt) (p : QName × Option Value) : Option RelSt :=
  let afterBlock : Option (RelSt × Bool) := if rs.hasBnode then some (rs, false) else relBlock r rs
  match afterBlock with
  | none => none
  | some (rs1, true) => some rs1
  | some (rs1, false) =>
    match p.2 with
    | none => some rs1
    | some v =>
      if usedContains rs1.used p.1 then some rs1
      else
        match rs1.ident, encodeValue v with
        | some idt, some obj => some { rs1 with st := rs1.st.add idt (.iri (relAttrPred r.kind p.1)) obj }
        | _, _ => none

/-- `formal_qualifiers`, `has_qualifiers` -/
def hasQualifiers (r : Record) (ident : Option Term) : Bool :=
  let fa := r.formalAttrs
  let formalQualifiers := (List.range fa.length).any (fun i =>
    ((fa.getD i default).2).isSome && (ident.isSome || i > 1))
  !r.extraAttrs.isEmpty || formalQualifiers

def encodeRelation (st : EncSt) (r : Record) (ident : Option Term) : Option EncSt :=
  let init : RelSt := { st := st, ident := ident, hasQ := hasQualifiers r ident }
  ((allAttributes r).foldlM (relStep r) init).map (·.st)

/-- one record of `encode_container` -/
def encodeRecord (st : EncSt) (r : Record) : Option EncSt :=
  let ident : Option Term := r.id.map (fun q => .iri q.uri)
  let st1 := match ident with
    | some idt => st.add idt (.iri rdfType) (.iri (provU r.kind.typeName))
    | none => st
  if r.flat.isEmpty then some st1
  else if r.kind.isElement then
    match ident with
    | some idt => encodeElement st1 r idt
    | none => none
  else encodeRelation st1 r ident

def encodeContainer (h : Heap) (c : Nat) : Option (List Triple) :=
  ((h.cont c).records.foldlM (fun (st : EncSt) ref => encodeRecord st (h.recCell ref).r) {}).map (·.triples)

/-- `encode_document`: the default graph and one named graph per bundle -/
def encodeDocument (h : Heap) (d : Nat) : Option (List (Option String × List Triple)) := do
  let top ← encodeContainer h d
  let bs ← (h.cont d).bundles.mapM (fun (p : QName × Nat) => do
    let ts ← encodeContainer h p.2
    pure (((h.cont p.2).id.map (·.uri)), ts))
  pure ((none, top) :: bs)

/-! ## reader -/

/-- what `decode_rdf_representation` yields for an object term, given rdflib's own conversion of literals
    (`pv` = `str(literal.value if literal.value is not None else literal)`, `pdt` = `dateutil.parser.parse`) -/
structure LitHint where
  pv : String
  pdt : Option DateTime := none
  flt : Option FloatAtom := none      -- `float(pv)` for xsd:double (A-LEX, as in C01)
  deriving Repr, Inhabited

def errUnsupported (what : String) : Err := "unsupported:" ++ what

/-- the `pm.Literal(value, datatype, langtag)` constructor: a language tag forces prov:InternationalizedString -/
def mkLiteral (pv : String) (ty : Option QName) (lang : Option String) : Value :=
  match lang with
  | some l => if l != "" then .lit pv (some (provQ "InternationalizedString")) (some l) else .lit pv ty (some l)
  | none => .lit pv ty none

/-- keys of `PROV_CLS_MAP`: class URI ↦ base kind -/
def baseKindOf (u : String) : Option RecKind :=
  match RecKind.all.find? (fun k => u == provU k.typeName) with
  | some k => some k
  | none => (Prov.subtypeTable.find? (fun s => u == provU s.1)).map (·.2.2)

def relationKindOf (p : String) : Option RecKind :=
  ([RecKind.alternate, .delegation, .specialization, .mention, .association, .derivation, .attribution,
    .communication, .generation, .influence, .invalidation, .«end», .start, .membership, .usage].find?
      (fun k => p == provU k.provN))

/-- `predicate_mapper`: RDF predicate ↦ PROV attribute (print form `prov:x`, which is what `str()` of the mapped
    QualifiedName gives and what is later handed to `add_attributes`) -/
def predicateMapper : List (String × String) :=
  [(rdfsLabel, "label"), (provU "atLocation", "location"), (provU "startedAtTime", "startTime"),
   (provU "endedAtTime", "endTime"), (provU "atTime", "time"), (provU "hadRole", "role"),
   (provU "hadPlan", "plan"), (provU "hadUsage", "usage"), (provU "hadGeneration", "generation"),
   (provU "hadActivity", "activity")]

/-- a value held in `formal_attributes[id]` / `other_attributes[id]` -/
structure DVal where
  v : ArgVal
  deriving Repr, Inhabited

structure DecSt where
  ids : List (String × RecKind) := []
  formal : List (String × List (QName × Option ArgVal)) := []
  uniq : List (String × List (QName × List ArgVal)) := []
  other : List (String × List (NameArg × ArgVal)) := []
  deriving Inhabited

def assocGet {α} (l : List (String × α)) (k : String) : Option α := (l.find? (fun p => p.1 == k)).map (·.2)
def assocSet {α} (l : List (String × α)) (k : String) (v : α) : List (String × α) :=
  if l.any (fun p => p.1 == k) then l.map (fun p => if p.1 == k then (k, v) else p) else l ++ [(k, v)]

def DecSt.ensureOther (st : DecSt) (id : String) : DecSt :=
  if (assocGet st.other id).isSome then st else { st with other := st.other ++ [(id, [])] }
def DecSt.appendOther (st : DecSt) (id : String) (k : NameArg) (v : ArgVal) : DecSt :=
  let st := st.ensureOther id
  { st with other := assocSet st.other id ((assocGet st.other id).getD [] ++ [(k, v)]) }

def slotSet (slots : List (QName × Option ArgVal)) (key : QName) (v : Option ArgVal) : List (QName × Option ArgVal) :=
  slots.map (fun p => if p.1.same key then (p.1, v) else p)

/-- `decode_rdf_representation`; the document's manager resolves URIs -/
def decodeTerm (h : Heap) (doc : Nat) (hint : Term → Option LitHint) (t : Term) : Except Err ArgVal :=
  match t with
  | .lit lex dt lang =>
    match hint t with
    | none => .error (errUnsupported "literal-without-hint")
    | some hn =>
      match dt with
      | some d =>
        if sContains d "XMLLiteral" || sContains d "base64Binary" then .error (errUnsupported "binary-literal")
        else if d == xsdU "QName" then .ok (.val (mkLiteral lex (some (xsdQ "QName")) none))   -- pm.Literal(literal, datatype=XSD_QNAME)
        else if d == xsdU "gYear" || d == xsdU "gYearMonth" then .error (errUnsupported "special-datatype")
        else if d == xsdU "dateTime" then
          match hn.pdt with
          | some t => .ok (.val (.dt t))
          | none => .error (errUnsupported "datetime-hint")
        else
          .ok (.val (mkLiteral hn.pv (h.validName doc (.str d)).2 lang))
      | none => let _ := lex; .ok (.val (mkLiteral hn.pv none lang))
  | .iri u =>
    match (h.validName doc (.str u)).2 with
    | some q => .ok (.val (.qn q))
    | none => .error (errUnsupported "compute_qname")
  | .bnode l => .ok (.val (.str l))

def isBnode : Term → Bool
  | .bnode _ => true
  | _ => false

/-- first pass: `for stmt in graph.triples((None, RDF.type, None))` -/
def typePass (h : Heap) (doc : Nat) (hint : Term → Option LitHint) (st : DecSt) (t : Triple) : Except Err DecSt := do
  let id := t.s.str
  let obj := t.o.str
  match baseKindOf obj with
  | some base =>
    if !isBnode t.s && (h.validName doc (.str id)).2.isNone then throw (errUnsupported "compute_qname")
    let exact := provU base.typeName == obj
    let isDeriv := sContains obj (provU "Revision") || sContains obj (provU "Quotation") || sContains obj (provU "PrimarySource")
    let known := (assocGet st.ids id).isSome
    let take := !known && (exact || isDeriv || isBnode t.s)
    let st1 : DecSt := if take then
        { st with ids := st.ids ++ [(id, base)],
                  formal := st.formal ++ [(id, base.formals.map (fun l => (formalQ l, none)))],
                  uniq := st.uniq ++ [(id, base.formals.map (fun l => (formalQ l, [])))] }
      else st
    let addAttr := if take then (isBnode t.s || isDeriv) && !exact else true
    if addAttr then
      let v ← decodeTerm h doc hint t.o
      pure (st1.appendOther id (.qn (provQ "type")) v)
    else pure st1
  | none =>
    let v ← decodeTerm h doc hint t.o
    pure (st.appendOther id (.qn (provQ "type")) v)

/-- a record the reader asks the bundle to create -/
structure Create where
  kind : RecKind
  id : NameArg
  attrs : List AttrArg
  deriving Repr, Inhabited

def plainRel (k : RecKind) (a b : String) : Create :=
  let fs := k.formals
  ⟨k, .nil, [⟨.qn (formalQ (fs.getD 0 "")), .val (.str a), none⟩, ⟨.qn (formalQ (fs.getD 1 "")), .val (.str b), none⟩]⟩

def mentionRel (a b : String) (bundle : Option String) : Create :=
  ⟨.mention, .nil, [⟨.qn (formalQ "specificEntity"), .val (.str a), none⟩, ⟨.qn (formalQ "generalEntity"), .val (.str b), none⟩,
                    ⟨.qn (formalQ "bundle"), match bundle with | some s => .val (.str s) | none => .nil, none⟩]⟩

def capitalize (s : String) : String :=
  match s.toList with
  | [] => s
  | c :: cs => String.ofList (c.toUpper :: cs)

/-- the per-kind renaming of predicates on a typed node -/
def readerRename (k : RecKind) (predUri : String) (mapped : Option String) : Sum QName String :=
  -- Sum.inl q: a QualifiedName constant (its str() is the print form); Sum.inr u: still the predicate URI
  let uri := match mapped with | some l => provU l | none => predUri
  let isAct := uri == provU "activity"
  let isAg := uri == provU "agent"
  let isEnt := uri == provU "entity"
  let r0 : Sum QName String := match mapped with | some l => .inl (provQ l) | none => .inr predUri
  let r1 := if k == .communication && isAct then .inl (provQ "informant") else r0
  let r2 := if k == .delegation && isAg then .inl (provQ "responsible") else r1
  let r3 := if (k == .«end» || k == .start) && isEnt then .inl (provQ "trigger") else r2
  let r4 := if k == .«end» && isAct then .inl (provQ "ender") else r3
  let r5 := if k == .start && isAct then .inl (provQ "starter") else r4
  if k == .derivation && isEnt then .inl (provQ "usedEntity") else r5

/-- second pass, one triple: `for id, pred, obj in graph` -/
def triplePass (h : Heap) (doc : Nat) (hint : Term → Option LitHint) (all : List Triple)
    (acc : DecSt × List Create) (t : Triple) : Except Err (DecSt × List Create) := do
  let (st0, creates) := acc
  let id := t.s.str
  let st := st0.ensureOther id
  let pred := t.p.str
  if pred == rdfType then return (st, creates)
  let objs := t.o.str
  let step : DecSt × List Create ← (do
    match relationKindOf pred with
    | some k =>
      if k == .alternate then pure (st, creates ++ [plainRel .alternate objs id])
      else if k == .mention then
        let mb := (all.filter (fun x => x.s == .iri id && x.p == .iri (provU "asInBundle"))).getLast?.map (·.o.str)
        pure (st, creates ++ [mentionRel id objs mb])
      else if k == .delegation || k == .association then
        let q := provU ("qualified" ++ capitalize (match k with | .delegation => "delegation" | _ => "association"))
        let qb := (all.filter (fun x => x.s == .iri id && x.p == .iri q)).getLast?.map (·.o.str)
        match qb with
        | none => pure (st, creates ++ [plainRel k id objs])
        | some b =>
          match assocGet st.formal b with
          | none => throw errKey
          | some slots =>
            if slots.length < 2 then throw errIndex
            let k0 := (slots.getD 0 default).1
            let k1 := (slots.getD 1 default).1
            let slots' := slotSet (slotSet slots k0 (some (.val (.str id)))) k1 (some (.val (.str objs)))
            pure ({ st with formal := assocSet st.formal b slots' }, creates)
      else pure (st, creates ++ [plainRel k id objs])
    | none =>
      match assocGet st.ids id with
      | some k =>
        let obj1 ← decodeTerm h doc hint t.o
        let mapped := (predicateMapper.find? (fun p => p.1 == pred)).map (·.2)
        let pn := readerRename k pred mapped
        let predUri := match pn with | .inl q => q.uri | .inr u => u
        let strPn := match pn with | .inl q => q.print | .inr u => u
        let slots := (assocGet st.formal id).getD []
        if slots.any (fun p => p.1.uri == strPn) then
          match (h.validName doc (match pn with | .inl q => .qn q | .inr u => .str u)).2 with
          | none => throw errKey
          | some key =>
            let us := (assocGet st.uniq id).getD []
            let us' := us.map (fun p => if p.1.same key then (p.1, p.2 ++ [obj1]) else p)
            let cnt : Nat := ((us'.find? (fun p => p.1.same key)).map (·.2.length)).getD 0
            let slots' := slotSet slots key (if cnt > 1 then none else some obj1)
            pure ({ st with formal := assocSet st.formal id slots', uniq := assocSet st.uniq id us' }, creates)
        else if !sStartsWith predUri (provU "qualified") && predUri != provU "asInBundle" then
          pure (st.appendOther id (.str strPn) obj1, creates)
        else pure (st, creates)
      | none => pure (st, creates))
  let (st2, creates2) := step
  -- `if local_key in ids: if pred starts with prov:qualified: first formal := id`
  match assocGet st2.ids objs with
  | some _ =>
    if sStartsWith pred (provU "qualified") then
      let slots := (assocGet st2.formal objs).getD []
      if slots.isEmpty then throw errIndex
      let k0 := (slots.getD 0 default).1
      pure ({ st2 with formal := assocSet st2.formal objs (slotSet slots k0 (some (.val (.str id)))) }, creates2)
    else pure (st2, creates2)
  | none => pure (st2, creates2)

/-- `walk`: all combinations, first key outermost -/
def walk : List (QName × List ArgVal) → List (List (QName × ArgVal))
  | [] => [[]]
  | (k, vs) :: rest => vs.flatMap (fun v => (walk rest).map (fun tail => (k, v) :: tail))

/-- the float hint that goes with a value read from an xsd:double literal -/
def fltFor (fltOf : String → Option FloatAtom) : ArgVal → Option FloatAtom
  | .val (.lit lex (some t) none) => if t.uri == xsdU "double" then fltOf lex else none
  | _ => none

def slotsToAttrs (fltOf : String → Option FloatAtom) (slots : List (QName × Option ArgVal)) : List AttrArg :=
  slots.map (fun p => ⟨.qn p.1, p.2.getD .nil, fltFor fltOf (p.2.getD .nil)⟩)

def otherToAttrs (fltOf : String → Option FloatAtom) (o : List (NameArg × ArgVal)) : List AttrArg :=
  o.map (fun p => ⟨p.1, p.2, fltFor fltOf p.2⟩)

/-- third pass: the records created for the typed nodes, in `ids` order; then the leftover check
    (`ids[key].add_attributes(val)`: KeyError for an untyped subject, AttributeError for a created one) -/
def creationPass (fltOf : String → Option FloatAtom) (st : DecSt) : List Create × Option Err := Id.run do
  let mut out : List Create := []
  let mut other := st.other
  for (id, k) in st.ids do
    let attrs := assocGet other id
    let slots := (assocGet st.formal id).getD []
    let us := (assocGet st.uniq id).getD []
    let toWalk := us.filter (fun p => p.2.length > 1)
    let extra := otherToAttrs fltOf (attrs.getD [])
    if toWalk.isEmpty then
      out := out ++ [⟨k, .str id, slotsToAttrs fltOf slots ++ extra⟩]
    else
      -- formal_attributes[id] is updated in place: later subsets see the earlier assignments
      let mut cur := slots
      for subset in walk toWalk do
        for (key, v) in subset do
          cur := slotSet cur key (some v)
        out := out ++ [⟨k, .str id, slotsToAttrs fltOf cur ++ extra⟩]
    if attrs.isSome then other := assocSet other id []
  let mut err : Option Err := none
  for (key, val) in other do
    if !val.isEmpty && err.isNone then
      err := some (if (assocGet st.ids key).isSome then errAttr else errKey)
  return (out, err)

/-- `decode_container(graph, bundle)` -/
def decodeContainer (h : Heap) (doc c : Nat) (hint : Term → Option LitHint) (fltOf : String → Option FloatAtom)
    (typeTriples all : List Triple) (pat : List Triple := all) : Heap × Option Err :=
  match typeTriples.foldlM (typePass h doc hint) ({} : DecSt) with
  | .error e => (h, some e)
  | .ok st1 =>
    -- relations met in the triple pass are created at once, in iteration order; the typed nodes afterwards.
    -- name resolution during the passes uses the document's manager as it is *then*; records created in between can
    -- register namespaces, so the passes are interleaved with the heap
    let rec go (h : Heap) (st : DecSt) : List Triple → Heap × Except Err DecSt
      | [] => (h, .ok st)
      | t :: rest =>
        -- the look-ups `graph.triples((id, prov:qualified…/asInBundle, None))` see the store's *index* order (`pat`), which is
        -- not the order in which `for id, pred, obj in graph` iterates the context's triple set (`all`)
        match triplePass h doc hint pat (st, []) t with
        | .error e => (h, .error e)
        | .ok (st', creates) =>
          let rec mk (h : Heap) : List Create → Heap × Option Err
            | [] => (h, none)
            | cr :: more =>
              match h.newRecord c cr.kind cr.id cr.attrs with
              | (h', .ok _) => mk h' more
              | (h', .error e) => (h', some e)
          match mk h creates with
          | (h', none) => go h' st' rest
          | (h', some e) => (h', .error e)
    match go h st1 all with
    | (h2, .error e) => (h2, some e)
    | (h2, .ok st2) =>
      let (creates, leftover) := creationPass fltOf st2
      let rec mk (h : Heap) : List Create → Heap × Option Err
        | [] => (h, none)
        | cr :: more =>
          match h.newRecord c cr.kind cr.id cr.attrs with
          | (h', .ok _) => mk h' more
          | (h', .error e) => (h', some e)
      match mk h2 creates with
      | (h3, none) => (h3, leftover)
      | (h3, some e) => (h3, some e)

structure GraphIn where
  id : Option String            -- none: the default graph (a blank-node identifier)
  typeTriples : List Triple
  all : List Triple
  pat : List Triple := all        -- results of the pattern queries the reader issues, in the store's index order
  deriving Inhabited

/-- `decode_document(content, document)` on a fresh document -/
def decodeDocument (h : Heap) (nss : List Ns) (graphs : List GraphIn) (hint : Term → Option LitHint)
    (fltOf : String → Option FloatAtom := fun _ => none) : Heap × Except Err Nat :=
  let (h0, d) := h.newDoc
  let h1 := nss.foldl (fun (hh : Heap) n => (hh.addNs d n).1) h0
  let rec go (h : Heap) : List GraphIn → Heap × Option Err
    | [] => (h, none)
    | g :: rest =>
      match g.id with
      | none =>
        match decodeContainer h d d hint fltOf g.typeTriples g.all g.pat with
        | (h', none) => go h' rest
        | (h', some e) => (h', some e)
      | some bid =>
        match h.bundle d (.str bid) with
        | (h', .error e) => (h', some e)
        | (h', .ok b) =>
          match decodeContainer h' d b hint fltOf g.typeTriples g.all g.pat with
          | (h'', none) => go h'' rest
          | (h'', some e) => (h'', some e)
  match go h1 graphs with
  | (h2, none) => (h2, .ok d)
  | (h2, some e) => (h2, .error e)

end Prov.Rdf

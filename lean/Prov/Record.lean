/-
  Records: `prov.model.ProvRecord` — attribute storage, literal normalisation, `add_attributes`.
-/
import Prov.NsMgr
import Prov.Value
import Prov.Kinds

namespace Prov
open Text

/-! ### ISO date-time strings (`dateutil.parser.parse` restricted to `isoformat()` output) -/

def digitsToNat? (cs : List Char) : Option Nat :=
  if cs.isEmpty then none
  else cs.foldl (fun acc c => match acc with
    | none => none
    | some n => if c.isDigit then some (n * 10 + (c.toNat - '0'.toNat)) else none) (some 0)

def isLeap (y : Nat) : Bool := (y % 4 == 0 && y % 100 != 0) || y % 400 == 0

def daysInMonth (y m : Nat) : Nat :=
  if m == 2 then (if isLeap y then 29 else 28)
  else if m == 4 || m == 6 || m == 9 || m == 11 then 30 else 31

def parseTz (cs : List Char) : Option (Option Int) :=
  match cs with
  | [] => some none
  | ['Z'] => some (some 0)
  | sg :: h1 :: h2 :: ':' :: m1 :: m2 :: [] =>
    if sg == '+' || sg == '-' then
      match digitsToNat? [h1, h2], digitsToNat? [m1, m2] with
      | some h, some m =>
        if h < 24 && m < 60 then
          let off : Int := (h * 60 + m : Nat)
          some (some (if sg == '-' then -off else off))
        else none
      | _, _ => none
    else none
  | _ => none

/-- split the fraction digits off the front of a list -/
def takeDigits : List Char → List Char × List Char
  | [] => ([], [])
  | c :: cs => if c.isDigit then let (a, b) := takeDigits cs; (c :: a, b) else ([], c :: cs)

/-- the optional fraction of a second: up to six digits after '.', right-padded to microseconds -/
def parseFrac (rest : List Char) : Option Nat × List Char :=
  match rest with
  | '.' :: more =>
    let (ds, r) := takeDigits more
    if ds.isEmpty || ds.length > 6 then (none, r)
    else ((digitsToNat? (ds ++ List.replicate (6 - ds.length) '0')), r)
  | r => (some 0, r)

def parseIso (s : String) : Option DateTime :=
  match s.toList with
  | y1 :: y2 :: y3 :: y4 :: '-' :: mo1 :: mo2 :: '-' :: d1 :: d2 :: 'T' ::
    h1 :: h2 :: ':' :: mi1 :: mi2 :: ':' :: s1 :: s2 :: rest =>
    match digitsToNat? [y1, y2, y3, y4], digitsToNat? [mo1, mo2], digitsToNat? [d1, d2],
          digitsToNat? [h1, h2], digitsToNat? [mi1, mi2], digitsToNat? [s1, s2] with
    | some y, some mo, some d, some h, some mi, some sec =>
      if y ≥ 1 && 1 ≤ mo && mo ≤ 12 && 1 ≤ d && d ≤ daysInMonth y mo && h < 24 && mi < 60 && sec < 60 then
        let (us?, rest') : Option Nat × List Char := parseFrac rest
        match us?, parseTz rest' with
        | some us, some tz => some ⟨y, mo, d, h, mi, sec, us, tz⟩
        | _, _ => none
      else none
    | _, _, _, _, _, _ => none
  | _ => none

/-! ### Records -/

/-- Errors observable from outside: a library exception class or a raw Python crash. -/
abbrev Err := String
def errProv : Err := "lib:ProvException"
def errInvalidQName : Err := "lib:ProvExceptionInvalidQualifiedName"
def errIdRequired : Err := "lib:ProvElementIdentifierRequired"
def errValue : Err := "crash:ValueError"
def errType : Err := "crash:TypeError"
def errKey : Err := "crash:KeyError"
def errIndex : Err := "crash:IndexError"
def errAttr : Err := "crash:AttributeError"

/-- One record: `_attributes` is an insertion-ordered dict (keys by URI) of sets (values by `keyEq`). -/
structure Record where
  kind  : RecKind
  id    : Option QName
  attrs : List (QName × List Value)
  deriving Repr, Inhabited, DecidableEq

/-- values currently stored under the attribute whose URI is `a.uri` -/
def Record.get (r : Record) (a : QName) : List Value :=
  match r.attrs.find? (fun p => p.1.same a) with
  | some p => p.2
  | none => []

def setInsert (vs : List Value) (v : Value) : List Value :=
  if vs.any (fun w => w.keyEq v) then vs else vs ++ [v]

def attrsInsert (as : List (QName × List Value)) (a : QName) (v : Value) : List (QName × List Value) :=
  match as with
  | [] => [(a, [v])]
  | (k, vs) :: rest =>
    if k.same a then (k, setInsert vs v) :: rest else (k, vs) :: attrsInsert rest a v

/-- `self._attributes[attr].add(value)` -/
def Record.insert (r : Record) (a : QName) (v : Value) : Record :=
  { r with attrs := attrsInsert r.attrs a v }

/-- `ProvRecord.attributes`: flat list of (name, value). -/
def Record.flat (r : Record) : List (QName × Value) :=
  r.attrs.flatMap (fun p => p.2.map (fun v => (p.1, v)))

def formalQ (l : String) : QName := provQ l

/-- `formal_attributes`: (name, first value or None) per formal slot. -/
def Record.formalAttrs (r : Record) : List (QName × Option Value) :=
  r.kind.formals.map (fun l => (formalQ l, (r.get (formalQ l)).head?))

def isFormalOf (k : RecKind) (a : QName) : Bool := inProvSet k.formals a

/-- `extra_attributes` -/
def Record.extraAttrs (r : Record) : List (QName × Value) :=
  r.flat.filter (fun p => !isFormalOf r.kind p.1)

/-- A value as passed by the caller. -/
inductive ArgVal where
  | val (v : Value)
  | recId (id : Option QName)     -- a ProvRecord object: stands for its identifier
  | nil
  deriving Repr, Inhabited

/-- `parse_boolean` -/
def parseBoolean (s : String) : Option Bool :=
  let l := s.toLower
  if l == "false" || l == "0" then some false
  else if l == "true" || l == "1" then some true
  else none

/-- Python `int(str)` on decimal spellings: digits with an optional sign (`-` or `+`), leading zeros allowed; surrounding
    white space, which Python also accepts, is outside the model's envelope (the generator stays inside it). -/
def parseInt (s : String) : Option Int :=
  match s.toInt? with
  | some n => some n
  | none =>
    match s.toList with
    | '+' :: rest => (String.ofList rest).toNat?.map Int.ofNat
    | _ => none

/-- Result of normalising one value: stored value, `none` = Python `None`, or a crash. -/
inductive Conv where
  | ok (v : Value)
  | isNone
  | crash (e : Err)
  deriving Repr

/-- `parse_xsd_types(value, datatype)` for a datatype present in the parser table.
    `flt` = the float the harness obtained for this lexical form with `float()`, if any. -/
def parseXsd (p : XsdParser) (lex : String) (flt : Option FloatAtom) : Conv :=
  match p with
  | .str => .ok (.str lex)
  | .double => match flt with
    | some f => .ok (.float f)
    | none => .crash errValue
  | .int => match parseInt lex with
    | some n => .ok (.int n)
    | none => .crash errValue
  | .boolean => match parseBoolean lex with
    | some b => .ok (.bool b)
    | none => .isNone
  | .dateTime => match parseIso lex with
    | some t => .ok (.dt t)
    | none => .isNone
  | .anyURI => .ok (.uri lex)

/-- a Literal that stays a Literal: its datatype is resolved through the bundle (registering the namespace) -/
def rehomeLit (m : NsMgr) (lex : String) (ty : Option QName) (lang : Option String) : NsMgr × Conv :=
  match ty with
  | some t => let r := m.validQ t; (r.1, .ok (.lit lex (some r.2) lang))
  | none => (m, .ok (.lit lex none lang))

/-- `_auto_literal_conversion`. Returns the new manager state (the `QualifiedName` branches
    register namespaces). `flt` as in `parseXsd`. -/
def autoLiteral (m : NsMgr) (v : ArgVal) (flt : Option FloatAtom) : NsMgr × Conv :=
  match v with
  | .nil => (m, .isNone)
  | .recId none => (m, .isNone)
  | .recId (some q) => let (m', q') := m.validQ q; (m', .ok (.qn q'))
  | .val (.qn q) => let (m', q') := m.validQ q; (m', .ok (.qn q'))
  | .val (.lit lex ty none) =>
    match ty with
    | some t =>
      match xsdParserOf t with
      | some p =>
        match parseXsd p lex flt with
        | .ok v => (m, .ok v)
        | .isNone => rehomeLit m lex ty none
        | .crash e => (m, .crash e)
      | none => rehomeLit m lex ty none
    | none => (m, .ok (.str lex))
  | .val (.lit lex ty (some lang)) => rehomeLit m lex ty (some lang)
  | .val v => (m, .ok v)

/-- what the caller passed as an attribute-name / reference argument -/
def ArgVal.toNameArg : ArgVal → Option NameArg
  | .nil => some .nil
  | .recId none => some .nil
  | .recId (some q) => some (.qn q)
  | .val (.qn q) => some (.qn q)
  | .val (.str s) => some (.str s)
  | .val (.uri u) => some (.str u)
  | .val _ => none          -- any other Python object: `valid_qualified_name` returns None

/-- One (name, value) pair of `add_attributes`, after the `None` skip. -/
structure AttrArg where
  name : NameArg
  value : ArgVal
  flt : Option FloatAtom := none
  deriving Repr, Inhabited

/-- `PROV_ATTR_COLLECTION in [_i[0] for _i in attributes]`: only name *objects* with that URI count. -/
def isCollectionCall (attrs : List AttrArg) : Bool :=
  attrs.any (fun a => match a.name with
    | .qn q => q.uri == provUri ++ "collection"
    | _ => false)

/-- the three classes of attribute: reference / time / other; yields the value to store -/
def convValue (parent : Option NsMgr) (m1 : NsMgr) (attr : QName) (a : AttrArg) : NsMgr × Conv :=
  if isRefAttr attr then
    match a.value.toNameArg with
    | some na =>
      let r := m1.validName parent na
      (r.1, match r.2 with | some q => .ok (.qn q) | none => .isNone)
    | none => (m1, .isNone)
  else if isTimeAttr attr then
    match a.value with
    | .val (.dt t) => (m1, .ok (.dt t))
    | .val (.str s) => (m1, match parseIso s with | some t => .ok (.dt t) | none => .isNone)
    | _ => (m1, .crash errType)                         -- dateutil: TypeError on non-strings
  else autoLiteral m1 a.value a.flt

/-- the single-value guard and the insertion -/
def storeValue (isColl : Bool) (r : Record) (attr : QName) (v : Value) : Record × Option Err :=
  if !isColl && isProvAttr attr && !(r.get attr).isEmpty then
    match (r.get attr).head? with
    | some ex => if v.pyEq ex then (r, none) else (r, some errProv)
    | none => (r, none)
  else (r.insert attr v, none)

/-- The loop body of `add_attributes` for one pair. -/
def addOne (parent : Option NsMgr) (isColl : Bool) (m : NsMgr) (r : Record) (a : AttrArg) :
    NsMgr × Record × Option Err :=
  match a.value with
  | .nil => (m, r, none)                                     -- `if original_value is None: continue`
  | _ =>
    let r1 := m.validName parent a.name
    match r1.2 with
    | none => (r1.1, r, some errInvalidQName)
    | some attr =>
      let r2 := convValue parent r1.1 attr a
      match r2.2 with
      | .crash e => (r2.1, r, some e)
      | .isNone => (r2.1, r, some errProv)                    -- "Invalid value for attribute"
      | .ok v =>
        let r3 := storeValue isColl r attr v
        (r2.1, r3.1, r3.2)

/-- `add_attributes(attributes)`: stops at the first error, keeping what was added before it. -/
def addAttrsLoop (parent : Option NsMgr) (isColl : Bool) (m : NsMgr) (r : Record) :
    List AttrArg → NsMgr × Record × Option Err
  | [] => (m, r, none)
  | a :: rest =>
    match addOne parent isColl m r a with
    | (m', r', none) => addAttrsLoop parent isColl m' r' rest
    | res => res

def Record.addAttributes (parent : Option NsMgr) (m : NsMgr) (r : Record) (attrs : List AttrArg) :
    NsMgr × Record × Option Err :=
  addAttrsLoop parent (isCollectionCall attrs) m r attrs

end Prov

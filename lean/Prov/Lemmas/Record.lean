/-
  Lemmas about attribute storage (`Record.get`, `Record.insert`).
-/
import Prov.Record

namespace Prov

theorem QName.same_iff {a b : QName} : a.same b = true ↔ a.uri = b.uri := by
  simp [QName.same]

theorem QName.same_false_iff {a b : QName} : a.same b = false ↔ a.uri ≠ b.uri := by
  simp [QName.same]

def attrsGet (as : List (QName × List Value)) (a : QName) : List Value :=
  match as.find? (fun p => p.1.same a) with
  | some p => p.2
  | none => []

theorem Record.get_eq (r : Record) (a : QName) : r.get a = attrsGet r.attrs a := rfl

theorem attrsGet_nil (a : QName) : attrsGet [] a = [] := rfl

theorem attrsGet_cons (k : QName) (vs : List Value) (tl : List (QName × List Value)) (a : QName) :
    attrsGet ((k, vs) :: tl) a = if k.same a = true then vs else attrsGet tl a := by
  unfold attrsGet
  rw [List.find?_cons]
  by_cases h : k.same a = true <;> simp [h]

theorem attrsGet_insert_same (as : List (QName × List Value)) (a b : QName) (v : Value)
    (h : a.uri = b.uri) : attrsGet (attrsInsert as a v) b = setInsert (attrsGet as b) v := by
  induction as with
  | nil =>
    have : a.same b = true := QName.same_iff.mpr h
    simp [attrsInsert, attrsGet_cons, attrsGet_nil, this, setInsert]
  | cons hd tl ih =>
    obtain ⟨k, vs⟩ := hd
    by_cases hk : k.same a = true
    · have hkb : k.same b = true := QName.same_iff.mpr ((QName.same_iff.mp hk).trans h)
      simp [attrsInsert, attrsGet_cons, hk, hkb]
    · have hk' : k.same a = false := by simpa using hk
      have hkb : k.same b = false := by
        rw [QName.same_false_iff] at hk' ⊢
        intro e; exact hk' (e.trans h.symm)
      simp [attrsInsert, hk', attrsGet_cons, hkb, ih]

theorem attrsGet_insert_other (as : List (QName × List Value)) (a b : QName) (v : Value)
    (h : a.uri ≠ b.uri) : attrsGet (attrsInsert as a v) b = attrsGet as b := by
  induction as with
  | nil =>
    have : a.same b = false := QName.same_false_iff.mpr h
    simp [attrsInsert, attrsGet_cons, attrsGet_nil, this]
  | cons hd tl ih =>
    obtain ⟨k, vs⟩ := hd
    by_cases hk : k.same a = true
    · have hkb : k.same b = false := by
        rw [QName.same_false_iff]
        intro e; exact h ((QName.same_iff.mp hk).symm.trans e)
      simp [attrsInsert, attrsGet_cons, hk, hkb]
    · have hk' : k.same a = false := by simpa using hk
      by_cases hkb : k.same b = true
      · simp [attrsInsert, hk', attrsGet_cons, hkb]
      · have hkb' : k.same b = false := by simpa using hkb
        simp [attrsInsert, hk', attrsGet_cons, hkb', ih]

theorem Record.get_insert_same (r : Record) (a b : QName) (v : Value) (h : a.uri = b.uri) :
    (r.insert a v).get b = setInsert (r.get b) v := by
  simp only [Record.get_eq, Record.insert]
  exact attrsGet_insert_same _ _ _ _ h

theorem Record.get_insert_other (r : Record) (a b : QName) (v : Value) (h : a.uri ≠ b.uri) :
    (r.insert a v).get b = r.get b := by
  simp only [Record.get_eq, Record.insert]
  exact attrsGet_insert_other _ _ _ _ h

theorem mem_setInsert {vs : List Value} {v w : Value} (h : w ∈ setInsert vs v) : w ∈ vs ∨ w = v := by
  unfold setInsert at h
  split at h
  · exact Or.inl h
  · simpa using h

theorem setInsert_nil (v : Value) : setInsert [] v = [v] := by simp [setInsert]

theorem inProvSet_congr {ls : List String} {a b : QName} (h : a.uri = b.uri) :
    inProvSet ls a = inProvSet ls b := by
  simp [inProvSet, h]

theorem isRefAttr_congr {a b : QName} (h : a.uri = b.uri) : isRefAttr a = isRefAttr b := inProvSet_congr h
theorem isTimeAttr_congr {a b : QName} (h : a.uri = b.uri) : isTimeAttr a = isTimeAttr b := inProvSet_congr h
theorem isProvAttr_congr {a b : QName} (h : a.uri = b.uri) : isProvAttr a = isProvAttr b := by
  simp [isProvAttr, isRefAttr_congr h, isTimeAttr_congr h]

end Prov

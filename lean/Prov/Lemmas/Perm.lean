/-
  Generic list facts about grouping: partitioning a list by a key over a duplicate-free key list is a permutation.
-/
namespace Prov.Perm

theorem flatMap_congr' {α β : Type} {f g : α → List β} : ∀ (l : List α), (∀ a ∈ l, f a = g a) → l.flatMap f = l.flatMap g
  | [], _ => rfl
  | a :: l, h => by
    rw [List.flatMap_cons, List.flatMap_cons, h a List.mem_cons_self,
      flatMap_congr' l (fun b hb => h b (List.mem_cons_of_mem _ hb))]

/-- grouping a list by a key, over a duplicate-free list of keys that covers it, is a permutation of the list -/
theorem flatMap_filter_perm {α κ : Type} [DecidableEq κ] (key : α → κ) :
    ∀ (ks : List κ) (out : List α), ks.Nodup → (∀ e ∈ out, key e ∈ ks) →
      (ks.flatMap (fun t => out.filter (fun e => key e == t))).Perm out
  | [], out, _, hcov => by
    cases out with
    | nil => simp
    | cons e rest => exact absurd (hcov e List.mem_cons_self) (by simp)
  | k :: ks, out, hnd, hcov => by
    obtain ⟨hk, hnd'⟩ := List.nodup_cons.mp hnd
    rw [List.flatMap_cons]
    have hrest : ks.flatMap (fun t => out.filter (fun e => key e == t)) =
        ks.flatMap (fun t => (out.filter (fun e => !(key e == k))).filter (fun e => key e == t)) := by
      apply flatMap_congr'
      intro t ht
      rw [List.filter_filter]
      apply List.filter_congr
      intro e _
      by_cases h1 : key e = t
      · have : t ≠ k := fun h2 => hk (h2 ▸ ht)
        simp [h1, this]
      · simp [h1]
    rw [hrest]
    have ih := flatMap_filter_perm key ks (out.filter (fun e => !(key e == k))) hnd' (by
      intro e he
      obtain ⟨he1, he2⟩ := List.mem_filter.mp he
      have := hcov e he1
      rcases List.mem_cons.mp this with h | h
      · simp [h] at he2
      · exact h)
    exact (List.Perm.append (List.Perm.refl _) ih).trans (List.filter_append_perm (fun e => key e == k) out)

theorem perm_flatMap_of_perm {α β : Type} {f g : α → List β} :
    ∀ (l : List α), (∀ a ∈ l, (f a).Perm (g a)) → (l.flatMap f).Perm (l.flatMap g)
  | [], _ => by simp
  | a :: l, h => by
    rw [List.flatMap_cons, List.flatMap_cons]
    exact List.Perm.append (h a List.mem_cons_self) (perm_flatMap_of_perm l (fun b hb => h b (List.mem_cons_of_mem _ hb)))


end Prov.Perm

/-
  `dateutil.parser.parse(t.isoformat()) = t` on the model: `parseIso (DateTime.iso t) = some t` for every valid
  date-time. Removes the lexical assumption the datetime round-trip theorems of C01 / C02 / C07 used to carry.
-/
import Prov.Record

namespace Prov

theorem pad_toList (n k : Nat) : (pad n k).toList = List.replicate (k - (Nat.toDigits 10 n).length) '0' ++ Nat.toDigits 10 n := by
  unfold pad
  simp [String.toList_append]
  rw [← String.length_toList, Nat.toList_repr]

/-- the model's digit reader is core's `ofDigitChars` on digit strings -/
theorem digitsToNat_eq (cs : List Char) (hne : cs ≠ []) (hd : ∀ c ∈ cs, c.isDigit = true) :
    digitsToNat? cs = some (Nat.ofDigitChars 10 cs 0) := by
  unfold digitsToNat?
  have : cs.isEmpty = false := by cases cs <;> simp_all
  simp only [this, Bool.false_eq_true, if_false]
  rw [Nat.ofDigitChars_eq_foldl]
  suffices ∀ init, cs.foldl (fun acc c => match acc with
      | none => none
      | some n => if c.isDigit then some (n * 10 + (c.toNat - '0'.toNat)) else none) (some init) =
      some (cs.foldl (fun sofar c => 10 * sofar + (c.toNat - '0'.toNat)) init) from this 0
  clear this hne
  induction cs with
  | nil => intro init; rfl
  | cons c rest ih =>
    intro init
    simp only [List.foldl_cons, hd c List.mem_cons_self, if_true]
    rw [Nat.mul_comm init 10]
    exact ih (fun x hx => hd x (List.mem_cons_of_mem _ hx)) _

/-- a number below 10^k, zero-padded to k places, is k digits that read back as the number -/
theorem pad_digits (n k : Nat) (h : n < 10 ^ k) (hk : 0 < k) :
    (pad n k).toList.length = k ∧ digitsToNat? (pad n k).toList = some n ∧ ∀ c ∈ (pad n k).toList, c.isDigit = true := by
  have hlen : (Nat.toDigits 10 n).length ≤ k := (Nat.length_toDigits_le_iff (by decide) hk).mpr h
  have hdig : ∀ c ∈ List.replicate (k - (Nat.toDigits 10 n).length) '0' ++ Nat.toDigits 10 n, c.isDigit = true := by
    intro c hc
    rcases List.mem_append.mp hc with h' | h'
    · rw [(List.mem_replicate.mp h').2]; decide
    · exact Nat.isDigit_of_mem_toDigits (by decide) (by decide) h'
  rw [pad_toList]
  refine ⟨by simp; omega, ?_, hdig⟩
  rw [digitsToNat_eq _ (by simp [Nat.toDigits_ne_nil]) hdig]
  rw [Nat.ofDigitChars_append, Nat.ofDigitChars_replicate_zero]
  simp [Nat.ofDigitChars_ten_toDigits]

theorem len2 {α} (l : List α) (h : l.length = 2) : ∃ a b, l = [a, b] := by
  match l, h with
  | [a, b], _ => exact ⟨a, b, rfl⟩

theorem len4 {α} (l : List α) (h : l.length = 4) : ∃ a b c d, l = [a, b, c, d] := by
  match l, h with
  | [a, b, c, d], _ => exact ⟨a, b, c, d, rfl⟩

theorem takeDigits_append (ds r : List Char) (hd : ∀ c ∈ ds, c.isDigit = true)
    (hr : r = [] ∨ ∃ c cs, r = c :: cs ∧ c.isDigit = false) : takeDigits (ds ++ r) = (ds, r) := by
  induction ds with
  | nil =>
    rcases hr with rfl | ⟨c, cs, rfl, hc⟩
    · rfl
    · simp [takeDigits, hc]
  | cons d rest ih =>
    have := ih (fun c hc => hd c (List.mem_cons_of_mem _ hc))
    simp [takeDigits, hd d List.mem_cons_self, this]

/-- a date-time as `datetime` can hold it -/
structure ValidDT (t : DateTime) : Prop where
  y : 1 ≤ t.y ∧ t.y ≤ 9999
  mo : 1 ≤ t.mo ∧ t.mo ≤ 12
  d : 1 ≤ t.d ∧ t.d ≤ daysInMonth t.y t.mo
  h : t.h < 24
  mi : t.mi < 60
  s : t.s < 60
  us : t.us < 1000000
  tz : ∀ off, t.tz = some off → off.natAbs < 1440

/-- the time-zone suffix of `isoformat()` -/
def tzText (tz : Option Int) : String :=
  match tz with
  | none => ""
  | some off =>
    let sign := if off < 0 then "-" else "+"
    let a := off.natAbs
    sign ++ pad (a / 60) 2 ++ ":" ++ pad (a % 60) 2

theorem parseTz_tzText (tz : Option Int) (h : ∀ off, tz = some off → off.natAbs < 1440) :
    parseTz (tzText tz).toList = some tz ∧
    ((tzText tz).toList = [] ∨ ∃ c cs, (tzText tz).toList = c :: cs ∧ c.isDigit = false ∧ c ≠ '.') := by
  cases tz with
  | none => exact ⟨rfl, Or.inl rfl⟩
  | some off =>
    have ha := h off rfl
    obtain ⟨l1, r1, _⟩ := pad_digits (off.natAbs / 60) 2 (by omega) (by decide)
    obtain ⟨l2, r2, _⟩ := pad_digits (off.natAbs % 60) 2 (by omega) (by decide)
    obtain ⟨h1, h2, e1⟩ := len2 _ l1
    obtain ⟨m1, m2, e2⟩ := len2 _ l2
    rw [e1] at r1
    rw [e2] at r2
    by_cases hneg : off < 0
    · have hl : (tzText (some off)).toList = '-' :: h1 :: h2 :: ':' :: m1 :: m2 :: [] := by
        simp [tzText, hneg, String.toList_append, e1, e2]
      refine ⟨?_, Or.inr ⟨'-', _, hl, by decide, by decide⟩⟩
      rw [hl]
      simp only [parseTz, r1, r2]
      have : off.natAbs / 60 < 24 := by omega
      have h60 : off.natAbs % 60 < 60 := by omega
      simp [this, h60]
      omega
    · have hl : (tzText (some off)).toList = '+' :: h1 :: h2 :: ':' :: m1 :: m2 :: [] := by
        simp [tzText, hneg, String.toList_append, e1, e2]
      refine ⟨?_, Or.inr ⟨'+', _, hl, by decide, by decide⟩⟩
      rw [hl]
      simp only [parseTz, r1, r2]
      have : off.natAbs / 60 < 24 := by omega
      have h60 : off.natAbs % 60 < 60 := by omega
      simp [this, h60]
      omega

theorem parseFrac_none (z : List Char)
    (hz : z = [] ∨ ∃ c cs, z = c :: cs ∧ c.isDigit = false ∧ c ≠ '.') : parseFrac z = (some 0, z) := by
  rcases hz with rfl | ⟨c, cs, rfl, _, hdot⟩
  · rfl
  · unfold parseFrac
    split
    · rename_i heq
      injection heq with e1 _
      exact absurd e1 hdot
    · rfl

theorem parseFrac_six (us : Nat) (hus : us < 1000000) (z : List Char)
    (hz : z = [] ∨ ∃ c cs, z = c :: cs ∧ c.isDigit = false ∧ c ≠ '.') :
    parseFrac ('.' :: ((pad us 6).toList ++ z)) = (some us, z) := by
  obtain ⟨lus, rus, dus⟩ := pad_digits us 6 (by omega) (by decide)
  have hr : z = [] ∨ ∃ c cs, z = c :: cs ∧ c.isDigit = false := by
    rcases hz with h | ⟨c, cs, h, hc, _⟩
    · exact Or.inl h
    · exact Or.inr ⟨c, cs, h, hc⟩
  have htd := takeDigits_append (pad us 6).toList z dus hr
  have hne : (pad us 6).toList.isEmpty = false := by
    cases hp : (pad us 6).toList with
    | nil => rw [hp] at lus; cases lus
    | cons _ _ => rfl
  simp only [parseFrac, htd, hne, lus]
  simp [rus]

theorem iso_eq (t : DateTime) : t.iso =
    pad t.y 4 ++ "-" ++ pad t.mo 2 ++ "-" ++ pad t.d 2 ++ "T" ++ pad t.h 2 ++ ":" ++ pad t.mi 2 ++ ":" ++ pad t.s 2 ++
      (if t.us = 0 then "" else "." ++ pad t.us 6) ++ tzText t.tz := by
  unfold DateTime.iso tzText
  cases t.tz <;> rfl

/-- the characters of `isoformat()`: 19 fixed positions, then the fraction and zone -/
theorem iso_toList (t : DateTime) (y1 y2 y3 y4 mo1 mo2 d1 d2 h1 h2 mi1 mi2 s1 s2 : Char)
    (ey : (pad t.y 4).toList = [y1, y2, y3, y4]) (emo : (pad t.mo 2).toList = [mo1, mo2]) (ed : (pad t.d 2).toList = [d1, d2])
    (eh : (pad t.h 2).toList = [h1, h2]) (emi : (pad t.mi 2).toList = [mi1, mi2]) (es : (pad t.s 2).toList = [s1, s2]) :
    t.iso.toList = y1 :: y2 :: y3 :: y4 :: '-' :: mo1 :: mo2 :: '-' :: d1 :: d2 :: 'T' ::
      h1 :: h2 :: ':' :: mi1 :: mi2 :: ':' :: s1 :: s2 ::
      ((if t.us = 0 then "" else "." ++ pad t.us 6).toList ++ (tzText t.tz).toList) := by
  rw [iso_eq]
  simp only [String.toList_append, ey, emo, ed, eh, emi, es]
  simp

theorem frac_tz (t : DateTime) (hv : ValidDT t) :
    parseFrac ((if t.us = 0 then "" else "." ++ pad t.us 6).toList ++ (tzText t.tz).toList) = (some t.us, (tzText t.tz).toList) ∧
    parseTz (tzText t.tz).toList = some t.tz := by
  obtain ⟨htz, hzhead⟩ := parseTz_tzText t.tz hv.tz
  refine ⟨?_, htz⟩
  by_cases hus : t.us = 0
  · rw [if_pos hus, hus]
    simp only [String.toList_empty, List.nil_append]
    exact parseFrac_none _ hzhead
  · rw [if_neg hus]
    have hdot : (".": String).toList = ['.'] := rfl
    rw [String.toList_append, hdot]
    exact parseFrac_six t.us hv.us _ hzhead

/-- the core of `parseIso` once the 19 fixed characters are read -/
theorem parseIso_core (y mo d h mi sec us : Nat) (tz : Option Int) (rest : List Char)
    (y1 y2 y3 y4 mo1 mo2 d1 d2 h1 h2 mi1 mi2 s1 s2 : Char)
    (ry : digitsToNat? [y1, y2, y3, y4] = some y) (rmo : digitsToNat? [mo1, mo2] = some mo) (rd : digitsToNat? [d1, d2] = some d)
    (rh : digitsToNat? [h1, h2] = some h) (rmi : digitsToNat? [mi1, mi2] = some mi) (rs : digitsToNat? [s1, s2] = some sec)
    (hcheck : (decide (y ≥ 1) && decide (1 ≤ mo) && decide (mo ≤ 12) && decide (1 ≤ d) &&
      decide (d ≤ daysInMonth y mo) && decide (h < 24) && decide (mi < 60) && decide (sec < 60)) = true)
    (hfrac : parseFrac rest = (some us, (parseFrac rest).2)) (htz : parseTz (parseFrac rest).2 = some tz)
    (s : String) (hs : s.toList = y1 :: y2 :: y3 :: y4 :: '-' :: mo1 :: mo2 :: '-' :: d1 :: d2 :: 'T' ::
      h1 :: h2 :: ':' :: mi1 :: mi2 :: ':' :: s1 :: s2 :: rest) :
    parseIso s = some ⟨y, mo, d, h, mi, sec, us, tz⟩ := by
  unfold parseIso
  rw [hs]
  simp only [ry, rmo, rd, rh, rmi, rs]
  rw [if_pos hcheck]
  rw [hfrac]
  simp only [htz]

/-- **`parse(isoformat(t)) = t`** for every valid date-time, with or without microseconds, naive or with any UTC
    offset of whole minutes -/
theorem parseIso_iso (t : DateTime) (hv : ValidDT t) : parseIso t.iso = some t := by
  obtain ⟨ly, ry, _⟩ := pad_digits t.y 4 (by have := hv.y.2; omega) (by decide)
  obtain ⟨lmo, rmo, _⟩ := pad_digits t.mo 2 (by have := hv.mo.2; omega) (by decide)
  obtain ⟨ld, rd, _⟩ := pad_digits t.d 2 (by
    have := hv.d.2
    have : daysInMonth t.y t.mo ≤ 31 := by unfold daysInMonth; split <;> (try split) <;> omega
    omega) (by decide)
  obtain ⟨lh, rh, _⟩ := pad_digits t.h 2 (by have := hv.h; omega) (by decide)
  obtain ⟨lmi, rmi, _⟩ := pad_digits t.mi 2 (by have := hv.mi; omega) (by decide)
  obtain ⟨ls, rs, _⟩ := pad_digits t.s 2 (by have := hv.s; omega) (by decide)
  obtain ⟨y1, y2, y3, y4, ey⟩ := len4 _ ly
  obtain ⟨mo1, mo2, emo⟩ := len2 _ lmo
  obtain ⟨d1, d2, ed⟩ := len2 _ ld
  obtain ⟨h1, h2, eh⟩ := len2 _ lh
  obtain ⟨mi1, mi2, emi⟩ := len2 _ lmi
  obtain ⟨s1, s2, es⟩ := len2 _ ls
  rw [ey] at ry; rw [emo] at rmo; rw [ed] at rd; rw [eh] at rh; rw [emi] at rmi; rw [es] at rs
  obtain ⟨hfrac, htz⟩ := frac_tz t hv
  have hcheck : (decide (t.y ≥ 1) && decide (1 ≤ t.mo) && decide (t.mo ≤ 12) && decide (1 ≤ t.d) &&
      decide (t.d ≤ daysInMonth t.y t.mo) && decide (t.h < 24) && decide (t.mi < 60) && decide (t.s < 60)) = true := by
    simp [hv.y.1, hv.mo.1, hv.mo.2, hv.d.1, hv.d.2, hv.h, hv.mi, hv.s]
  have := parseIso_core t.y t.mo t.d t.h t.mi t.s t.us t.tz _ y1 y2 y3 y4 mo1 mo2 d1 d2 h1 h2 mi1 mi2 s1 s2
    ry rmo rd rh rmi rs hcheck (by rw [hfrac]) (by rw [hfrac]; exact htz) t.iso
    (iso_toList t y1 y2 y3 y4 mo1 mo2 d1 d2 h1 h2 mi1 mi2 s1 s2 ey emo ed eh emi es)
  rw [this]

/-- non-vacuity: a date-time with microseconds and a negative offset -/
example : ValidDT ⟨2024, 2, 29, 23, 59, 59, 123456, some (-330)⟩ :=
  ⟨by decide, by decide, by decide, by decide, by decide, by decide, by decide, by intro off h; cases h; decide⟩

end Prov

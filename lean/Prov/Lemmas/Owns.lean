/-
  Invariant `Inv2` ("every namespace the manager can answer with is bound under its own prefix")
  and the ownership relation used by C03 (b), (c).
-/
import Prov.Lemmas.NsMgr
import Prov.Lemmas.Fresh

namespace Prov
open Text

structure NsMgr.Inv2 (m : NsMgr) : Prop where
  nodup      : m.tbl.keys.Nodup
  key_pfx    : ∀ k v, m.tbl.get? k = some v → v.pfx = k
  rename_tbl : ∀ n e, (n, e) ∈ m.rename → m.tbl.get? e.pfx = some e ∧ e.pfx ≠ ""
  uriMap_tbl : ∀ u e, (u, e) ∈ m.uriMap → m.tbl.get? e.pfx = some e ∧ e.pfx ≠ ""
  pren_tbl   : ∀ p e, (p, e) ∈ m.pren → m.tbl.get? e.pfx = some e ∧ e.pfx ≠ ""
  dflt_pfx   : ∀ d, m.dflt = some d → d.pfx = ""
  empty_key  : ∀ e, m.tbl.get? "" = some e → m.dflt = some e

theorem NsMgr.Inv2.tbl_self {m : NsMgr} (h : m.Inv2) {v : Ns} (hv : v ∈ m.tbl.values) :
    m.tbl.get? v.pfx = some v := by
  simp only [Tbl.values, List.mem_map] at hv
  obtain ⟨⟨k, w⟩, hm, rfl⟩ := hv
  have hg := Tbl.get?_of_mem_nodup h.nodup hm
  have := h.key_pfx _ _ hg
  rw [this]; exact hg

theorem NsMgr.init_inv2 : NsMgr.init.Inv2 := by
  refine ⟨by decide, ?_, ?_, ?_, ?_, ?_, ?_⟩
  · intro k v hkv
    simp only [NsMgr.init, defaultTbl, Tbl.get?] at hkv
    repeat' split at hkv
    all_goals first | (cases hkv; subst_vars; rfl) | (simp at hkv)
  all_goals simp [NsMgr.init, defaultTbl, Tbl.get?]

theorem cand_ne_empty (p : String) (k : Nat) : cand p k ≠ "" := by
  intro h
  have := congrArg String.toList h
  simp [cand, String.toList_append] at this

theorem unusedAux_is_cand (t : Tbl Ns) (p : String) : ∀ fuel k, ∃ j, unusedAux t p fuel k = cand p j := by
  intro fuel
  induction fuel with
  | zero => intro k; exact ⟨k, rfl⟩
  | succ n ih =>
    intro k
    unfold unusedAux
    simp only []
    split
    · exact ih (k + 1)
    · exact ⟨k, rfl⟩

theorem NsMgr.unusedPrefix_ne_empty (m : NsMgr) (p : String) (hp : p ≠ "") : m.unusedPrefix p ≠ "" := by
  unfold NsMgr.unusedPrefix
  split
  · obtain ⟨j, hj⟩ := unusedAux_is_cand m.tbl p (m.tbl.length + 1) 1
    rw [hj]; exact cand_ne_empty p j
  · exact hp

/-- Inserting a binding under a key that is not yet bound keeps `Inv2` (shared by the two
    registering branches of `add_namespace`). -/
theorem inv2_insert_fresh {m : NsMgr} (h : m.Inv2) (nn : Ns) (hne : nn.pfx ≠ "")
    (hfresh : m.tbl.contains nn.pfx = false)
    (rename' : List (Ns × Ns)) (pren' uriMap' : Tbl Ns) (reg' : Tbl Ns)
    (hr : ∀ n e, (n, e) ∈ rename' → (n, e) ∈ m.rename ∨ e = nn)
    (hp : ∀ p e, (p, e) ∈ pren' → (p, e) ∈ m.pren ∨ e = nn)
    (hu : ∀ u e, (u, e) ∈ uriMap' → (u, e) ∈ m.uriMap ∨ e = nn) :
    NsMgr.Inv2 { m with rename := rename', pren := pren', reg := reg',
                        tbl := m.tbl.set nn.pfx nn, uriMap := uriMap' } := by
  have hget_new : (m.tbl.set nn.pfx nn).get? nn.pfx = some nn := Tbl.get?_set_self _ _ _
  have hget_old : ∀ k, k ≠ nn.pfx → (m.tbl.set nn.pfx nn).get? k = m.tbl.get? k :=
    fun k hk => Tbl.get?_set_ne _ _ _ _ hk
  have bound_ne : ∀ e : Ns, m.tbl.get? e.pfx = some e → e.pfx ≠ nn.pfx := by
    intro e he heq
    have := Tbl.contains_of_get? he
    rw [heq, hfresh] at this
    exact Bool.noConfusion this
  have keep : ∀ e : Ns, (m.tbl.get? e.pfx = some e ∧ e.pfx ≠ "") →
      ((m.tbl.set nn.pfx nn).get? e.pfx = some e ∧ e.pfx ≠ "") := by
    intro e ⟨he, hne'⟩
    exact ⟨by rw [hget_old _ (bound_ne e he)]; exact he, hne'⟩
  refine ⟨Tbl.nodup_set _ _ h.nodup, ?_, ?_, ?_, ?_, h.dflt_pfx, ?_⟩
  · intro k v hkv
    by_cases hk : k = nn.pfx
    · subst hk
      simp only [hget_new, Option.some.injEq] at hkv
      rw [← hkv]
    · simp only [hget_old k hk] at hkv
      exact h.key_pfx k v hkv
  · intro n e hne'
    rcases hr n e hne' with h' | rfl
    · exact keep e (h.rename_tbl n e h')
    · exact ⟨hget_new, hne⟩
  · intro u e hue
    rcases hu u e hue with h' | rfl
    · exact keep e (h.uriMap_tbl u e h')
    · exact ⟨hget_new, hne⟩
  · intro p e hpe
    rcases hp p e hpe with h' | rfl
    · exact keep e (h.pren_tbl p e h')
    · exact ⟨hget_new, hne⟩
  · intro e he
    have : ("" : String) ≠ nn.pfx := fun hh => hne hh.symm
    simp only [hget_old "" this] at he
    exact h.empty_key e he

theorem NsMgr.addNs_inv2 {m : NsMgr} (h : m.Inv2) (n : Ns) (hn : n.pfx ≠ "") : (m.addNs n).1.Inv2 := by
  unfold NsMgr.addNs
  split
  · exact h
  · split
    · exact h
    · split
      · next e he =>
        have hb := h.uriMap_tbl _ _ (Tbl.get?_mem he)
        refine ⟨h.nodup, h.key_pfx, ?_, h.uriMap_tbl, ?_, h.dflt_pfx, h.empty_key⟩
        · intro a b hab
          simp only [List.mem_append, List.mem_singleton, Prod.mk.injEq] at hab
          rcases hab with hab | ⟨rfl, rfl⟩
          · exact h.rename_tbl _ _ hab
          · exact hb
        · intro p e' hpe
          rcases Tbl.mem_set hpe with h' | ⟨_, rfl⟩
          · exact h.pren_tbl _ _ h'
          · exact hb
      · split
        · next hc =>
          apply inv2_insert_fresh h ⟨m.unusedPrefix n.pfx, n.uri⟩
            (NsMgr.unusedPrefix_ne_empty m n.pfx hn) (NsMgr.unusedPrefix_fresh m n.pfx)
          · intro a b hab
            simp only [List.mem_append, List.mem_singleton, Prod.mk.injEq] at hab
            rcases hab with hab | ⟨_, rfl⟩
            · exact Or.inl hab
            · exact Or.inr rfl
          · intro p e hpe
            rcases Tbl.mem_set hpe with h' | ⟨_, rfl⟩
            · exact Or.inl h'
            · exact Or.inr rfl
          · intro u e hue
            rcases Tbl.mem_set hue with h' | ⟨_, rfl⟩
            · exact Or.inl h'
            · exact Or.inr rfl
        · next hc =>
          have hc' : m.tbl.contains n.pfx = false := by simpa using hc
          have := inv2_insert_fresh h n hn hc' m.rename m.pren (m.uriMap.set n.uri n) (m.reg.set n.pfx n)
            (fun _ _ hh => Or.inl hh) (fun _ _ hh => Or.inl hh)
            (by
              intro u e hue
              rcases Tbl.mem_set hue with h' | ⟨_, rfl⟩
              · exact Or.inl h'
              · exact Or.inr rfl)
          exact this

/-- making `d` (empty prefix) the default namespace and binding it under "" keeps `Inv2` -/
theorem inv2_set_default_ns {m : NsMgr} (h : m.Inv2) (d : Ns) (hd : d.pfx = "") :
    NsMgr.Inv2 { m with dflt := some d, tbl := m.tbl.set "" d } := by
  have hget_old : ∀ k, k ≠ "" → (m.tbl.set "" d).get? k = m.tbl.get? k :=
    fun k hk => Tbl.get?_set_ne _ _ _ _ hk
  have keep : ∀ e : Ns, (m.tbl.get? e.pfx = some e ∧ e.pfx ≠ "") →
      ((m.tbl.set "" d).get? e.pfx = some e ∧ e.pfx ≠ "") := by
    intro e ⟨he, hne⟩
    exact ⟨by rw [hget_old _ hne]; exact he, hne⟩
  refine ⟨Tbl.nodup_set _ _ h.nodup, ?_, ?_, ?_, ?_, ?_, ?_⟩
  · intro k v hkv
    by_cases hk : k = ""
    · subst hk
      simp only [Tbl.get?_set_self, Option.some.injEq] at hkv
      rw [← hkv]; exact hd
    · simp only [hget_old k hk] at hkv
      exact h.key_pfx k v hkv
  · intro n e hne; exact keep e (h.rename_tbl n e hne)
  · intro x e hne; exact keep e (h.uriMap_tbl x e hne)
  · intro p e hne; exact keep e (h.pren_tbl p e hne)
  · intro d' hd'
    simp only [Option.some.injEq] at hd'
    rw [← hd']; exact hd
  · intro e he
    simp only [Tbl.get?_set_self, Option.some.injEq] at he
    simp [he]

theorem NsMgr.setDefault_inv2 {m : NsMgr} (h : m.Inv2) (u : String) : (m.setDefault u).Inv2 := by
  unfold NsMgr.setDefault
  exact inv2_set_default_ns h ⟨"", u⟩ rfl

theorem NsMgr.validQ_inv2 {m : NsMgr} (h : m.Inv2) (q : QName) : (m.validQ q).1.Inv2 := by
  unfold NsMgr.validQ
  split
  · next hp =>
    split
    · exact inv2_set_default_ns h q.ns hp
    · split
      · exact h
      · exact NsMgr.addNs_inv2 h _ (by simp)
  · next hp =>
    split
    · split
      · exact h
      · exact NsMgr.addNs_inv2 h _ hp
    · exact NsMgr.addNs_inv2 h _ hp

/-- whatever `add_namespace` answers with is bound under its own (non-empty) prefix afterwards -/
theorem NsMgr.addNs_bound {m : NsMgr} (h : m.Inv2) (n : Ns) (hn : n.pfx ≠ "") :
    (m.addNs n).1.tbl.get? (m.addNs n).2.pfx = some (m.addNs n).2 ∧ (m.addNs n).2.pfx ≠ "" := by
  unfold NsMgr.addNs
  split
  · next hv =>
    have hv' : n ∈ m.tbl.values := List.contains_iff_mem.mp hv
    exact ⟨h.tbl_self hv', hn⟩
  · split
    · next r hr => exact h.rename_tbl _ _ (lookupRename_mem hr)
    · split
      · next e he => exact h.uriMap_tbl _ _ (Tbl.get?_mem he)
      · split
        · exact ⟨Tbl.get?_set_self _ _ _, NsMgr.unusedPrefix_ne_empty m n.pfx hn⟩
        · exact ⟨Tbl.get?_set_self _ _ _, hn⟩

/-- every name returned by the `QualifiedName` path is owned by the resulting manager -/
theorem NsMgr.validQ_owns {m : NsMgr} (h : m.Inv2) (q : QName) :
    (m.validQ q).1.Owns (m.validQ q).2 := by
  unfold NsMgr.validQ
  split
  · next hp =>
    split
    · exact Or.inr ⟨hp, rfl⟩
    · next d hd =>
      split
      · next hdq => exact Or.inr ⟨by simpa [hdq] using hp, hd⟩
      · have := NsMgr.addNs_bound h ⟨"dn", q.ns.uri⟩ (by simp)
        exact Or.inl ⟨this.2, this.1⟩
  · next hp =>
    split
    · next e he =>
      split
      · next heq => exact Or.inl ⟨by simpa [heq] using hp, by simpa [heq] using he⟩
      · have := NsMgr.addNs_bound h ⟨q.ns.pfx, q.ns.uri⟩ hp
        exact Or.inl ⟨this.2, this.1⟩
    · have := NsMgr.addNs_bound h ⟨q.ns.pfx, q.ns.uri⟩ hp
      exact Or.inl ⟨this.2, this.1⟩

/-- C03 (b), one step: a bound non-empty prefix keeps its namespace through `add_namespace` -/
theorem NsMgr.addNs_stable {m : NsMgr} (n : Ns) {p : String} {e : Ns}
    (he : m.tbl.get? p = some e) : (m.addNs n).1.tbl.get? p = some e := by
  unfold NsMgr.addNs
  split
  · exact he
  · split
    · exact he
    · split
      · exact he
      · split
        · have hne : p ≠ m.unusedPrefix n.pfx := by
            intro heq
            have := Tbl.contains_of_get? he
            rw [heq, NsMgr.unusedPrefix_fresh] at this
            exact Bool.noConfusion this
          simp only []
          rw [Tbl.get?_set_ne _ _ _ _ hne]; exact he
        · next hc =>
          have hne : p ≠ n.pfx := by
            intro heq
            have := Tbl.contains_of_get? he
            rw [heq] at this
            exact hc this
          simp only []
          rw [Tbl.get?_set_ne _ _ _ _ hne]; exact he

theorem NsMgr.validQ_stable {m : NsMgr} (q : QName) {p : String} {e : Ns} (hp : p ≠ "")
    (he : m.tbl.get? p = some e) : (m.validQ q).1.tbl.get? p = some e := by
  unfold NsMgr.validQ
  split
  · split
    · simp only []
      rw [Tbl.get?_set_ne _ _ _ _ hp]; exact he
    · split
      · exact he
      · exact NsMgr.addNs_stable _ he
  · split
    · split
      · exact he
      · exact NsMgr.addNs_stable _ he
    · exact NsMgr.addNs_stable _ he

theorem NsMgr.setDefault_stable {m : NsMgr} (u : String) {p : String} {e : Ns} (hp : p ≠ "")
    (he : m.tbl.get? p = some e) : (m.setDefault u).tbl.get? p = some e := by
  unfold NsMgr.setDefault
  simp only []
  rw [Tbl.get?_set_ne _ _ _ _ hp]; exact he

end Prov

/-
  Termination / freshness of `_get_unused_prefix`: the bounded search always finds a prefix
  that is not a key of the table (pigeonhole on `tbl.length + 1` distinct candidates).
-/
import Std.Data.String.ToNat
import Prov.NsMgr
import Prov.Lemmas.Tbl

namespace Prov

def cand (p : String) (k : Nat) : String := p ++ "_" ++ toString k

theorem cand_inj (p : String) {a b : Nat} (h : cand p a = cand p b) : a = b := by
  unfold cand at h
  have h' := congrArg String.toList h
  simp only [String.toList_append] at h'
  have := List.append_cancel_left h'
  have := String.toList_inj.mp this
  exact Nat.repr_inj.mp this

theorem unusedAux_fresh (t : Tbl Ns) (p : String) :
    ∀ fuel k, (∃ j, k ≤ j ∧ j ≤ k + fuel ∧ t.contains (cand p j) = false) →
      t.contains (unusedAux t p fuel k) = false := by
  intro fuel
  induction fuel with
  | zero =>
    intro k ⟨j, h1, h2, h3⟩
    have : j = k := by omega
    subst this
    simpa [unusedAux, cand] using h3
  | succ n ih =>
    intro k ⟨j, h1, h2, h3⟩
    unfold unusedAux
    simp only []
    split
    · next hc =>
      apply ih
      refine ⟨j, ?_, by omega, h3⟩
      by_cases hjk : j = k
      · subst hjk
        simp [cand] at h3
        simp [h3] at hc
      · omega
    · next hc => simpa using hc

/-- among `n + 1` consecutive candidates, one is not a key of a table with `n` entries -/
theorem exists_fresh_cand (t : Tbl Ns) (p : String) (k : Nat) :
    ∃ j, k ≤ j ∧ j ≤ k + t.length ∧ t.contains (cand p j) = false := by
  apply Classical.byContradiction
  intro hno
  have hall : ∀ j, k ≤ j → j ≤ k + t.length → cand p j ∈ t.keys := by
    intro j h1 h2
    have : ¬ (t.contains (cand p j) = false) := fun hf => hno ⟨j, h1, h2, hf⟩
    have : t.contains (cand p j) = true := by simpa using this
    exact (Tbl.contains_eq_true_iff t _).mp this
  let cs := (List.range' k (t.length + 1)).map (cand p)
  have hnd : cs.Nodup := by
    have hr : (List.range' k (t.length + 1)).Nodup := List.nodup_range'
    exact List.Pairwise.map (cand p) (fun a b hab hc => hab (cand_inj p hc)) hr
  have hsub : cs ⊆ t.keys := by
    intro x hx
    simp only [cs, List.mem_map, List.mem_range'_1] at hx
    obtain ⟨j, ⟨h1, h2⟩, rfl⟩ := hx
    exact hall j h1 (by omega)
  have := List.Nodup.length_le_of_subset hnd hsub
  simp [cs, Tbl.length_keys] at this
  omega

theorem NsMgr.unusedPrefix_fresh (m : NsMgr) (p : String) :
    m.tbl.contains (m.unusedPrefix p) = false := by
  unfold NsMgr.unusedPrefix
  split
  · apply unusedAux_fresh
    obtain ⟨j, h1, h2, h3⟩ := exists_fresh_cand m.tbl p 1
    exact ⟨j, h1, by omega, h3⟩
  · next h => simpa using h

end Prov

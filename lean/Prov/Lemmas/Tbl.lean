/-
  Lemmas about insertion-ordered association tables (`Tbl`).
-/
import Prov.Names

namespace Prov.Tbl
variable {α : Type}

theorem get?_set_self (t : Tbl α) (k : String) (v : α) : (t.set k v).get? k = some v := by
  induction t with
  | nil => simp [set, get?]
  | cons hd tl ih =>
    obtain ⟨k', v'⟩ := hd
    by_cases h : k' = k
    · simp [set, get?, h]
    · simp [set, get?, h, ih]

theorem get?_set_ne (t : Tbl α) (k k' : String) (v : α) (h : k' ≠ k) :
    (t.set k v).get? k' = t.get? k' := by
  induction t with
  | nil => simp [set, get?, Ne.symm h]
  | cons hd tl ih =>
    obtain ⟨k2, v2⟩ := hd
    by_cases h2 : k2 = k
    · subst h2
      simp [set, get?, Ne.symm h]
    · by_cases h3 : k2 = k'
      · subst h3
        simp [set, get?, h2]
      · simp [set, get?, h2, h3, ih]

theorem get?_mem {t : Tbl α} {k : String} {v : α} (h : t.get? k = some v) : (k, v) ∈ t := by
  induction t with
  | nil => simp [get?] at h
  | cons hd tl ih =>
    obtain ⟨k', v'⟩ := hd
    by_cases hk : k' = k
    · simp [get?, hk] at h
      simp [hk, h]
    · simp [get?, hk] at h
      exact List.mem_cons_of_mem _ (ih h)

theorem mem_set {t : Tbl α} {k k' : String} {v v' : α} (h : (k', v') ∈ t.set k v) :
    (k', v') ∈ t ∨ (k' = k ∧ v' = v) := by
  induction t with
  | nil => simp [set] at h; exact Or.inr h
  | cons hd tl ih =>
    obtain ⟨k2, v2⟩ := hd
    by_cases h2 : k2 = k
    · simp [set, h2] at h
      rcases h with h | h
      · exact Or.inr h
      · exact Or.inl (List.mem_cons_of_mem _ h)
    · simp [set, h2] at h
      rcases h with h | h
      · left; simp [h]
      · rcases ih h with h' | h'
        · exact Or.inl (List.mem_cons_of_mem _ h')
        · exact Or.inr h'

theorem contains_eq_true_iff (t : Tbl α) (k : String) : t.contains k = true ↔ k ∈ t.keys := by
  induction t with
  | nil => simp [contains, get?, keys]
  | cons hd tl ih =>
    obtain ⟨k', v'⟩ := hd
    by_cases hk : k' = k
    · simp [contains, get?, keys, hk]
    · have ih' : (get? tl k).isSome = true ↔ k ∈ keys tl := by simpa [contains] using ih
      simp only [contains, get?, hk, if_false, keys, List.map_cons, List.mem_cons, Ne.symm hk, false_or]
      simpa [keys] using ih'

theorem contains_false_get? {t : Tbl α} {k : String} (h : t.contains k = false) : t.get? k = none := by
  simp [contains] at h
  exact h

theorem mem_values_of_get? {t : Tbl α} {k : String} {v : α} (h : t.get? k = some v) : v ∈ t.values := by
  have := get?_mem h
  simp only [values, List.mem_map]
  exact ⟨(k, v), this, rfl⟩

theorem length_keys (t : Tbl α) : t.keys.length = t.length := by simp [keys]

end Prov.Tbl

namespace Prov.Tbl
variable {α : Type}

theorem keys_set_of_contains {t : Tbl α} {k : String} (v : α) (h : t.contains k = true) :
    (t.set k v).keys = t.keys := by
  induction t with
  | nil => simp [contains, get?] at h
  | cons hd tl ih =>
    obtain ⟨k', v'⟩ := hd
    by_cases hk : k' = k
    · simp [set, keys, hk]
    · have : contains tl k = true := by simpa [contains, get?, hk] using h
      have ih' := ih this
      simp only [keys] at ih'
      simp [set, keys, hk, ih']

theorem keys_set_of_not_contains {t : Tbl α} {k : String} (v : α) (h : t.contains k = false) :
    (t.set k v).keys = t.keys ++ [k] := by
  induction t with
  | nil => simp [set, keys]
  | cons hd tl ih =>
    obtain ⟨k', v'⟩ := hd
    by_cases hk : k' = k
    · simp [contains, get?, hk] at h
    · have : contains tl k = false := by simpa [contains, get?, hk] using h
      have ih' := ih this
      simp only [keys] at ih'
      simp [set, keys, hk, ih']

theorem nodup_set {t : Tbl α} (k : String) (v : α) (h : t.keys.Nodup) : (t.set k v).keys.Nodup := by
  by_cases hc : t.contains k = true
  · rw [keys_set_of_contains v hc]; exact h
  · have hc' : t.contains k = false := by simpa using hc
    rw [keys_set_of_not_contains v hc']
    have hnot : k ∉ t.keys := fun hm => hc ((contains_eq_true_iff t k).mpr hm)
    exact List.nodup_append.mpr ⟨h, by simp, by
      intro a ha b hb
      simp at hb
      subst hb
      intro hab
      exact hnot (hab ▸ ha)⟩

theorem get?_of_mem_nodup {t : Tbl α} (hn : t.keys.Nodup) {k : String} {v : α} (h : (k, v) ∈ t) :
    t.get? k = some v := by
  induction t with
  | nil => simp at h
  | cons hd tl ih =>
    obtain ⟨k', v'⟩ := hd
    simp only [keys, List.map_cons, List.nodup_cons] at hn
    simp only [List.mem_cons, Prod.mk.injEq] at h
    rcases h with ⟨rfl, rfl⟩ | h
    · simp [get?]
    · have hne : k' ≠ k := by
        intro he
        subst he
        exact hn.1 (List.mem_map.mpr ⟨(k', v), h, rfl⟩)
      simp only [get?, hne, if_false]
      exact ih hn.2 h

theorem contains_of_get? {t : Tbl α} {k : String} {v : α} (h : t.get? k = some v) : t.contains k = true := by
  simp [contains, h]

end Prov.Tbl

/-
  Frame lemmas for the heap layer: which cells an operation can touch.
-/
import Prov.Heap

namespace Prov.Heap

theorem cont_setMgr (h : Heap) (c c' : Nat) (m : NsMgr) : (h.setMgr c m).cont c' = h.cont c' := rfl
theorem recCell_setMgr (h : Heap) (c r : Nat) (m : NsMgr) : (h.setMgr c m).recCell r = h.recCell r := rfl
theorem conts_setMgr (h : Heap) (c : Nat) (m : NsMgr) : (h.setMgr c m).conts = h.conts := rfl
theorem recs_setMgr (h : Heap) (c : Nat) (m : NsMgr) : (h.setMgr c m).recs = h.recs := rfl

/-- `setMgr c` writes only the manager cell of container `c` -/
theorem mgrCell_setMgr_ne (h : Heap) (c i : Nat) (m : NsMgr) (hne : i ≠ (h.cont c).mgr) :
    (h.setMgr c m).mgrCell i = h.mgrCell i := by
  simp only [setMgr, mgrCell, Array.getD_eq_getD_getElem?]
  rw [Array.getElem?_setIfInBounds_ne (Ne.symm hne)]

theorem mgrs_size_setMgr (h : Heap) (c : Nat) (m : NsMgr) : (h.setMgr c m).mgrs.size = h.mgrs.size := by
  simp [setMgr]

theorem cont_setCont_ne (h : Heap) (c c' : Nat) (k : Cont) (hne : c' ≠ c) : (h.setCont c k).cont c' = h.cont c' := by
  simp only [setCont, cont, Array.getD_eq_getD_getElem?]
  rw [Array.getElem?_setIfInBounds_ne (Ne.symm hne)]

theorem cont_setCont_self (h : Heap) (c : Nat) (k : Cont) (hc : c < h.conts.size) : (h.setCont c k).cont c = k := by
  simp only [setCont, cont, Array.getD_eq_getD_getElem?, Array.getElem?_setIfInBounds_self_of_lt hc, Option.getD_some]

theorem mgrs_setCont (h : Heap) (c : Nat) (k : Cont) : (h.setCont c k).mgrs = h.mgrs := rfl
theorem recs_setCont (h : Heap) (c : Nat) (k : Cont) : (h.setCont c k).recs = h.recs := rfl

theorem cont_addRecordRaw_ne (h : Heap) (c c' r : Nat) (hne : c' ≠ c) : (h.addRecordRaw c r).cont c' = h.cont c' := by
  unfold addRecordRaw
  exact cont_setCont_ne h c c' _ hne

theorem mgrs_addRecordRaw (h : Heap) (c r : Nat) : (h.addRecordRaw c r).mgrs = h.mgrs := rfl
theorem recs_addRecordRaw (h : Heap) (c r : Nat) : (h.addRecordRaw c r).recs = h.recs := rfl

/-- `mkRecord` leaves every container cell alone and only *adds* a record cell -/
theorem conts_mkRecord (h : Heap) (c : Nat) (k : RecKind) (id : Option QName) (attrs : List AttrArg) :
    (h.mkRecord c k id attrs).1.conts = h.conts := by
  unfold mkRecord
  split
  · rfl
  · simp only []
    split <;> rfl

theorem recCell_mkRecord_lt (h : Heap) (c : Nat) (k : RecKind) (id : Option QName) (attrs : List AttrArg)
    (r : Nat) (hr : r < h.recs.size) : (h.mkRecord c k id attrs).1.recCell r = h.recCell r := by
  unfold mkRecord
  split
  · rfl
  · simp only []
    split
    · rfl
    · simp [recCell, setMgr, Array.getD_eq_getD_getElem?, Array.getElem?_push, Nat.ne_of_lt hr]

theorem mgrCell_mkRecord_ne (h : Heap) (c : Nat) (k : RecKind) (id : Option QName) (attrs : List AttrArg)
    (i : Nat) (hne : i ≠ (h.cont c).mgr) : (h.mkRecord c k id attrs).1.mgrCell i = h.mgrCell i := by
  unfold mkRecord
  split
  · rfl
  · simp only []
    split
    · exact mgrCell_setMgr_ne h c i _ hne
    · show (h.setMgr c _).mgrCell i = h.mgrCell i
      exact mgrCell_setMgr_ne h c i _ hne

/-- **frame of `new_record`**: other containers, other managers and existing record cells are untouched -/
theorem cont_newRecord_ne (h : Heap) (c c' : Nat) (k : RecKind) (idArg : NameArg) (attrs : List AttrArg)
    (hne : c' ≠ c) : (h.newRecord c k idArg attrs).1.cont c' = h.cont c' := by
  unfold newRecord
  simp only [validName]
  have h1 : ∀ hh : Heap, hh.conts = h.conts → hh.cont c' = h.cont c' := by
    intro hh e; simp [cont, e]
  generalize hres : (h.setMgr c ((h.mgrOf c).validName (h.parentOf c) idArg).1).mkRecord c k
    ((h.mgrOf c).validName (h.parentOf c) idArg).2 attrs = res
  have hc := conts_mkRecord (h.setMgr c ((h.mgrOf c).validName (h.parentOf c) idArg).1) c k
    ((h.mgrOf c).validName (h.parentOf c) idArg).2 attrs
  rw [hres] at hc
  obtain ⟨h2, e⟩ := res
  cases e with
  | error err => exact h1 h2 (by simpa [conts_setMgr] using hc)
  | ok r =>
    simp only []
    rw [cont_addRecordRaw_ne h2 c c' r hne]
    exact h1 h2 (by simpa [conts_setMgr] using hc)

theorem mgrCell_newRecord_ne (h : Heap) (c : Nat) (k : RecKind) (idArg : NameArg) (attrs : List AttrArg)
    (i : Nat) (hne : i ≠ (h.cont c).mgr) : (h.newRecord c k idArg attrs).1.mgrCell i = h.mgrCell i := by
  unfold newRecord
  simp only [validName]
  have hm := mgrCell_mkRecord_ne (h.setMgr c ((h.mgrOf c).validName (h.parentOf c) idArg).1) c k
    ((h.mgrOf c).validName (h.parentOf c) idArg).2 attrs i (by simpa [cont_setMgr] using hne)
  generalize (h.setMgr c ((h.mgrOf c).validName (h.parentOf c) idArg).1).mkRecord c k
    ((h.mgrOf c).validName (h.parentOf c) idArg).2 attrs = res at hm
  obtain ⟨h2, e⟩ := res
  cases e with
  | error err => simp only []; rw [hm]; exact mgrCell_setMgr_ne h c i _ hne
  | ok r =>
    simp only []
    show (h2.addRecordRaw c r).mgrCell i = h.mgrCell i
    simp only [mgrCell, mgrs_addRecordRaw]
    have := hm
    simp only [mgrCell] at this
    rw [this]
    exact mgrCell_setMgr_ne h c i _ hne

theorem recCell_newRecord_lt (h : Heap) (c : Nat) (k : RecKind) (idArg : NameArg) (attrs : List AttrArg)
    (r : Nat) (hr : r < h.recs.size) : (h.newRecord c k idArg attrs).1.recCell r = h.recCell r := by
  unfold newRecord
  simp only [validName]
  have hm := recCell_mkRecord_lt (h.setMgr c ((h.mgrOf c).validName (h.parentOf c) idArg).1) c k
    ((h.mgrOf c).validName (h.parentOf c) idArg).2 attrs r (by simpa [recs_setMgr] using hr)
  generalize (h.setMgr c ((h.mgrOf c).validName (h.parentOf c) idArg).1).mkRecord c k
    ((h.mgrOf c).validName (h.parentOf c) idArg).2 attrs = res at hm
  obtain ⟨h2, e⟩ := res
  cases e with
  | error err => simpa [recCell_setMgr] using hm
  | ok nr =>
    simp only []
    show (h2.addRecordRaw c nr).recCell r = h.recCell r
    simp only [recCell, recs_addRecordRaw]
    simpa [recCell, recs_setMgr] using hm

theorem recs_size_mkRecord (h : Heap) (c : Nat) (k : RecKind) (id : Option QName) (attrs : List AttrArg) :
    h.recs.size ≤ (h.mkRecord c k id attrs).1.recs.size := by
  unfold mkRecord
  split
  · exact Nat.le_refl _
  · simp only []
    split
    · exact Nat.le_refl _
    · simp [setMgr]

theorem recs_size_newRecord (h : Heap) (c : Nat) (k : RecKind) (idArg : NameArg) (attrs : List AttrArg) :
    h.recs.size ≤ (h.newRecord c k idArg attrs).1.recs.size := by
  unfold newRecord
  simp only [validName]
  have hm := recs_size_mkRecord (h.setMgr c ((h.mgrOf c).validName (h.parentOf c) idArg).1) c k
    ((h.mgrOf c).validName (h.parentOf c) idArg).2 attrs
  generalize (h.setMgr c ((h.mgrOf c).validName (h.parentOf c) idArg).1).mkRecord c k
    ((h.mgrOf c).validName (h.parentOf c) idArg).2 attrs = res at hm
  obtain ⟨h2, e⟩ := res
  cases e with
  | error err => exact hm
  | ok r => exact hm

/-- the manager reference of a container never changes through `new_record` -/
theorem cont_mgr_newRecord (h : Heap) (c c' : Nat) (k : RecKind) (idArg : NameArg) (attrs : List AttrArg) :
    ((h.newRecord c k idArg attrs).1.cont c').mgr = (h.cont c').mgr := by
  by_cases hne : c' = c
  · subst hne
    unfold newRecord
    simp only [validName]
    have hc := conts_mkRecord (h.setMgr c' ((h.mgrOf c').validName (h.parentOf c') idArg).1) c' k
      ((h.mgrOf c').validName (h.parentOf c') idArg).2 attrs
    generalize (h.setMgr c' ((h.mgrOf c').validName (h.parentOf c') idArg).1).mkRecord c' k
      ((h.mgrOf c').validName (h.parentOf c') idArg).2 attrs = res at hc
    obtain ⟨h2, e⟩ := res
    have hcont : h2.cont c' = h.cont c' := by
      simp only at hc
      simp only [cont, hc, conts_setMgr]
    cases e with
    | error err => simp only []; rw [hcont]
    | ok r =>
      simp only []
      by_cases hlt : c' < h2.conts.size
      · simp only [addRecordRaw]
        rw [cont_setCont_self _ _ _ hlt, hcont]
      · have : h2.addRecordRaw c' r = h2 := by
          simp only [addRecordRaw, setCont]
          rw [Array.setIfInBounds_eq_of_size_le (by omega)]
        rw [this, hcont]
  · rw [cont_newRecord_ne h c c' k idArg attrs hne]

/-- allocation is fresh: a new container gets the next free index and existing cells are unchanged -/
theorem allocCont_fresh (h : Heap) (isDoc : Bool) (id : Option QName) (nss : List Ns) (doc : Option Nat) :
    (h.allocCont isDoc id nss doc).2 = h.conts.size ∧
    ((h.allocCont isDoc id nss doc).1.cont (h.allocCont isDoc id nss doc).2).mgr = h.mgrs.size ∧
    (∀ c, c < h.conts.size → (h.allocCont isDoc id nss doc).1.cont c = h.cont c) ∧
    (∀ i, i < h.mgrs.size → (h.allocCont isDoc id nss doc).1.mgrCell i = h.mgrCell i) ∧
    (h.allocCont isDoc id nss doc).1.recs = h.recs := by
  refine ⟨rfl, ?_, ?_, ?_, rfl⟩
  · simp [allocCont, allocMgr, cont, Array.getD_eq_getD_getElem?]
  · intro c hc
    simp [allocCont, allocMgr, cont, Array.getD_eq_getD_getElem?, Array.getElem?_push, Nat.ne_of_lt hc]
  · intro i hi
    simp [allocCont, allocMgr, mgrCell, Array.getD_eq_getD_getElem?, Array.getElem?_push, Nat.ne_of_lt hi]

end Prov.Heap

/-
  Invariants of the namespace manager.
-/
import Prov.NsMgr
import Prov.Lemmas.Tbl

namespace Prov

/-- `Inv1`: the rename memo and the URI index only ever map to namespaces with the same URI. -/
structure NsMgr.Inv1 (m : NsMgr) : Prop where
  rename_uri : ∀ n e, (n, e) ∈ m.rename → e.uri = n.uri
  uriMap_uri : ∀ u e, (u, e) ∈ m.uriMap → e.uri = u

theorem lookupRename_mem {r : List (Ns × Ns)} {n e : Ns} (h : lookupRename r n = some e) :
    (n, e) ∈ r := by
  induction r with
  | nil => simp [lookupRename] at h
  | cons hd tl ih =>
    obtain ⟨k, v⟩ := hd
    by_cases hk : k = n
    · simp [lookupRename, hk] at h
      simp [hk, h]
    · simp [lookupRename, hk] at h
      exact List.mem_cons_of_mem _ (ih h)

theorem NsMgr.init_inv1 : NsMgr.init.Inv1 := ⟨by simp [NsMgr.init], by simp [NsMgr.init]⟩

theorem NsMgr.setDefault_inv1 {m : NsMgr} (h : m.Inv1) (u : String) : (m.setDefault u).Inv1 :=
  ⟨h.rename_uri, h.uriMap_uri⟩

/-- `add_namespace` always answers with a namespace of the requested URI. -/
theorem NsMgr.addNs_uri {m : NsMgr} (h : m.Inv1) (n : Ns) : (m.addNs n).2.uri = n.uri := by
  unfold NsMgr.addNs
  split
  · rfl
  · split
    · next r hr => exact h.rename_uri _ _ (lookupRename_mem hr)
    · split
      · next e he => exact h.uriMap_uri _ _ (Tbl.get?_mem he)
      · split <;> rfl

theorem NsMgr.addNs_inv1 {m : NsMgr} (h : m.Inv1) (n : Ns) : (m.addNs n).1.Inv1 := by
  unfold NsMgr.addNs
  split
  · exact h
  · split
    · exact h
    · split
      · next e he =>
        refine ⟨?_, h.uriMap_uri⟩
        intro a b hab
        simp only [List.mem_append, List.mem_singleton, Prod.mk.injEq] at hab
        rcases hab with hab | ⟨rfl, rfl⟩
        · exact h.rename_uri _ _ hab
        · exact h.uriMap_uri _ _ (Tbl.get?_mem he)
      · split
        · refine ⟨?_, ?_⟩
          · intro a b hab
            simp only [List.mem_append, List.mem_singleton, Prod.mk.injEq] at hab
            rcases hab with hab | ⟨rfl, rfl⟩
            · exact h.rename_uri _ _ hab
            · rfl
          · intro u e hue
            rcases Tbl.mem_set hue with h' | ⟨rfl, rfl⟩
            · exact h.uriMap_uri _ _ h'
            · rfl
        · refine ⟨h.rename_uri, ?_⟩
          intro u e hue
          rcases Tbl.mem_set hue with h' | ⟨rfl, rfl⟩
          · exact h.uriMap_uri _ _ h'
          · rfl

/-- C03 (a) on the pure function: the `QualifiedName` path never changes the URI. -/
theorem NsMgr.validQ_uri {m : NsMgr} (h : m.Inv1) (q : QName) : (m.validQ q).2.uri = q.uri := by
  unfold NsMgr.validQ
  split
  · split
    · rfl
    · next d hd =>
      split
      · next hdq => simp [QName.uri, hdq]
      · have := NsMgr.addNs_uri h ⟨"dn", q.ns.uri⟩
        simp only [QName.uri]
        rw [this]
  · split
    · next e he =>
      split
      · next heq => simp [QName.uri, heq]
      · have := NsMgr.addNs_uri h ⟨q.ns.pfx, q.ns.uri⟩
        simp only [QName.uri]
        rw [this]
    · have := NsMgr.addNs_uri h ⟨q.ns.pfx, q.ns.uri⟩
      simp only [QName.uri]
      rw [this]

theorem NsMgr.validQ_inv1 {m : NsMgr} (h : m.Inv1) (q : QName) : (m.validQ q).1.Inv1 := by
  unfold NsMgr.validQ
  split
  · split
    · exact ⟨h.rename_uri, h.uriMap_uri⟩
    · split
      · exact h
      · exact NsMgr.addNs_inv1 h _
  · split
    · split
      · exact h
      · exact NsMgr.addNs_inv1 h _
    · exact NsMgr.addNs_inv1 h _

theorem NsMgr.validName_inv1 {m : NsMgr} (h : m.Inv1) (par : Option NsMgr) (x : NameArg) :
    (m.validName par x).1.Inv1 := by
  unfold NsMgr.validName
  split
  · exact h
  · exact NsMgr.validQ_inv1 h _
  · exact h

end Prov

import Prov.Text
namespace Prov.Text

theorem splitAt1_append (c : Char) (p l : List Char) (h : c ∉ p) :
    splitAt1 c (p ++ c :: l) = some (p, l) := by
  induction p with
  | nil => simp [splitAt1]
  | cons x xs ih =>
    simp only [List.mem_cons, not_or] at h
    have hx : x ≠ c := fun e => h.1 e.symm
    simp [splitAt1, hx, ih h.2]

theorem splitAt1_none (c : Char) (l : List Char) (h : c ∉ l) : splitAt1 c l = none := by
  induction l with
  | nil => simp [splitAt1]
  | cons x xs ih =>
    simp only [List.mem_cons, not_or] at h
    have hx : x ≠ c := fun e => h.1 e.symm
    simp [splitAt1, hx, ih h.2]

end Prov.Text

import Prov.Text
namespace Prov.Text

theorem splitAt1_append (c : Char) (p l : List Char) (h : c ∉ p) :
    splitAt1 c (p ++ c :: l) = some (p, l) := by
  induction p with
  | nil => simp [splitAt1]
  | cons x xs ih =>
    simp only [List.mem_cons, not_or] at h
    have hx : x ≠ c := fun e => h.1 e.symm
    simp [splitAt1, hx, ih h.2]

theorem splitAt1_none (c : Char) (l : List Char) (h : c ∉ l) : splitAt1 c l = none := by
  induction l with
  | nil => simp [splitAt1]
  | cons x xs ih =>
    simp only [List.mem_cons, not_or] at h
    have hx : x ≠ c := fun e => h.1 e.symm
    simp [splitAt1, hx, ih h.2]

theorem dropPrefix?_append (a b s : List Char) :
    dropPrefix? (a ++ b) s = (dropPrefix? a s).bind (fun r => dropPrefix? b r) := by
  induction a generalizing s with
  | nil => simp [dropPrefix?]
  | cons p ps ih =>
    cases s with
    | nil => simp [dropPrefix?]
    | cons x xs =>
      by_cases hpx : p = x
      · simp [dropPrefix?, hpx, ih]
      · simp [dropPrefix?, hpx]

theorem startsWith_of_append (s a b : List Char) (h : startsWith s (a ++ b) = true) : startsWith s a = true := by
  unfold startsWith at *
  rw [dropPrefix?_append] at h
  cases hd : dropPrefix? a s with
  | none => simp [hd] at h
  | some r => simp

theorem isInfix_of_append (a b s : List Char) (h : isInfix (a ++ b) s = true) : isInfix a s = true := by
  induction s with
  | nil =>
    simp only [isInfix, List.isEmpty_iff, List.append_eq_nil_iff] at h
    simp [isInfix, h.1]
  | cons x xs ih =>
    simp only [isInfix, Bool.or_eq_true] at h ⊢
    rcases h with h | h
    · exact Or.inl (startsWith_of_append _ a b h)
    · exact Or.inr (ih h)

theorem dropPrefix?_self_append (a b : List Char) : dropPrefix? a (a ++ b) = some b := by
  induction a with
  | nil => simp [dropPrefix?]
  | cons p ps ih => simp [dropPrefix?, ih]

theorem isInfix_self_append (a b : List Char) : isInfix a (a ++ b) = true := by
  cases hab : a ++ b with
  | nil =>
    have : a = [] := (List.append_eq_nil_iff.mp hab).1
    simp [isInfix, this]
  | cons x xs =>
    simp only [isInfix, Bool.or_eq_true]
    left
    unfold startsWith
    rw [← hab, dropPrefix?_self_append]; rfl

theorem isInfix_of_startsWith (s a : List Char) (h : startsWith s a = true) : isInfix a s = true := by
  cases s with
  | nil =>
    unfold startsWith at h
    cases a with
    | nil => simp [isInfix]
    | cons p ps => simp [dropPrefix?] at h
  | cons x xs => simp [isInfix, h]

/-- a string that does not contain `pre` contains no string that starts with `pre` -/
theorem sContains_append_false (s pre l : String) (h : sContains s pre = false) : sContains s (pre ++ l) = false := by
  unfold sContains at *
  rw [String.toList_append]
  cases hc : isInfix (pre.toList ++ l.toList) s.toList with
  | false => rfl
  | true => rw [isInfix_of_append _ _ _ hc] at h; cases h

theorem ne_append_of_not_contains (s pre l : String) (h : sContains s pre = false) : s ≠ pre ++ l := by
  intro e
  subst e
  unfold sContains at h
  rw [String.toList_append, isInfix_self_append] at h
  cases h

theorem sStartsWith_append_false (s pre l : String) (h : sContains s pre = false) : sStartsWith s (pre ++ l) = false := by
  cases hc : sStartsWith s (pre ++ l) with
  | false => rfl
  | true =>
    unfold sStartsWith at hc
    have := isInfix_of_startsWith _ _ hc
    have h2 := sContains_append_false s pre l h
    unfold sContains at h2
    rw [this] at h2; cases h2

end Prov.Text

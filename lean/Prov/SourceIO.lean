/-
  Source / destination dispatch of `ProvDocument.serialize`, `ProvDocument.deserialize`, the
  text-vs-bytes branch of each serializer class, and the format sniffing of `prov.read`.

  What the serializers do with a document is external here (`Ext`): the dump / parse functions of
  json, lxml, rdflib and `get_provn`. What is modelled is everything between the caller and those
  functions: which of them is called, on text or on bytes, after which encode / decode, from which
  stream position, in which order of formats.
-/
namespace Prov.SourceIO

inductive Fmt where
  | json | rdf | provn | xml
  deriving DecidableEq, Repr

def Fmt.name : Fmt → String
  | .json => "json" | .rdf => "rdf" | .provn => "provn" | .xml => "xml"

def Fmt.ofName? (s : String) : Option Fmt :=
  [Fmt.json, .rdf, .provn, .xml].find? (fun f => f.name == s)

/-- the library functions behind the four serializer classes -/
structure Ext (Doc : Type) where
  jsonDump : Doc → String                    -- json.dump(document, buf, cls=ProvJSONEncoder)
  jsonLoad : String → Option Doc             -- json.load(stream, cls=ProvJSONDecoder); none = raises
  provnText : Doc → String                   -- document.get_provn()
  rdfOut : Doc → ByteArray                   -- container.serialize(buf, format=rdf_format)
  rdfParseText : String → Option Doc         -- ConjunctiveGraph().parse(text stream) + decode_document
  rdfParseBytes : ByteArray → Option Doc     -- the same on a binary stream
  xmlOutText : Doc → String                  -- etree.tostring(et, xml_declaration=True, …).decode("utf-8")
  xmlOutBytes : Doc → ByteArray              -- et.write(stream, …, encoding="UTF-8")
  xmlParse : ByteArray → Option Doc          -- etree.parse(binary stream) + deserialize_subtree

/-- `bytes.decode("utf-8")`; `none` = UnicodeDecodeError -/
def decode (b : ByteArray) : Option String := String.fromUTF8? b

inductive Data where
  | text (s : String)
  | bytes (b : ByteArray)

/-! ### writing -/

/-- `serializer.serialize(stream)` when `isinstance(stream, io.TextIOBase)`; `none` = raises -/
def serText {Doc} (x : Ext Doc) : Fmt → Doc → Option String
  | .json, d => some (x.jsonDump d)
  | .provn, d => some (x.provnText d)
  | .rdf, d => decode (x.rdfOut d)
  | .xml, d => some (x.xmlOutText d)

/-- `serializer.serialize(stream)` on any other stream -/
def serBytes {Doc} (x : Ext Doc) : Fmt → Doc → ByteArray
  | .json, d => (x.jsonDump d).toUTF8
  | .provn, d => (x.provnText d).toUTF8
  | .rdf, d => x.rdfOut d
  | .xml, d => x.xmlOutBytes d

inductive Dest where
  | ret | textStream | binStream | path
  deriving DecidableEq, Repr

inductive Written where
  | returned (s : String)      -- the value of serialize(None)
  | text (s : String)          -- what the caller's text stream received
  | bytes (b : ByteArray)      -- what the caller's binary stream received
  | file (b : ByteArray)       -- what the named file holds (through a temporary "wb" stream, see C17)
  | raised

def serialize {Doc} (x : Ext Doc) (f : Fmt) (d : Doc) : Dest → Written
  | .ret => match serText x f d with | some t => .returned t | none => .raised
  | .textStream => match serText x f d with | some t => .text t | none => .raised
  | .binStream => .bytes (serBytes x f d)
  | .path => .file (serBytes x f d)

/-! ### reading -/

/-- a stream is at its start or at its end (`read()` takes everything that is left) -/
inductive Stream where
  | text (s : String) (atEnd : Bool)
  | bin (b : ByteArray) (atEnd : Bool)

def Stream.read : Stream → Data × Stream
  | .text s e => (.text (if e then "" else s), .text s true)
  | .bin b e => (.bytes (if e then ByteArray.empty else b), .bin b true)

def Stream.atEnd : Stream → Bool
  | .text _ e => e
  | .bin _ e => e

/-- `serializer.deserialize(stream)` on what the stream yields -/
def deData {Doc} (x : Ext Doc) : Fmt → Data → Option Doc
  | .json, .text s => x.jsonLoad s
  | .json, .bytes b => (decode b).bind x.jsonLoad
  | .xml, .text s => x.xmlParse s.toUTF8
  | .xml, .bytes b => x.xmlParse b
  | .rdf, .text s => x.rdfParseText s
  | .rdf, .bytes b => x.rdfParseBytes b
  | .provn, _ => none

/-- PROV-N has no reader: it raises before touching the stream -/
def consumes : Fmt → Bool
  | .provn => false
  | _ => true

inductive Source where
  | contentStr (s : String)
  | contentBytes (b : ByteArray)
  | stream (st : Stream)
  | path (p : String)

abbrev FS := String → Option ByteArray

/-- `ProvDocument.deserialize(source=…, content=…, format=f)`; returns the source afterwards (stream position) -/
def deserialize {Doc} (x : Ext Doc) (fs : FS) (f : Fmt) : Source → Option Doc × Source
  | .contentStr s => (deData x f (.text s), .contentStr s)
  | .contentBytes b => ((decode b).bind (fun s => deData x f (.text s)), .contentBytes b)
  | .stream st =>
    if consumes f then
      let (d, st') := st.read
      (deData x f d, .stream st')
    else (none, .stream st)
  | .path p => ((fs p).bind (fun b => deData x f (.bytes b)), .path p)      -- open(source, "rb")

/-- `content=` built from what a stream held -/
def contentOf : Data → Source
  | .text s => .contentStr s
  | .bytes b => .contentBytes b

/-- `prov.read(source, format)` after the "fix:" commit: a stream is read once, the formats are tried on its content -/
def read {Doc} (x : Ext Doc) (fs : FS) (order : List Fmt) (src : Source) (fmt : Option Fmt) : Option Doc × Source :=
  match fmt with
  | some f => deserialize x fs f src
  | none =>
    match src with
    | .stream st =>
      let (d, st') := st.read
      (order.findSome? (fun f => (deserialize x fs f (contentOf d)).1), .stream st')
    | _ => (order.findSome? (fun f => (deserialize x fs f src).1), src)

/-- the loop as it was: the same stream object handed to every format in turn -/
def readOld {Doc} (x : Ext Doc) (fs : FS) : List Fmt → Source → Option Doc × Source
  | [], src => (none, src)
  | f :: rest, src =>
    match deserialize x fs f src with
    | (some d, src') => (some d, src')
    | (none, src') => readOld x fs rest src'

end Prov.SourceIO

/-
  Object layer: bundles, documents, records and namespace managers as cells of a heap, so that
  sharing (a bundle attached to a document, a manager reached through `parent`) is expressible.
  Mirrors `ProvBundle` / `ProvDocument` in prov/model.py.
-/
import Prov.Record

namespace Prov

structure MgrCell where
  m : NsMgr
  parent : Option Nat            -- ref of the parent manager cell
  deriving Repr, Inhabited

structure RecCell where
  bundle : Nat                   -- `_bundle`: container whose manager resolves this record's names
  r : Record
  deriving Repr, Inhabited

structure Cont where
  isDoc : Bool
  id : Option QName
  mgr : Nat
  records : List Nat             -- `_records` (refs into `recs`)
  idMap : List (QName × List Nat) -- `_id_map`, keys compared by URI; separate component on purpose
  doc : Option Nat               -- `_document`
  bundles : List (QName × Nat)   -- `_bundles` (documents only), keys compared by URI
  deriving Repr, Inhabited

structure Heap where
  mgrs : Array MgrCell
  conts : Array Cont
  recs : Array RecCell
  deriving Repr, Inhabited

namespace Heap

def empty : Heap := ⟨#[], #[], #[]⟩

def mgrCell (h : Heap) (i : Nat) : MgrCell := h.mgrs.getD i default
def cont (h : Heap) (i : Nat) : Cont := h.conts.getD i default
def recCell (h : Heap) (i : Nat) : RecCell := h.recs.getD i default

def mgrOf (h : Heap) (c : Nat) : NsMgr := (h.mgrCell (h.cont c).mgr).m

/-- the parent manager's current state, as seen from container `c` -/
def parentOf (h : Heap) (c : Nat) : Option NsMgr :=
  match (h.mgrCell (h.cont c).mgr).parent with
  | some p => some (h.mgrCell p).m
  | none => none

def setMgr (h : Heap) (c : Nat) (m : NsMgr) : Heap :=
  let i := (h.cont c).mgr
  { h with mgrs := h.mgrs.setIfInBounds i { h.mgrCell i with m := m } }

def setCont (h : Heap) (c : Nat) (k : Cont) : Heap :=
  { h with conts := h.conts.setIfInBounds c k }

def setRec (h : Heap) (r : Nat) (rc : Record) : Heap :=
  { h with recs := h.recs.setIfInBounds r { h.recCell r with r := rc } }

def allocMgr (h : Heap) (m : NsMgr) (parent : Option Nat) : Heap × Nat :=
  ({ h with mgrs := h.mgrs.push ⟨m, parent⟩ }, h.mgrs.size)

/-- `ProvBundle(identifier=…, namespaces=…, document=…)` / `ProvDocument(namespaces=…)` without records -/
def allocCont (h : Heap) (isDoc : Bool) (id : Option QName) (nss : List Ns) (doc : Option Nat) :
    Heap × Nat :=
  let parent := doc.map (fun d => (h.cont d).mgr)
  let (h1, mref) := h.allocMgr (NsMgr.init.addNss nss) parent
  let k : Cont :=
    { isDoc := isDoc, id := id, mgr := mref, records := [], idMap := [], doc := doc, bundles := [] }
  ({ h1 with conts := h1.conts.push k }, h1.conts.size)

def newDoc (h : Heap) (nss : List Ns := []) : Heap × Nat := h.allocCont true none nss none

/-- `container.valid_qualified_name(x)` -/
def validName (h : Heap) (c : Nat) (x : NameArg) : Heap × Option QName :=
  let (m', q) := (h.mgrOf c).validName (h.parentOf c) x
  (h.setMgr c m', q)

def addNs (h : Heap) (c : Nat) (n : Ns) : Heap × Ns :=
  let (m', n') := (h.mgrOf c).addNs n
  (h.setMgr c m', n')

def setDefault (h : Heap) (c : Nat) (uri : String) : Heap :=
  h.setMgr c ((h.mgrOf c).setDefault uri)

def idMapAppend (im : List (QName × List Nat)) (q : QName) (r : Nat) : List (QName × List Nat) :=
  match im with
  | [] => [(q, [r])]
  | (k, rs) :: rest => if k.same q then (k, rs ++ [r]) :: rest else (k, rs) :: idMapAppend rest q r

def idMapGet (im : List (QName × List Nat)) (q : QName) : List Nat :=
  match im.find? (fun p => p.1.same q) with
  | some p => p.2
  | none => []

/-- `_add_record(record)` -/
def addRecordRaw (h : Heap) (c : Nat) (r : Nat) : Heap :=
  let k := h.cont c
  let im := match (h.recCell r).r.id with
    | some q => idMapAppend k.idMap q r
    | none => k.idMap
  h.setCont c { k with records := k.records ++ [r], idMap := im }

/-- The record constructor `PROV_REC_CLS[kind](bundle, identifier, attr_list)`:
    allocates the cell only on success; manager mutations persist in either case. -/
def mkRecord (h : Heap) (c : Nat) (kind : RecKind) (id : Option QName) (attrs : List AttrArg) :
    Heap × Except Err Nat :=
  if kind.isElement && id.isNone then (h, .error errIdRequired)
  else
    let (m', rc, e) := Record.addAttributes (h.parentOf c) (h.mgrOf c) ⟨kind, id, []⟩ attrs
    let h1 := h.setMgr c m'
    match e with
    | some err => (h1, .error err)
    | none => ({ h1 with recs := h1.recs.push ⟨c, rc⟩ }, .ok h1.recs.size)

/-- `new_record(record_type, identifier, attributes, other_attributes)` (the two lists concatenated) -/
def newRecord (h : Heap) (c : Nat) (kind : RecKind) (idArg : NameArg) (attrs : List AttrArg) :
    Heap × Except Err Nat :=
  let (h1, id) := h.validName c idArg
  match h1.mkRecord c kind id attrs with
  | (h2, .ok r) => (h2.addRecordRaw c r, .ok r)
  | (h2, .error e) => (h2, .error e)

/-- `record.add_attributes(attrs)` on an existing record -/
def addAttributes (h : Heap) (r : Nat) (attrs : List AttrArg) : Heap × Option Err :=
  let cell := h.recCell r
  let c := cell.bundle
  let (m', rc, e) := Record.addAttributes (h.parentOf c) (h.mgrOf c) cell.r attrs
  ((h.setMgr c m').setRec r rc, e)

def attrsReplace (as : List (QName × List Value)) (a : QName) (v : Value) : List (QName × List Value) :=
  match as with
  | [] => [(a, [v])]
  | (k, vs) :: rest => if k.same a then (k, [v]) :: rest else (k, vs) :: attrsReplace rest a v

/-- `_ensure_datetime(value)` -/
def ensureDatetime (v : Value) : Except Err Value :=
  match v with
  | .str s => match parseIso s with
    | some t => .ok (.dt t)
    | none => .error errValue
  | v => .ok v

/-- `ProvActivity.set_time(startTime, endTime)`: replaces the slot(s). -/
def setTime (h : Heap) (r : Nat) (st en : Option Value) : Heap × Option Err :=
  let rc := (h.recCell r).r
  let step (rc : Record) (slot : String) (v : Option Value) : Except Err Record :=
    match v with
    | none => .ok rc
    | some v => match ensureDatetime v with
      | .ok v' => .ok { rc with attrs := attrsReplace rc.attrs (formalQ slot) v' }
      | .error e => .error e
  match step rc "startTime" st with
  | .error e => (h, some e)
  | .ok rc1 =>
    match step rc1 "endTime" en with
    | .error e => (h.setRec r rc1, some e)
    | .ok rc2 => (h.setRec r rc2, none)

/-- `add_asserted_type(v)`: `_attributes[PROV_TYPE].add(_auto_literal_conversion(v))` -/
def addAssertedType (h : Heap) (r : Nat) (v : ArgVal) (flt : Option FloatAtom) : Heap × Option Err :=
  let cell := h.recCell r
  let c := cell.bundle
  let (m', conv) := autoLiteral (h.mgrOf c) v flt
  let h1 := h.setMgr c m'
  match conv with
  | .ok v' => (h1.setRec r (cell.r.insert (provQ "type") v'), none)
  | .isNone => (h1, some "unspecified:None-in-set")
  | .crash e => (h1, some e)

/-- arguments with which `add_record` re-creates a record -/
def recreateArgs (rc : Record) : NameArg × List AttrArg :=
  let idArg := match rc.id with | some q => NameArg.qn q | none => NameArg.nil
  let formals : List AttrArg := rc.formalAttrs.map (fun p =>
    { name := .qn p.1, value := match p.2 with | some v => .val v | none => .nil })
  let extras : List AttrArg := rc.extraAttrs.map (fun p => { name := .qn p.1, value := .val p.2 })
  (idArg, formals ++ extras)

/-- `add_record(record)` -/
def addRecord (h : Heap) (c : Nat) (r : Nat) : Heap × Except Err Nat :=
  let rc := (h.recCell r).r
  let (idArg, attrs) := recreateArgs rc
  h.newRecord c rc.kind idArg attrs

def addRecords (h : Heap) (c : Nat) : List Nat → Heap × Option Err
  | [] => (h, none)
  | r :: rest =>
    match h.addRecord c r with
    | (h1, .ok _) => addRecords h1 c rest
    | (h1, .error e) => (h1, some e)

/-- `record.copy()` -/
def copyRecord (h : Heap) (r : Nat) : Heap × Except Err Nat :=
  let cell := h.recCell r
  let attrs : List AttrArg := cell.r.flat.map (fun p => { name := .qn p.1, value := .val p.2 })
  h.mkRecord cell.bundle cell.r.kind cell.r.id attrs

/-- `get_record(identifier)`; `none` models the Python `None` answer for `identifier is None`. -/
def getRecord (h : Heap) (c : Nat) (x : NameArg) : Heap × Option (List Nat) :=
  match x with
  | .nil => (h, none)
  | x =>
    let (h1, q?) := h.validName c x
    match q? with
    | some q => (h1, some (idMapGet (h1.cont c).idMap q))
    | none => (h1, some [])

inductive ClsFilter where
  | all | element | relation | kind (k : RecKind)
  deriving Repr, DecidableEq

def ClsFilter.accepts (f : ClsFilter) (k : RecKind) : Bool :=
  match f with
  | .all => true
  | .element => k.isElement
  | .relation => !k.isElement
  | .kind k' => k == k' || (k' == .specialization && k == .mention)

def getRecords (h : Heap) (c : Nat) (f : ClsFilter) : List Nat :=
  (h.cont c).records.filter (fun r => f.accepts (h.recCell r).r.kind)

/-! ### unification -/

/-- group refs by record kind, groups in order of first appearance (a `defaultdict(list)`) -/
def groupByKind (h : Heap) (rs : List Nat) : List (RecKind × List Nat) :=
  rs.foldl (fun acc r =>
    let k := (h.recCell r).r.kind
    if acc.any (fun g => g.1 == k) then acc.map (fun g => if g.1 == k then (g.1, g.2 ++ [r]) else g)
    else acc ++ [(k, [r])]) []

/-- the first record of a group re-created in a scratch bundle of its own (`ProvBundle()`: no namespaces, no document):
    the merge happens outside the source -/
def scratchCopy (h : Heap) (r0 : Nat) : Heap × Except Err Nat :=
  let cell := h.recCell r0
  let attrs : List AttrArg := cell.r.flat.map (fun p => { name := .qn p.1, value := .val p.2 })
  let (h0, sc) := h.allocCont false none [] none
  h0.mkRecord sc cell.r.kind cell.r.id attrs

/-- merge one group of ≥ 2 records: `merged = <records[0] re-created in a scratch bundle>;
    merged.add_attributes(r.attributes)…` -/
def mergeGroup (h : Heap) (rs : List Nat) : Heap × Except Err Nat :=
  match rs with
  | [] => (h, .error "unspecified:empty-group")
  | r0 :: rest =>
    match h.scratchCopy r0 with
    | (h1, .error e) => (h1, .error e)
    | (h1, .ok mref) =>
      let rec go (h : Heap) : List Nat → Heap × Option Err
        | [] => (h, none)
        | r :: more =>
          let attrs : List AttrArg :=
            (h.recCell r).r.flat.map (fun p => { name := .qn p.1, value := .val p.2 })
          match h.addAttributes mref attrs with
          | (h', none) => go h' more
          | (h', some e) => (h', some e)
      match go h1 rest with
      | (h2, none) => (h2, .ok mref)
      | (h2, some e) => (h2, .error e)

/-- second pass of `_unified_records()`: walk the record list, put each merged record at the first
    occurrence of its group, keep every other record -/
def placeMerged (mp : List (Nat × Nat)) (records : List Nat) : List Nat :=
  records.foldl (fun (acc : List Nat) r =>
    match mp.find? (fun p => p.1 == r) with
    | some (_, mref) => if acc.contains mref then acc else acc ++ [mref]
    | none => acc ++ [r]) []

/-- `_unified_records()`: returns the list of record refs (originals or merged copies). -/
def unifiedRecords (h : Heap) (c : Nat) : Heap × Except Err (List Nat) :=
  let k := h.cont c
  let groups : List (List Nat) :=
    (k.idMap.flatMap (fun e => (groupByKind h e.2).map (·.2))).filter (fun g => g.length > 1)
  let rec mergeAll (h : Heap) (acc : List (Nat × Nat)) : List (List Nat) →
      Heap × Except Err (List (Nat × Nat))
    | [] => (h, .ok acc)
    | g :: gs =>
      match h.mergeGroup g with
      | (h1, .ok mref) => mergeAll h1 (acc ++ g.map (fun r => (r, mref))) gs
      | (h1, .error e) => (h1, .error e)
  match mergeAll h [] groups with
  | (h1, .error e) => (h1, .error e)
  | (h1, .ok mp) =>
    (h1, .ok (placeMerged mp k.records))

/-- `ProvBundle.unified()` -/
def unifiedBundle (h : Heap) (c : Nat) : Heap × Except Err Nat :=
  match h.unifiedRecords c with
  | (h1, .error e) => (h1, .error e)
  | (h1, .ok rs) =>
    let (h2, nb) := h1.allocCont false (h1.cont c).id [] none
    match h2.addRecords nb rs with
    | (h3, none) => (h3, .ok nb)
    | (h3, some e) => (h3, .error e)

def bundlesGet (bs : List (QName × Nat)) (q : QName) : Option Nat :=
  (bs.find? (fun p => p.1.same q)).map (·.2)

/-- Python truthiness of the identifier argument (`if not identifier`) -/
def idFalsy : NameArg → Bool
  | .nil => true
  | .str s => s == ""
  | .qn _ => false

/-- `identifier = bundle.identifier` when none was given -/
def defaultBundleId (h1 : Heap) (b' : Nat) : NameArg → NameArg
  | .nil => (match (h1.cont b').id with | some q => .qn q | none => .nil)
  | x => x

/-- `bundle._namespaces.parent = self._namespaces` -/
def linkParent (h1 : Heap) (d b' : Nat) : Heap :=
  { h1 with mgrs := h1.mgrs.setIfInBounds (h1.cont b').mgr { h1.mgrCell (h1.cont b').mgr with parent := some (h1.cont d).mgr } }

/-- the three container writes that register bundle `b'` under `q` in document `d` -/
def registerBundle (h3 : Heap) (d b' : Nat) (q : QName) : Heap × Option Err :=
  let h4 := h3.setCont b' { h3.cont b' with id := some q }
  let dk := h4.cont d
  if (bundlesGet dk.bundles q).isSome then (h4, some errProv)
  else
    let h5 := h4.setCont d { dk with bundles := dk.bundles ++ [(q, b')] }
    (h5.setCont b' { h5.cont b' with doc := some d }, none)

/-- the second half of `add_bundle`, once the bundle object `b'` is fixed: link its manager to the document's, resolve the
    identifier in its scope, rewrite its identifier, register it in the document -/
def attachBundle (h1 : Heap) (d b' : Nat) (idArg : NameArg) : Heap × Option Err :=
  if idFalsy (h1.defaultBundleId b' idArg) then (h1, some errProv)
  else
    match (h1.linkParent d b').validName b' (h1.defaultBundleId b' idArg) with
    | (h3, none) => (h3, some errProv)
    | (h3, some q) => h3.registerBundle d b' q

/-- `add_bundle(bundle, identifier)`. `nsOrder` = iteration order of `bundle.namespaces` (a set) as
    observed on the implementation, used only when `bundle` is a document. -/
def addBundle (h : Heap) (d : Nat) (b : Nat) (idArg : NameArg) (nsOrder : List Ns) :
    Heap × Option Err :=
  let bk := h.cont b
  let step1 : Heap × Except Err Nat :=
    if bk.isDoc then
      if !bk.bundles.isEmpty then (h, .error errProv)
      else
        let (h1, nb) := h.allocCont false none nsOrder none
        match h1.addRecords nb bk.records with
        | (h2, none) => (h2, .ok nb)
        | (h2, some e) => (h2, .error e)
    else (h, .ok b)
  match step1 with
  | (h1, .error e) => (h1, some e)
  | (h1, .ok b') => h1.attachBundle d b' idArg

/-- `ProvDocument.bundle(identifier)` -/
def bundle (h : Heap) (d : Nat) (idArg : NameArg) : Heap × Except Err Nat :=
  match idArg with
  | .nil => (h, .error errProv)
  | x =>
    let (h1, vid) := h.validName d x
    match vid with
    | none => (h1, .error errProv)
    | some q =>
      let dk := h1.cont d
      if (bundlesGet dk.bundles q).isSome then (h1, .error errProv)
      else
        let (h2, nb) := h1.allocCont false (some q) [] (some d)
        (h2.setCont d { h2.cont d with bundles := (h2.cont d).bundles ++ [(q, nb)] }, .ok nb)

/-- `ProvDocument.unified()` (after the fix: own manager seeded from the source) -/
def unifiedInto (h2 : Heap) (d nd : Nat) : Heap × Except Err Nat :=
  match h2.unifiedRecords d with
  | (h3, .error e) => (h3, .error e)
  | (h3, .ok rs) =>
    match h3.addRecords nd rs with
    | (h4, some e) => (h4, .error e)
    | (h4, none) =>
      let rec go (h : Heap) : List (QName × Nat) → Heap × Option Err
        | [] => (h, none)
        | (_, b) :: rest =>
          match h.unifiedBundle b with
          | (h', .error e) => (h', some e)
          | (h', .ok ub) =>
            match h'.addBundle nd ub .nil [] with
            | (h'', none) => go h'' rest
            | (h'', some e) => (h'', some e)
      match go h4 (h4.cont d).bundles with
      | (h5, none) => (h5, .ok nd)
      | (h5, some e) => (h5, .error e)

/-- the new document starts with the source's default namespace -/
def copyDefault (h1 : Heap) (nd : Nat) : Option Ns → Heap
  | some dn => h1.setDefault nd dn.uri
  | none => h1

def unifiedDoc (h : Heap) (d : Nat) : Heap × Except Err Nat :=
  let m := h.mgrOf d
  let (h1, nd) := h.allocCont true none m.reg.values none
  (h1.copyDefault nd m.dflt).unifiedInto d nd

/-- `ProvDocument.flattened()` -/
def flattened (h : Heap) (d : Nat) : Heap × Except Err Nat :=
  let dk := h.cont d
  if dk.bundles.isEmpty then (h, .ok d)
  else
    let (h1, nd) := h.newDoc
    let rs := dk.records ++ dk.bundles.flatMap (fun p => (h.cont p.2).records)
    match h1.addRecords nd rs with
    | (h2, none) => (h2, .ok nd)
    | (h2, some e) => (h2, .error e)

/-- `ProvBundle.update(other)` -/
def updateBundle (h : Heap) (c : Nat) (o : Nat) : Heap × Option Err :=
  let ok := h.cont o
  if ok.isDoc && !ok.bundles.isEmpty then (h, some errProv)
  else h.addRecords c ok.records

/-- `ProvDocument.update(other)` -/
def updateDoc (h : Heap) (d : Nat) (o : Nat) : Heap × Option Err :=
  let ok := h.cont o
  match h.addRecords d ok.records with
  | (h1, some e) => (h1, some e)
  | (h1, none) =>
    let rec go (h : Heap) : List (QName × Nat) → Heap × Option Err
      | [] => (h, none)
      | (_, b) :: rest =>
        match (h.cont b).id with
        | none => (h, some "unspecified:bundle-without-id")
        | some bid =>
          match bundlesGet (h.cont d).bundles bid with
          | some tb =>
            (match h.updateBundle tb b with
             | (h', none) => go h' rest
             | (h', some e) => (h', some e))
          | none =>
            match h.bundle d (.qn bid) with
            | (h', .error e) => (h', some e)
            | (h', .ok nb) =>
              match h'.updateBundle nb b with
              | (h'', none) => go h'' rest
              | (h'', some e) => (h'', some e)
    go h1 ok.bundles

def update (h : Heap) (c : Nat) (o : Nat) : Heap × Option Err :=
  if (h.cont c).isDoc then h.updateDoc c o else h.updateBundle c o

end Heap
end Prov

/-
  Graph conversion: `prov/graph.py` (`prov_to_graph`, `graph_to_prov`) on node / edge lists.
-/
import Prov.Eq

namespace Prov

/-- `INFERRED_ELEMENT_CLASS` restricted to what can occur in the first two formal positions: attribute ↦ element kind -/
def inferredClass : List (String × RecKind) := [
  ("entity", .entity), ("activity", .activity), ("agent", .agent), ("trigger", .entity),
  ("generatedEntity", .entity), ("usedEntity", .entity), ("delegate", .agent), ("responsible", .agent),
  ("specificEntity", .entity), ("generalEntity", .entity), ("alternate1", .entity), ("alternate2", .entity),
  ("collection", .entity), ("informed", .activity), ("informant", .activity), ("plan", .entity),
  ("ender", .entity), ("starter", .entity)]

/-- a node of the MultiDiGraph: a declared element record of the unified document, or an inferred element -/
structure GNode where
  declared : Option Nat       -- record ref in the unified document (none = inferred, `bundle is None`)
  kind : RecKind
  id : QName
  deriving Repr, DecidableEq

structure Graph where
  nodes : List GNode
  edges : List (Nat × Nat × Nat)     -- (index of source node, index of target node, relation record ref)
  deriving Repr

def nodeMapSet (m : List (QName × Nat)) (q : QName) (i : Nat) : List (QName × Nat) :=
  match m with
  | [] => [(q, i)]
  | (k, v) :: rest => if k.same q then (k, i) :: rest else (k, v) :: nodeMapSet rest q i

def nodeMapGet (m : List (QName × Nat)) (q : QName) : Option Nat := (m.find? (fun p => p.1.same q)).map (·.2)

structure GState where
  nodes : List GNode                 -- nodes of the graph (in insertion order)
  pool : List GNode                  -- every element object ever put into node_map (graph nodes + inferred-but-unused)
  nodeMap : List (QName × Nat)       -- identifier ↦ index into pool
  edges : List (Nat × Nat × Nat)     -- indices into pool

namespace Heap

/-- first two formal values of a relation, with the attribute they belong to -/
def firstTwo (r : Record) : Option ((String × Option Value) × (String × Option Value)) :=
  match r.kind.formals with
  | a :: b :: _ => some ((a, (r.get (formalQ a)).head?), (b, (r.get (formalQ b)).head?))
  | _ => none

/-- resolve one endpoint: declared / already known element, else infer its class from the attribute -/
def endpoint (st : GState) (attr : String) (q : QName) : Option (GState × Nat) :=
  match nodeMapGet st.nodeMap q with
  | some i => some (st, i)
  | none =>
    match inferredClass.find? (fun p => p.1 == attr) with
    | none => none                                    -- KeyError: class cannot be inferred
    | some (_, k) =>
      let i := st.pool.length
      some ({ st with pool := st.pool ++ [⟨none, k, q⟩], nodeMap := nodeMapSet st.nodeMap q i }, i)

def addGraphNode (st : GState) (i : Nat) : GState :=
  match st.pool[i]? with
  | some n => if st.nodes.contains n then st else { st with nodes := st.nodes ++ [n] }
  | none => st

/-- the loop over relations of `prov_to_graph` -/
def graphStep (h : Heap) (st : GState) (rref : Nat) : GState :=
  let r := (h.recCell rref).r
  match firstTwo r with
  | some ((a1, some (.qn q1)), (a2, some (.qn q2))) =>
    match endpoint st a1 q1 with
    | none => st
    | some (st1, i1) =>
      match endpoint st1 a2 q2 with
      | none => st1                     -- the first endpoint stays in node_map although the relation is skipped
      | some (st2, i2) =>
        let st3 := addGraphNode (addGraphNode st2 i1) i2
        { st3 with edges := st3.edges ++ [(i1, i2, rref)] }
  | _ => st

/-- `prov_to_graph(document)`: returns the heap after `unified()`, the unified document and the graph (indices into `pool`) -/
def provToGraph (h : Heap) (d : Nat) : Heap × Except Err (Nat × GState) :=
  match h.unifiedDoc d with
  | (h1, .error e) => (h1, .error e)
  | (h1, .ok u) =>
    let elems := h1.getRecords u .element
    let st0 : GState := elems.foldl (fun st r =>
      let rc := (h1.recCell r).r
      match rc.id with
      | some q =>
        let n : GNode := ⟨some r, rc.kind, q⟩
        let i := st.pool.length
        { st with nodes := st.nodes ++ [n], pool := st.pool ++ [n], nodeMap := nodeMapSet st.nodeMap q i }
      | none => st) ⟨[], [], [], []⟩
    let st := (h1.getRecords u .relation).foldl (graphStep h1) st0
    (h1, .ok (u, st))

/-- `graph_to_prov(g)`: declared nodes in node order, then the relations of the edges (grouped by source node, as
    networkx iterates them) -/
def graphToProv (h : Heap) (st : GState) : Heap × Except Err Nat :=
  let (h1, nd) := h.newDoc
  let nodeRecs := st.nodes.filterMap (·.declared)
  let edgeRecs := st.nodes.flatMap (fun n =>
    match st.pool.findIdx? (· == n) with
    | some i =>
      let out := st.edges.filter (fun e => e.1 == i)
      -- adjacency order: neighbours in order of their first edge, parallel edges to one neighbour together
      let targets := out.foldl (fun (acc : List Nat) e => if acc.contains e.2.1 then acc else acc ++ [e.2.1]) []
      targets.flatMap (fun t => (out.filter (fun e => e.2.1 == t)).map (fun e => e.2.2))
    | none => [])
  match h1.addRecords nd (nodeRecs ++ edgeRecs) with
  | (h2, none) => (h2, .ok nd)
  | (h2, some e) => (h2, .error e)

end Heap
end Prov

/-
  The namespace manager state machine: `prov.model.NamespaceManager`.
  Each function mirrors one Python method branch for branch.
-/
import Prov.Names
import Prov.Text

namespace Prov
open Text

/-- State of one `NamespaceManager` (a dict subclass plus five private fields). -/
structure NsMgr where
  tbl    : Tbl Ns            -- the dict itself: prefix → Namespace (incl. prov/xsd/xsi and "" once set)
  reg    : Tbl Ns            -- `_namespaces`: what `get_registered_namespaces()` returns
  uriMap : Tbl Ns            -- `_uri_map`
  rename : List (Ns × Ns)    -- `_rename_map`
  pren   : Tbl Ns            -- `_prefix_renamed_map`
  dflt   : Option Ns         -- `_default`
  deriving Repr, Inhabited, DecidableEq

def defaultTbl : Tbl Ns := [("prov", nsProv), ("xsd", nsXsd), ("xsi", nsXsi)]

/-- `NamespaceManager()` with no arguments. -/
def NsMgr.init : NsMgr :=
  { tbl := defaultTbl, reg := [], uriMap := [], rename := [], pren := [], dflt := none }

/-- `set_default_namespace(uri)`. -/
def NsMgr.setDefault (m : NsMgr) (uri : String) : NsMgr :=
  let d : Ns := ⟨"", uri⟩
  { m with dflt := some d, tbl := m.tbl.set "" d }

/-- `_get_unused_prefix`: the `while True` loop with explicit fuel (`tbl.length + 1` candidates
    always contain an unused one). -/
def unusedAux (t : Tbl Ns) (p : String) : Nat → Nat → String
  | 0, k => p ++ "_" ++ toString k
  | fuel + 1, k =>
    let c := p ++ "_" ++ toString k
    if t.contains c then unusedAux t p fuel (k + 1) else c

def NsMgr.unusedPrefix (m : NsMgr) (p : String) : String :=
  if m.tbl.contains p then unusedAux m.tbl p (m.tbl.length + 1) 1 else p

def lookupRename (r : List (Ns × Ns)) (n : Ns) : Option Ns :=
  match r with
  | [] => none
  | (k, v) :: rest => if k = n then some v else lookupRename rest n

/-- `add_namespace(namespace)`: returns the new state and the namespace actually in force. -/
def NsMgr.addNs (m : NsMgr) (n : Ns) : NsMgr × Ns :=
  if m.tbl.values.contains n then (m, n) else               -- namespace in self.values()
  match lookupRename m.rename n with
  | some r => (m, r)                                        -- already renamed and added
  | none =>
    match m.uriMap.get? n.uri with
    | some e =>                                             -- URI already defined
      ({ m with rename := m.rename ++ [(n, e)], pren := m.pren.set n.pfx e }, e)
    | none =>
      if m.tbl.contains n.pfx then                          -- conflicting prefix
        let nn : Ns := ⟨m.unusedPrefix n.pfx, n.uri⟩
        ({ m with rename := m.rename ++ [(n, nn)], pren := m.pren.set n.pfx nn,
                  reg := m.reg.set nn.pfx nn, tbl := m.tbl.set nn.pfx nn,
                  uriMap := m.uriMap.set n.uri nn }, nn)
      else
        ({ m with reg := m.reg.set n.pfx n, tbl := m.tbl.set n.pfx n,
                  uriMap := m.uriMap.set n.uri n }, n)

/-- `add_namespaces(list)`. -/
def NsMgr.addNss (m : NsMgr) (ns : List Ns) : NsMgr :=
  ns.foldl (fun m n => (m.addNs n).1) m

/-- The `QualifiedName` path of `valid_qualified_name` (the only mutating path). -/
def NsMgr.validQ (m : NsMgr) (q : QName) : NsMgr × QName :=
  if q.ns.pfx = "" then
    match m.dflt with
    | none => ({ m with dflt := some q.ns, tbl := m.tbl.set "" q.ns }, q)   -- adopt
    | some d =>
      if d = q.ns then (m, ⟨d, q.loc⟩)                       -- same default namespace
      else
        let (m', dn) := m.addNs ⟨"dn", q.ns.uri⟩
        (m', ⟨dn, q.loc⟩)
  else
    match m.tbl.get? q.ns.pfx with
    | some e =>
      if e = q.ns then (m, ⟨e, q.loc⟩)
      else let (m', n) := m.addNs ⟨q.ns.pfx, q.ns.uri⟩; (m', ⟨n, q.loc⟩)
    | none => let (m', n) := m.addNs ⟨q.ns.pfx, q.ns.uri⟩; (m', ⟨n, q.loc⟩)

/-- URI compaction: first namespace in dict order whose URI is a string prefix;
    local part = the rest of the string after that URI (`str_value[len(namespace.uri):]`). -/
def compact (vals : List Ns) (s : String) : Option QName :=
  match vals with
  | [] => none
  | n :: rest =>
    if sStartsWith s n.uri then some ⟨n, sDropLen s n.uri⟩ else compact rest s

/-- String path of `valid_qualified_name` within one manager (no parent). `none` = fall through. -/
def NsMgr.resolveOwn (m : NsMgr) (s : String) : Option QName :=
  match splitAt1 ':' s.toList with
  | some (p, l) =>
    let p := String.ofList p
    let l := String.ofList l
    match m.tbl.get? p with
    | some n => some ⟨n, l⟩
    | none =>
      match m.pren.get? p with
      | some n => some ⟨n, l⟩
      | none => compact m.tbl.values s
  | none => m.dflt.map (fun d => ⟨d, s⟩)

/-- String path including the early exits and delegation to the parent manager. -/
def NsMgr.resolveStr (parent : Option NsMgr) (m : NsMgr) (s : String) : Option QName :=
  if s = "" then none
  else if sStartsWith s "_:" then none
  else match m.resolveOwn s with
    | some q => some q
    | none =>
      match parent with
      | some p => if sStartsWith s "_:" then none else p.resolveOwn s
      | none => none

/-- Argument of `valid_qualified_name`. -/
inductive NameArg where
  | qn (q : QName)
  | str (s : String)      -- str, or Identifier (its URI)
  | nil
  deriving Repr, Inhabited, DecidableEq

/-- `valid_qualified_name(x)` on a manager with an optional parent. -/
def NsMgr.validName (parent : Option NsMgr) (m : NsMgr) (x : NameArg) : NsMgr × Option QName :=
  match x with
  | .nil => (m, none)
  | .qn q => let (m', q') := m.validQ q; (m', some q')
  | .str s => (m, m.resolveStr parent s)

/-! ### specification-level predicates used by C03 (also evaluated by the driver) -/

/-- the manager can print `q` and read it back: its namespace is bound under its prefix
    (non-empty prefix) or is the default namespace (empty prefix) -/
def NsMgr.Owns (m : NsMgr) (q : QName) : Prop :=
  (q.ns.pfx ≠ "" ∧ m.tbl.get? q.ns.pfx = some q.ns) ∨ (q.ns.pfx = "" ∧ m.dflt = some q.ns)

instance (m : NsMgr) (q : QName) : Decidable (m.Owns q) := by
  unfold NsMgr.Owns; exact inferInstance

/-- print form is well-formed for re-reading: no ':' in the prefix, prefix is not "_", and a bare
    local name has no ':' and is non-empty (consequences of the PROV-N `PN_PREFIX`/`PN_LOCAL` shapes) -/
def WfName (q : QName) : Prop :=
  ':' ∉ q.ns.pfx.toList ∧ q.ns.pfx ≠ "_" ∧
  (q.ns.pfx = "" → ':' ∉ q.loc.toList ∧ q.loc ≠ "" ∧ sStartsWith q.loc "_:" = false)

instance (q : QName) : Decidable (WfName q) := by
  unfold WfName; exact inferInstance

end Prov

/-
  The 18 record kinds and the constant tables of prov/constants.py and the record classes of
  prov/model.py, written by hand. `Prov/Props/Tables.lean` proves these equal to the tables that
  tools/gen_tables.py regenerates from the live Python objects on every run.
-/
import Prov.Names

namespace Prov

inductive RecKind where
  | entity | activity | generation | usage | communication | start | «end» | invalidation
  | derivation | agent | attribution | association | delegation | influence
  | specialization | alternate | mention | membership
  deriving DecidableEq, Repr, Inhabited

namespace RecKind

def all : List RecKind :=
  [entity, activity, generation, usage, communication, start, «end», invalidation,
   derivation, agent, attribution, association, delegation, influence,
   specialization, alternate, mention, membership]

/-- local part of the `PROV_*` record type name (`prov:Entity`, …). -/
def typeName : RecKind → String
  | entity => "Entity" | activity => "Activity" | generation => "Generation" | usage => "Usage"
  | communication => "Communication" | start => "Start" | «end» => "End"
  | invalidation => "Invalidation" | derivation => "Derivation" | agent => "Agent"
  | attribution => "Attribution" | association => "Association" | delegation => "Delegation"
  | influence => "Influence" | specialization => "Specialization" | alternate => "Alternate"
  | mention => "Mention" | membership => "Membership"

/-- `PROV_N_MAP`. -/
def provN : RecKind → String
  | entity => "entity" | activity => "activity" | generation => "wasGeneratedBy" | usage => "used"
  | communication => "wasInformedBy" | start => "wasStartedBy" | «end» => "wasEndedBy"
  | invalidation => "wasInvalidatedBy" | derivation => "wasDerivedFrom" | agent => "agent"
  | attribution => "wasAttributedTo" | association => "wasAssociatedWith"
  | delegation => "actedOnBehalfOf" | influence => "wasInfluencedBy"
  | specialization => "specializationOf" | alternate => "alternateOf" | mention => "mentionOf"
  | membership => "hadMember"

/-- `FORMAL_ATTRIBUTES` of the record class, as local parts in the PROV namespace. -/
def formals : RecKind → List String
  | entity => [] | agent => []
  | activity => ["startTime", "endTime"]
  | generation => ["entity", "activity", "time"]
  | usage => ["activity", "entity", "time"]
  | communication => ["informed", "informant"]
  | start => ["activity", "trigger", "starter", "time"]
  | «end» => ["activity", "trigger", "ender", "time"]
  | invalidation => ["entity", "activity", "time"]
  | derivation => ["generatedEntity", "usedEntity", "activity", "generation", "usage"]
  | attribution => ["entity", "agent"]
  | association => ["activity", "agent", "plan"]
  | delegation => ["delegate", "responsible", "activity"]
  | influence => ["influencee", "influencer"]
  | specialization => ["specificEntity", "generalEntity"]
  | alternate => ["alternate1", "alternate2"]
  | mention => ["specificEntity", "generalEntity", "bundle"]
  | membership => ["collection", "entity"]

def isElement : RecKind → Bool
  | entity | activity | agent => true
  | _ => false

def ofTypeName (s : String) : Option RecKind := all.find? (fun k => k.typeName == s)
def ofProvN (s : String) : Option RecKind := all.find? (fun k => k.provN == s)

end RecKind

/-- `PROV_ATTRIBUTE_QNAMES` (local parts). -/
def attrQNames : List String :=
  ["entity", "activity", "trigger", "informed", "informant", "starter", "ender", "agent", "plan",
   "delegate", "responsible", "generatedEntity", "usedEntity", "generation", "usage",
   "specificEntity", "generalEntity", "alternate1", "alternate2", "bundle", "influencee",
   "influencer", "collection"]

/-- `PROV_ATTRIBUTE_LITERALS` (local parts). -/
def attrLiterals : List String := ["time", "startTime", "endTime"]

def provUri : String := nsProv.uri
def xsdUri : String := nsXsd.uri

/-- Membership of a name in a set of PROV-namespace names is by URI (hash/eq of QualifiedName). -/
def inProvSet (locals : List String) (q : QName) : Bool :=
  locals.any (fun l => q.uri == provUri ++ l)

def isRefAttr (q : QName) : Bool := inProvSet attrQNames q
def isTimeAttr (q : QName) : Bool := inProvSet attrLiterals q
def isProvAttr (q : QName) : Bool := isRefAttr q || isTimeAttr q

/-- `XSD_DATATYPE_PARSERS` keys (local parts in the XSD namespace) with the parser kind. -/
inductive XsdParser where
  | str | double | int | boolean | dateTime | anyURI
  deriving DecidableEq, Repr

def xsdParsers : List (String × XsdParser) :=
  [("string", .str), ("double", .double), ("long", .int), ("int", .int),
   ("boolean", .boolean), ("dateTime", .dateTime), ("anyURI", .anyURI)]

def xsdParserOf (ty : QName) : Option XsdParser :=
  (xsdParsers.find? (fun p => ty.uri == xsdUri ++ p.1)).map (·.2)

end Prov

/-
  `ProvDocument.serialize(destination=path)`: destination analysis (`urlparse` as used) and the
  write-to-temporary-then-move step machine with one fault point per step.
-/
import Prov.Text

namespace Prov.FileIO
open Prov.Text

def isSchemeChar (c : Char) : Bool := (c.isAlphanum && c.toNat < 128) || c == '+' || c == '-' || c == '.'

/-- `urlsplit`: scheme detection — `url[:i]` with i = first ':' when i > 0, url[0] is an ASCII letter and every
    character before the colon is a scheme character; the scheme is lower-cased -/
def splitScheme (s : List Char) : String × List Char :=
  match splitAt1 ':' s with
  | some (p, rest) =>
    match p with
    | c :: _ => if c.isAlpha && c.toNat < 128 && p.all isSchemeChar then ((String.ofList p).toLower, rest) else ("", s)
    | [] => ("", s)
  | none => ("", s)

/-- `_splitnetloc(url, 2)` when the rest starts with "//" -/
def splitNetloc (rest : List Char) : List Char × List Char :=
  match rest with
  | '/' :: '/' :: more =>
    let nl := more.takeWhile (fun c => !(c == '/' || c == '?' || c == '#'))
    (nl, more.drop nl.length)
  | _ => ([], rest)

/-- path component for a file: URL: up to the first '#', then up to the first '?' -/
def urlPath (rest : List Char) : List Char :=
  let noFrag := rest.takeWhile (· != '#')
  noFrag.takeWhile (· != '?')

/-- where `serialize(destination=location)` writes: `none` = "not a local file reference" (nothing written) -/
def destPath (location : String) : Option String :=
  let (scheme, rest) := splitScheme location.toList
  let (netloc, afterNl) := splitNetloc rest
  if !netloc.isEmpty then none
  else if scheme == "file" then some (String.ofList (urlPath afterNl))
  else some location

/-! ### the write machine -/

/-- a file system: path ↦ content -/
abbrev FS := List (String × String)

def fsGet (fs : FS) (p : String) : Option String := (fs.find? (fun e => e.1 == p)).map (·.2)
def fsSet (fs : FS) (p : String) (c : String) : FS :=
  match fs with
  | [] => [(p, c)]
  | (k, v) :: rest => if k == p then (p, c) :: rest else (k, v) :: fsSet rest p c
def fsDel (fs : FS) (p : String) : FS := fs.filter (fun e => e.1 != p)

/-- steps of the write: 0 = mkstemp, 1..n = the n `write` calls, n+1 = close, n+2 = move (atomic rename).
    `fault = some k`: step k raises. After the "fix:" commits every failure removes the temporary file. -/
def writePath (fs : FS) (tmp dest : String) (chunks : List String) (fault : Option Nat) : FS × Bool :=
  let n := chunks.length
  match fault with
  | some 0 => (fs, false)                                      -- mkstemp itself failed: nothing created
  | some k =>
    if k ≤ n + 2 then (fsDel (fsSet fs tmp "") tmp, false)      -- created, partially written, cleaned up on the exception
    else ((fsDel (fsSet (fsSet fs tmp (String.join chunks)) dest (String.join chunks)) tmp), true)
  | none => ((fsDel (fsSet (fsSet fs tmp (String.join chunks)) dest (String.join chunks)) tmp), true)

end Prov.FileIO

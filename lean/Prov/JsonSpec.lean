/-
  An independent reader of PROV-JSON, written from the PROV-JSON member submission
  (https://www.w3.org/Submission/prov-json/): structure rules and tables transcribed by hand.
  It shares no code with the model of the library's reader (Prov/Json.lean `decodeJson`) and uses
  none of the library's tables; Props/Tables proves the transcribed tables equal to the code's.
-/
import Prov.Json

namespace Prov.JsonSpec
open Prov

/-- abstract values: what a PROV-JSON value denotes -/
inductive AVal where
  | str (s : String) | int (n : Int) | bool (b : Bool) | float (repr : String) | dt (lex : String)
  | uri (u : String) | qn (uri : String) | lit (lex : String) (tyUri : Option String) (lang : Option String)
  deriving Repr, DecidableEq

structure ARec where
  kind : String                       -- PROV-DM type name ("Entity", …)
  id : Option String                  -- identifier URI
  attrs : List (String × AVal)        -- (attribute URI, value)
  deriving Repr

/-- PROV-JSON §3: the top-level / bundle-level keys for record kinds and the PROV-DM type they denote -/
def kindKeys : List (String × String) := [
  ("entity", "Entity"), ("activity", "Activity"), ("agent", "Agent"),
  ("wasGeneratedBy", "Generation"), ("used", "Usage"), ("wasInformedBy", "Communication"),
  ("wasStartedBy", "Start"), ("wasEndedBy", "End"), ("wasInvalidatedBy", "Invalidation"),
  ("wasDerivedFrom", "Derivation"), ("wasAttributedTo", "Attribution"),
  ("wasAssociatedWith", "Association"), ("actedOnBehalfOf", "Delegation"),
  ("wasInfluencedBy", "Influence"), ("specializationOf", "Specialization"),
  ("alternateOf", "Alternate"), ("mentionOf", "Mention"), ("hadMember", "Membership")]

/-- PROV-JSON: the reserved `prov:` attribute keys whose values are qualified names … -/
def refKeys : List String := [
  "prov:entity", "prov:activity", "prov:trigger", "prov:informed", "prov:informant", "prov:starter",
  "prov:ender", "prov:agent", "prov:plan", "prov:delegate", "prov:responsible", "prov:generatedEntity",
  "prov:usedEntity", "prov:generation", "prov:usage", "prov:specificEntity", "prov:generalEntity",
  "prov:alternate1", "prov:alternate2", "prov:bundle", "prov:influencee", "prov:influencer",
  "prov:collection"]
/-- … and those whose values are xsd:dateTime strings -/
def timeKeys : List String := ["prov:time", "prov:startTime", "prov:endTime"]

def provNs : String := "http://www.w3.org/ns/prov#"
def xsdNs : String := "http://www.w3.org/2001/XMLSchema#"

/-- a scope: prefix declarations (with "default") of the bundle, then of the document -/
structure Scope where
  own : List (String × String)
  outer : List (String × String)

def lookup (m : List (String × String)) (k : String) : Option String := (m.find? (fun p => p.1 == k)).map (·.2)

def splitFirstColon (cs : List Char) : Option (List Char × List Char) :=
  match cs with
  | [] => none
  | c :: rest => if c == ':' then some ([], rest) else (splitFirstColon rest).map (fun p => (c :: p.1, p.2))

/-- qualified name → URI through the declarations in scope (prov and xsd are predeclared) -/
def Scope.resolve (sc : Scope) (name : String) : Option String :=
  match splitFirstColon name.toList with
  | some (p, l) =>
    let p := String.ofList p
    let l := String.ofList l
    if p == "_" then none else
    match lookup sc.own p with
    | some u => some (u ++ l)
    | none =>
      match lookup sc.outer p with
      | some u => some (u ++ l)
      | none => if p == "prov" then some (provNs ++ l) else if p == "xsd" then some (xsdNs ++ l) else none
  | none =>
    match lookup sc.own "default" with
    | some u => some (u ++ name)
    | none => (lookup sc.outer "default").map (· ++ name)

def isIntLex (s : String) : Option Int := s.toInt?

/-- a typed value `{"$": v, "type": T}` -/
def typedValue (sc : Scope) (v0 : JVal) (ty : String) : Option AVal :=
  -- a string that also carries its float reading is a plain string for every datatype but xsd:double
  let v : JVal := match v0 with | .strf s _ => .str s | x => x
  match sc.resolve ty with
  | none => none
  | some tu =>
    if tu == xsdNs ++ "anyURI" then (match v with | .str s => some (.uri s) | _ => none)
    else if tu == provNs ++ "QUALIFIED_NAME" then
      (match v with | .str s => (sc.resolve s).map AVal.qn | _ => none)
    else if tu == xsdNs ++ "int" || tu == xsdNs ++ "long" then
      (match v with
       | .int n => some (.int n)
       | .str s => (match isIntLex s with | some n => some (.int n) | none => some (.lit s (some tu) none))
       | _ => none)
    else if tu == xsdNs ++ "double" then
      (match v0 with
       | .float f => some (.float f.repr)
       | .int n => some (.float (toString n ++ ".0"))
       | .strf _ f => some (.float f.repr)            -- lexical double with the value supplied by the harness (A-LEX)
       | .str s => some (.lit s (some tu) none)       -- not a double lexical form
       | _ => none)
    else if tu == xsdNs ++ "dateTime" then
      (match v with
       | .str s => if (parseIso s).isSome then some (.dt s) else some (.lit s (some tu) none)   -- lexical validity only
       | _ => none)
    else if tu == xsdNs ++ "string" then (match v with | .str s => some (.str s) | _ => none)
    else if tu == xsdNs ++ "boolean" then
      (match v with
       | .bool b => some (.bool b)
       | .str s =>
         let l := s.toLower
         if l == "true" || l == "1" then some (.bool true)
         else if l == "false" || l == "0" then some (.bool false)
         else some (.lit s (some tu) none)
       | _ => none)
    else (match v with
          | .str s => some (.lit s (some tu) none)
          | .int n => some (.lit (toString n) (some tu) none)
          | .float f => some (.lit f.repr (some tu) none)
          | .bool b => some (.lit (if b then "True" else "False") (some tu) none)
          | _ => none)

/-- PROV-JSON §2.2 literal values -/
def readValue (sc : Scope) (j : JVal) : Option AVal :=
  match j with
  | .str s => some (.str s)
  | .strf s _ => some (.str s)
  | .bool b => some (.bool b)
  | .int n => some (.int n)
  | .float f => some (.float f.repr)
  | .obj kvs =>
    match (JVal.obj kvs).get? "$" with
    | none => none
    | some v =>
      match (JVal.obj kvs).get? "lang", (JVal.obj kvs).get? "type" with
      | some (.str l), _ =>
        (match v with
         | .str s => some (.lit s (some (provNs ++ "InternationalizedString")) (some l))
         | .strf s _ => some (.lit s (some (provNs ++ "InternationalizedString")) (some l))
         | _ => none)
      | _, some (.str ty) => typedValue sc v ty
      | _, _ => none
  | _ => none

def mapM? {α β : Type} (f : α → Option β) : List α → Option (List β)
  | [] => some []
  | x :: xs => match f x, mapM? f xs with
    | some y, some ys => some (y :: ys)
    | _, _ => none

/-- the attribute-value pairs of one record object -/
def readAttrs (sc : Scope) (kvs : List (String × JVal)) : Option (List (String × AVal)) :=
  (mapM? (fun (p : String × JVal) =>
    match sc.resolve p.1 with
    | none => none
    | some au =>
      if refKeys.contains p.1 then
        let vals : List JVal := match p.2 with | .arr l => l | x => [x]
        mapM? (fun v => match v with
          | .str s => (sc.resolve s).map (fun u => (au, AVal.qn u))
          | _ => none) vals
      else if timeKeys.contains p.1 then
        (match p.2 with | .str s => some [(au, AVal.dt s)] | _ => none)
      else
        let vals : List JVal := match p.2 with | .arr l => l | x => [x]
        mapM? (fun v => (readValue sc v).map (fun a => (au, a))) vals) kvs).map List.flatten

def isBlank (s : String) : Bool := s.toList.take 2 == ['_', ':']

/-- one container (document level or one bundle): all records of all kinds, in text order.
    A membership listing several entities denotes one membership per entity (PROV-JSON §3.7). -/
def readContainer (sc : Scope) (kvs : List (String × JVal)) : Option (List ARec) :=
  (mapM? (fun (p : String × JVal) =>
    if p.1 == "prefix" || p.1 == "bundle" then some []
    else match lookup kindKeys p.1, p.2 with
      | some kind, .obj ids =>
        (mapM? (fun (q : String × JVal) =>
          let objs : List JVal := match q.2 with | .arr l => l | x => [x]
          let id? : Option (Option String) := if isBlank q.1 then some none else (sc.resolve q.1).map some
          match id? with
          | none => none
          | some id =>
            (mapM? (fun o => match o with
              | .obj okvs => (readAttrs sc okvs).map (fun attrs =>
                  if kind == "Membership" then
                    let ents := attrs.filter (fun a => a.1 == provNs ++ "entity")
                    let rest := attrs.filter (fun a => a.1 != provNs ++ "entity")
                    match ents with
                    | [] => [ARec.mk kind id attrs]
                    | e :: more => ARec.mk kind id (rest ++ [e]) :: more.map (fun e' =>
                        ARec.mk kind none ((rest.filter (fun a => a.1 == provNs ++ "collection")) ++ [e']))
                  else [ARec.mk kind id attrs])
              | _ => none) objs).map List.flatten) ids).map List.flatten
      | _, _ => none) kvs).map List.flatten

def prefixesOf (kvs : List (String × JVal)) : List (String × String) :=
  match (JVal.obj kvs).get? "prefix" with
  | some (.obj ps) => ps.filterMap (fun p => match p.2 with | .str u => some (p.1, u) | _ => none)
  | _ => []

/-- a whole PROV-JSON document: ("" ↦ document-level records) and one entry per bundle, keyed by the bundle's URI -/
def readDocument (j : JVal) : Option (List (String × List ARec)) :=
  match j with
  | .obj kvs =>
    let docPfx := prefixesOf kvs
    match readContainer ⟨docPfx, []⟩ kvs with
    | none => none
    | some top =>
      let bundles : List (String × JVal) := match (JVal.obj kvs).get? "bundle" with
        | some (.obj bs) => bs
        | _ => []
      (mapM? (fun (b : String × JVal) =>
        match b.2 with
        | .obj bkvs =>
          let sc : Scope := ⟨prefixesOf bkvs, docPfx⟩
          -- the bundle's key is read with the bundle's own declarations in force, then the document's
          -- (this is how the reference implementation ProvToolbox writes its test files, e.g. bundle4.json)
          match sc.resolve b.1, readContainer sc bkvs with
          | some bu, some recs => some (bu, recs)
          | _, _ => none
        | _ => none) bundles).map (fun bs => ("", top) :: bs)
  | _ => none

end Prov.JsonSpec

/-
  Attribute values: the Python value kinds the library stores, with
  `keyEq` = Python `==` + `hash` agreement (set membership) and `strict` = kind-aware canonical form.
-/
import Prov.Names

namespace Prov

/-- `datetime.datetime`; `tz` = UTC offset in minutes (`none` = naive). -/
structure DateTime where
  y : Nat
  mo : Nat
  d : Nat
  h : Nat
  mi : Nat
  s : Nat
  us : Nat
  tz : Option Int
  deriving DecidableEq, Repr, Inhabited

def pad (n width : Nat) : String :=
  let s := toString n
  String.ofList (List.replicate (width - s.length) '0') ++ s

/-- `datetime.isoformat()`. -/
def DateTime.iso (t : DateTime) : String :=
  let base := pad t.y 4 ++ "-" ++ pad t.mo 2 ++ "-" ++ pad t.d 2 ++ "T" ++
              pad t.h 2 ++ ":" ++ pad t.mi 2 ++ ":" ++ pad t.s 2
  let frac := if t.us = 0 then "" else "." ++ pad t.us 6
  let z := match t.tz with
    | none => ""
    | some off =>
      let sign := if off < 0 then "-" else "+"
      let a := off.natAbs
      sign ++ pad (a / 60) 2 ++ ":" ++ pad (a % 60) 2
  base ++ frac ++ z

/-- Days since civil epoch (proleptic Gregorian), Howard Hinnant's algorithm on naturals
    (shifted so that everything stays non-negative for years ≥ 1). -/
def daysFromCivil (y m d : Nat) : Nat :=
  let y' := if m ≤ 2 then y - 1 else y
  let era := y' / 400
  let yoe := y' - era * 400
  let mp := if m > 2 then m - 3 else m + 9
  let doy := (153 * mp + 2) / 5 + d - 1
  let doe := yoe * 365 + yoe / 4 - yoe / 100 + doy
  era * 146097 + doe

/-- Microseconds on the UTC time line for a zoned datetime / on the local line for a naive one. -/
def DateTime.instant (t : DateTime) : Int :=
  let days : Int := daysFromCivil t.y t.mo t.d
  let secs : Int := days * 86400 + t.h * 3600 + t.mi * 60 + t.s
  let secs := match t.tz with
    | none => secs
    | some off => secs - off * 60
  secs * 1000000 + t.us

/-- Python `==` on datetimes: naive vs aware are never equal; aware compare by instant. -/
def DateTime.keyEq (a b : DateTime) : Bool :=
  match a.tz, b.tz with
  | none, none => a.instant == b.instant
  | some _, some _ => a.instant == b.instant
  | _, _ => false

/-- A finite float, identified by its `repr`; `num/den` is its exact value
    (`float.as_integer_ratio()`), `g` the text `"%g" % x` (used by PROV-N only). -/
structure FloatAtom where
  repr : String
  num : Int
  den : Nat
  g : String
  deriving DecidableEq, Repr, Inhabited

inductive Value where
  | str (s : String)
  | int (n : Int)
  | bool (b : Bool)
  | float (f : FloatAtom)
  | dt (t : DateTime)
  | uri (u : String)                 -- prov.identifier.Identifier (xsd:anyURI)
  | qn (q : QName)
  | lit (v : String) (ty : Option QName) (lang : Option String)   -- prov.model.Literal
  deriving DecidableEq, Repr, Inhabited

/-- exact numeric value of a numeric kind as a fraction -/
def Value.num? : Value → Option (Int × Nat)
  | .int n => some (n, 1)
  | .bool b => some (if b then 1 else 0, 1)
  | .float f => some (f.num, f.den)
  | _ => none

/-- Python `a == b and hash(a) == hash(b)`: the identity of a value inside a `set`. -/
def Value.keyEq (a b : Value) : Bool :=
  match a, b with
  | .str s, .str t => s == t
  | .dt s, .dt t => s.keyEq t
  | .uri s, .uri t => s == t
  | .qn s, .qn t => s.uri == t.uri
  | .lit v ty l, .lit v' ty' l' =>
    v == v' && l == l' &&
      (match ty, ty' with
       | none, none => true
       | some a, some b => a.uri == b.uri
       | _, _ => false)
  | a, b =>
    match a.num?, b.num? with
    | some (n, d), some (n', d') => n * d' == n' * d
    | _, _ => false

/-- Python `!=` as used by the single-value guard (`value != existing_value`): here `Identifier`
    and `QualifiedName` with one URI *are* equal (hash is not consulted). -/
def Value.pyEq (a b : Value) : Bool :=
  match a, b with
  | .uri s, .qn t => s == t.uri
  | .qn s, .uri t => s.uri == t
  | a, b => a.keyEq b

end Prov

/-
  Text helpers on `List Char`, mirroring the Python `str` methods the library uses:
  `startswith`, `split(":", 1)`, `replace(old, "")`, `in`.
-/

namespace Prov.Text

/-- `s.split(c, 1)` when `c` occurs: (before first `c`, after it). -/
def splitAt1 (c : Char) : List Char → Option (List Char × List Char)
  | [] => none
  | x :: xs =>
    if x = c then some ([], xs)
    else match splitAt1 c xs with
      | some (a, b) => some (x :: a, b)
      | none => none

/-- `pre` is a prefix of `s` (Python `s.startswith(pre)`); returns the remainder. -/
def dropPrefix? : List Char → List Char → Option (List Char)
  | [], s => some s
  | _ :: _, [] => none
  | p :: ps, x :: xs => if p = x then dropPrefix? ps xs else none

def startsWith (s pre : List Char) : Bool := (dropPrefix? pre s).isSome

/-- Python `s.replace(old, "")` for non-empty `old`: remove every non-overlapping occurrence,
    scanning left to right. Fuel = length of `s` suffices (structural on the fuel). -/
def removeAllAux (old : List Char) : Nat → List Char → List Char
  | 0, s => s
  | _ + 1, [] => []
  | n + 1, x :: xs =>
    match dropPrefix? old (x :: xs) with
    | some rest => if old.isEmpty then x :: removeAllAux old n xs else removeAllAux old n rest
    | none => x :: removeAllAux old n xs

def removeAll (s old : List Char) : List Char := removeAllAux old (s.length + 1) s

/-- Python `sub in s`. -/
def isInfix (sub : List Char) : List Char → Bool
  | [] => sub.isEmpty
  | x :: xs => startsWith (x :: xs) sub || isInfix sub xs

/-- `s.replace(old, new)`: all non-overlapping occurrences, left to right (non-empty `old`). -/
def replaceAllAux (old new : List Char) : Nat → List Char → List Char
  | 0, s => s
  | _ + 1, [] => []
  | n + 1, x :: xs =>
    match dropPrefix? old (x :: xs) with
    | some rest => if old.isEmpty then x :: replaceAllAux old new n xs
                   else new ++ replaceAllAux old new n rest
    | none => x :: replaceAllAux old new n xs

def replaceAll (s old new : List Char) : List Char := replaceAllAux old new (s.length + 1) s

def sStartsWith (s pre : String) : Bool := startsWith s.toList pre.toList
/-- `s[len(pre):]` -/
def sDropLen (s pre : String) : String := String.ofList (s.toList.drop pre.toList.length)
def sRemoveAll (s old : String) : String := String.ofList (removeAll s.toList old.toList)
def sReplaceAll (s old new : String) : String :=
  String.ofList (replaceAll s.toList old.toList new.toList)
def sContains (s sub : String) : Bool := isInfix sub.toList s.toList
def sHasChar (s : String) (c : Char) : Bool := s.toList.contains c

end Prov.Text

#!/usr/bin/env python3
"""prints the markdown table of seeded changes (seeded/*/meta.json) for DESIGN.md"""
import glob
import json
import os

rows = []
for d in sorted(glob.glob(os.path.join(os.path.dirname(os.path.dirname(os.path.abspath(__file__))), "seeded", "*"))):
    m = json.load(open(os.path.join(d, "meta.json")))
    det = m.get("detected_by", [])
    hist = m.get("history", [])
    if isinstance(det, dict):
        hist = det.get("history", "")
        det = [det.get("check", "")]
    text = " ".join(hist) if isinstance(hist, list) else str(hist)
    low = text.lower()
    first = "after strengthening" if ("missed" in low or "strengthen" in low or "no-failing-input" in low) else "first run"
    m["detected_by"] = det
    if m.get("kind") == "behaviour-preserving":
        det = ["(must stay quiet) " + ", ".join(m.get("quiet_on", []))]
        m["detected_by"] = det
        first = "quiet"
    rows.append("| %s | %s | %s | %s | %s |" % (os.path.basename(d), ", ".join(m.get("files", []))[:60].replace("src/prov/", ""),
                                           m.get("summary", "").replace("|", "/")[:170], ", ".join(m.get("detected_by", [])), first))
print("| id | file(s) | change | detected by | when |")
print("|---|---|---|---|---|")
print("\n".join(rows))

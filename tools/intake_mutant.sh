#!/bin/bash
# usage: tools/intake_mutant.sh <id> : copy a sub-agent's result from its scratch worktree into seeded/<id>, remove the worktree
ID=$1
mkdir -p /verif/seeded/$ID
cp /tmp/mut/$ID/_out/{patch.diff,demo.py,meta.json} /verif/seeded/$ID/ || exit 2
git -C /repo worktree remove --force /tmp/mut/$ID
git -C /repo worktree prune
git -C /repo branch -D mut-$ID 2>/dev/null
ls /verif/seeded/$ID

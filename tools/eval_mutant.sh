#!/bin/bash
# usage: tools/eval_mutant.sh <dir with patch.diff demo.py> <prop> [<prop>...]
# applies the patch to /repo, confirms demo/test behaviour, runs the checks, undoes the patch.
D=$1; shift
cd /repo || exit 2
if [ -n "$(git status --porcelain)" ]; then echo "repo dirty"; exit 2; fi
echo "== demo on clean tree:"; /venv/bin/python $D/demo.py > /tmp/demo_clean.log 2>&1; echo "exit $?"
git apply $D/patch.diff || { echo "patch does not apply"; exit 2; }
echo "== demo on patched tree:"; /venv/bin/python $D/demo.py > /tmp/demo_mut.log 2>&1; echo "exit $?"; tail -3 /tmp/demo_mut.log
if [ -z "$SKIP_TESTS" ]; then echo "== baseline tests on patched tree:"; /verif/tools/baseline.sh 2>&1 | tail -1; fi
cd /verif
for P in "$@"; do
  echo "== check $P (quick)"; ./check $P --tier quick 2>&1 | grep -v "^KNOWN" | tail -4 | cut -c1-250
done
git -C /repo checkout -- . ; git -C /repo status --short

#!/venv/bin/python
"""tools/fingerprint.py [--write | --changed]: see harness/srcprint.py"""
import os
import runpy
import sys
sys.path.insert(0, os.path.dirname(os.path.dirname(os.path.abspath(__file__))))
runpy.run_module("harness.srcprint", run_name="__main__")

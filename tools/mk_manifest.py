#!/usr/bin/env python3
"""Writes MANIFEST.json from the table below (kept in one place so it stays valid)."""
import json
import os

VERIF = os.path.dirname(os.path.dirname(os.path.abspath(__file__)))

A_COMMON = ("Trusted: Lean 4.33 kernel (axioms propext, Classical.choice, Quot.sound only; no sorry/native_decide/own axioms, "
            "audited each run), tools/gen_tables.py, the harness and compiled driver. The theorems are about the hand-written "
            "Lean model; the model is tied to /repo by differential correspondence on generated inputs (sampling, not proof).")

CHECKS = {
    "C03": dict(
        text="Lean theorems over all histories of the two-level namespace-manager model: (a) URI preserved by the QualifiedName path "
             "in every reachable state (c03a_uri_preserved, by invariant Inv1 + induction over histories), (b) a bound non-empty prefix "
             "is never re-pointed and a clash mints an unbound prefix (c03b_prefix_stable, c03b_clash_fresh; termination/freshness of "
             "_get_unused_prefix by pigeonhole), (c) print-and-resolve returns the same name for every owned well-formed name after any "
             "later history keeping the default (c03c_single_scope) and for delegated names under NoShadow (c03c_two_level_partial); "
             "the unrestricted two-level statement is refuted by a kernel-evaluated witness (c03c_two_level_refuted) = known finding. "
             "Model tied to the code by op-sequence correspondence after every operation.",
        note=A_COMMON + " Partial: bundle-scope names captured by the bundle's own bindings and default-namespace locals containing ':' "
             "are genuine defects of the pinned code, listed in known_findings.json. add_namespace with an empty prefix is outside the proved domain.",
        technique="Lean 4 invariant proofs by induction over operation histories + op-sequence correspondence with the real NamespaceManager",
        design="§4.C03"),
    "C05": dict(
        text="Lean theorems about the record model (add_attributes transcribed branch for branch): Normal r -> Normal after "
             "add_attributes with any list of (name, value) pairs in any representation, whether or not the call fails part-way "
             "(c05_addAttributes_preserves_normal, induction over the pair list); a different second value for a filled PROV formal "
             "slot is refused with ProvException leaving the record unchanged, the same value is a no-op (c05_second_value_refused, "
             "c05_same_value_noop); typed literals of native datatypes are stored as the direct value (c05_entry_path_*); set_time "
             "and add_asserted_type (after their fix: commits) keep normal form. Tied to /repo by op-sequence correspondence over all 18 "
             "kinds x entry paths (new_record, 22 factories, 13 convenience methods) plus a direct normal-form oracle on the real records.",
        note=A_COMMON + " float() and dateutil lexical mappings are assumptions (A-LEX), sampled. The membership multi-entity compatibility "
             "path is not claimed (property text). set_time is a setter: it replaces the slot, it does not refuse.",
        technique="Lean 4 invariant preservation proof over attribute-pair lists + op-sequence correspondence + normal-form oracle",
        design="§4.C05"),
}

NOT_APPLICABLE = []


def main():
    checks = []
    for pid in sorted(CHECKS):
        c = CHECKS[pid]
        checks.append({
            "property_id": pid,
            "quick_cmd": "./check %s --tier quick" % pid,
            "thorough_cmd": "./check %s --tier thorough" % pid,
            "evidence_file": "evidence/%s.json" % pid,
            "replay_cmd_template": "./check %s --replay {path}" % pid,
            "engine": "lean-model+correspondence",
            "level_claimed": {"category": c.get("category", "proof"), "text": c["text"], "design_ref": c["design"]},
            "level_note": c["note"],
            "technique": c["technique"],
        })
    m = {
        "version": 1,
        "setup_cmd": "/venv/bin/python tools/gen_tables.py && cd lean && lake build",
        "hooks": {
            "guard": "PROV_VERIF",
            "enable": "no hooks are compiled into /repo: checks drive and observe the library through its public API (PROV_VERIF is unused)",
            "baseline_off_cmd": "tools/baseline.sh",
            "source_commits": [],
            "add_only": True,
        },
        "engines": [{"name": "lean-model+correspondence", "path": "lean/ harness/ check",
                     "serves_properties": sorted(CHECKS),
                     "kind_free_text": "Lean 4 model + theorems (lake build, #print axioms audit); compiled JSON-lines driver; "
                                       "Python harness running the real prov library in-process and diffing canonical observations"}],
        "checks": checks,
        "not_applicable": NOT_APPLICABLE,
        "notes": "fix: commits in /repo (unguarded genuine-defect repairs) are recorded in known_findings.json as status=fixed.",
    }
    with open(os.path.join(VERIF, "MANIFEST.json"), "w") as f:
        json.dump(m, f, indent=1)
    print("MANIFEST.json written with %d checks" % len(checks))


if __name__ == "__main__":
    main()

#!/usr/bin/env python3
"""Writes MANIFEST.json from the table below (kept in one place so it stays valid)."""
import json
import os

VERIF = os.path.dirname(os.path.dirname(os.path.abspath(__file__)))

A_COMMON = ("Trusted: Lean 4.33 kernel (axioms propext, Classical.choice, Quot.sound only; no sorry/native_decide/own axioms, "
            "audited each run), tools/gen_tables.py, the harness and compiled driver. The theorems are about the hand-written "
            "Lean model; the model is tied to /repo by differential correspondence on generated inputs (sampling, not proof).")

CHECKS = {
    "C03": dict(
        text="Lean theorems over all histories of the two-level namespace-manager model: (a) URI preserved by the QualifiedName path "
             "in every reachable state (c03a_uri_preserved, by invariant Inv1 + induction over histories), (b) a bound non-empty prefix "
             "is never re-pointed and a clash mints an unbound prefix (c03b_prefix_stable, c03b_clash_fresh; termination/freshness of "
             "_get_unused_prefix by pigeonhole), (c) print-and-resolve returns the same name for every owned well-formed name after any "
             "later history keeping the default (c03c_single_scope) and for delegated names under NoShadow (c03c_two_level_partial); "
             "the unrestricted two-level statement is refuted by a kernel-evaluated witness (c03c_two_level_refuted) = known finding. Props/C03B: a name a document's manager resolved from a string is owned by it (resolveOwn_owned) and an owned name is a fixed point of the QualifiedName path (validQ_owned_fixpoint), so it re-enters the manager - as identifier, attribute name, value or datatype of a record being read - without registering a namespace, generating a prefix or adopting a default (c03_resolved_name_reenters_unchanged, in every state of every namespace history). Props/C03C: a document built with constructor namespaces is in the state of an empty document after the same add_namespace calls (c03_constructor_is_history / _then_history / _inv), the heap's newDoc holds exactly that manager (c03_newDoc_mgr), a built-in prefix offered for another URI does not displace the built-in (c03_constructor_builtin_clash). "
             "Model tied to the code by op-sequence correspondence after every operation.",
        note=A_COMMON + " Partial: bundle-scope names captured by the bundle's own bindings and default-namespace locals containing ':' "
             "are genuine defects of the pinned code, listed in known_findings.json. add_namespace with an empty prefix is outside the proved domain.",
        technique="Lean 4 invariant proofs by induction over operation histories + op-sequence correspondence with the real NamespaceManager",
        design="§4.C03"),
    "C05": dict(
        text="Lean theorems about the record model (add_attributes transcribed branch for branch): Normal r -> Normal after "
             "add_attributes with any list of (name, value) pairs in any representation, whether or not the call fails part-way "
             "(c05_addAttributes_preserves_normal, induction over the pair list); a different second value for a filled PROV formal "
             "slot is refused with ProvException leaving the record unchanged, the same value is a no-op (c05_second_value_refused, "
             "c05_same_value_noop); typed literals of native datatypes are stored as the direct value (c05_entry_path_*); set_time "
             "and add_asserted_type (after their fix: commits) keep normal form. For ALL HISTORIES: c05_reachable_normal - after any sequence of the "
             "public mutators on the heap model (document / bundle creation, add_namespace, set_default_namespace, valid_qualified_name, new_record "
             "and everything built on it: factories, convenience methods, add_record / update / flattened, add_attributes, set_time, "
             "add_asserted_type), starting from nothing, every record of every container is in normal form and every namespace manager "
             "satisfies the C03 invariant (induction over the sequence; hstep_normal per operation). Tied to /repo by op-sequence correspondence over all 18 "
             "kinds x entry paths (new_record, 22 factories, 13 convenience methods) plus a direct normal-form oracle on the real records. Props/C05R: c05_reach_normal - the normal form also holds of every record of every state reachable through add_record, update, add_bundle, flattened() and unified() (Reach), not only through construction and attribute additions. Props/C05X (refused calls): c05_refused_keeps_prefix - when add_attributes(pairs) raises, the record is exactly what the pairs before the refused one produced, the refused pair contributes nothing and nothing after it is looked at; c05_refused_single / c05_refused_on_heap - a refused call with one pair leaves the record, every other record and every container as they were (only the namespace manager may have met a name). Props/C05Y: c05_stated_twice_refused - the pair list of one add_attributes call (positional formal arguments followed by the other attributes of a constructor, factory or convenience method) that contains two pairs for one PROV formal attribute with values that are != ends in an error, wherever the two pairs stand, whatever the record held before (loop_keeps_head: a filled PROV slot is not changed by any accepted pair).",
        note=A_COMMON + " float() and dateutil lexical mappings are assumptions (A-LEX), sampled. The membership multi-entity compatibility "
             "path is not claimed (property text). set_time is a setter: it replaces the slot, it does not refuse.",
        technique="Lean 4 invariant preservation proof over attribute-pair lists + op-sequence correspondence + normal-form oracle",
        design="§4.C05"),
    "C14": dict(
        text="Lean: prov_to_graph / graph_to_prov transcribed on node and edge lists (node map keyed by identifier URI with overwrite, "
             "inference table, the KeyError skip with its side effect, adjacency-order iteration). Theorems about the relation loop: at "
             "most one edge per relation and it carries that relation (c14_step_edges), the edges' relations form a sublist of the "
             "relations (nothing duplicated or invented, c14_edges_sublist, c14_edge_count), a relation lacking one of its first two "
             "arguments changes nothing (c14_no_endpoint_no_change), one node per identifier (c14_endpoint_reuses); and exactly: c14_one_edge "
             "(a relation with both endpoints present and inferable positions gets ONE edge, from a node carrying its first argument to a node "
             "carrying its second, carrying the relation; the node map stays sound, graphStep_mapOk) and c14_edges_exact (in a document "
             "without influence relations the edges are exactly the relations with both endpoints, once each, in order); table obligations c14_inferable, "
             "t_inferred_class, t_only_influence_uninferable. Node list, edge list and the converted-back document of the real "
             "MultiDiGraph are compared with the model and with an independent specification computed from the unified document. There and back (Props/C14C): GInv is established by the element phase and kept by the relation loop; c14_edgeRecs_perm and c14_there_and_back - graph_to_prov hands to the new document the declared nodes and a permutation of exactly the relations with both endpoints. On the heap (Props/C14D): c14_roundtrip_heap - graph_to_prov builds a new document holding == copies of the declared elements followed by == copies of a permutation of exactly the relations with both endpoints; nothing that existed is written. Props/C14E: c14_roundtrip_reach - the heap round trip for every reachable state, derived documents included.",
        note=A_COMMON + " networkx is assumed to be a node set + edge multiset with adjacency-order iteration (A-EXT). Influence relations "
             "with an undeclared endpoint may or may not be drawn (documented exception; order dependent).",
        technique="Lean 4 induction over the relation fold + node/edge list correspondence with networkx + independent graph spec",
        design="§4.C14"),
    "C15": dict(
        text="Lean: (1) syntax safety for arbitrary strings of the two escaping functions the fixed prov_to_dot uses: htmlEscape "
             "output contains no '<', '>', quote characters and every '&' starts an entity (htmlEscape_no_markup, htmlEscape_amp_ok); "
             "the body of a quoted DOT string has no unescaped quote and no dangling backslash (dotQuoteBody_ok) — by induction on the "
             "string; (2) prov_to_dot transcribed as a structure of nodes/edges/clusters with the strings Graphviz's parser obtains; "
             "c15_one_node_per_element, c15_known_uri_reuses_node, attachAnnotation_spec. The real DOT text is given to Graphviz "
             "(dot -Tdot_json): acceptance is required for every option combination and direction, and the parsed graph is compared "
             "with the model and with an independent structural specification. Props/C15B: the node map of the drawing state sends a URI to an existing node carrying that URI (MapOkD, kept by _get_node and every drawing step); c15_binary_relation_one_edge - a relation whose first two reference arguments are names, drawn plainly, adds exactly one edge, labelled with the relation, from a node carrying the first URI to a node carrying the second; c15_relation_through_blank_node - drawn as n-ary or annotated it adds a new point node b, the edges first-argument -> b (labelled, arrowhead none) and b -> second-argument, and everything else (further arguments, the annotation) only appends after them.",
        note=A_COMMON + " Graphviz's parser (not a Lean recogniser) is the judge of DOT validity (A-EXT); which of several prov:label "
             "values is displayed follows Python's set order and is not compared. The escaping itself needed a fix: commit.",
        technique="Lean 4 induction proofs on escaping functions + structure correspondence through Graphviz's own parser",
        design="§4.C15"),
    "C16": dict(
        text="Lean: the dispatch between the caller and the dump/parse functions of json, lxml and rdflib (which are parameters): "
             "destination kinds {returned string, text stream, binary stream, path}, the text-vs-bytes branch of each serializer class, "
             "source kinds {content str, content bytes, text stream, binary stream, path} with stream position, and the format loop of "
             "prov.read in Registry order (regenerated: t_registry_order). Proved for ALL texts and documents: utf8_roundtrip (decode . encode = id); "
             "c16_dest_agree (all four destinations carry the same text / its UTF-8 bytes); c16_source_agree (all five source kinds yield one "
             "document); c16_write_read and c16_write_read_xml (4 x 5 grid); c16_read_sniffs (prov.read without a format is one function of the "
             "text for every source kind); c16_read_detects (it equals deserialize(format=f) when no other reader accepts the text); "
             "c16_read_stream_consumed; c16_old_loop_refuted (the loop that handed one stream to every format returns an empty document). "
             "On the real code: every cell of documents x formats x 4 destinations x 5 sources x {deserialize, read(format), read()} is run, "
             "compared by strict content with the document read from the returned string and with the model's prediction; every text is "
             "offered to every other format's reader; path round trips are repeated in a subprocess under an ASCII locale.",
        note=A_COMMON + " The two library facts the theorems assume (rdflib treats a text stream and its UTF-8 bytes alike; lxml's text and "
             "binary writers give documents with one canonical form) are validated on every generated document, not proved. "
             "Known finding C16-1 (TriG graph block order varies between calls) is tolerated only as a pure permutation of identical blocks.",
        technique="Lean 4 proof over all texts and source/destination kinds + exhaustive cell grid on the real calls",
        design="§4.C16", category="proof"),
    "C17": dict(
        text="Lean: destination analysis transcribed from urlparse as used after the fix (scheme detection, netloc, file: URLs): "
             "c17_exact / c17_exact_plain: every name without a network part that is not a file: URL is written to exactly that name, "
             "whatever '#', '?', ';', ':' it contains; the write-to-temporary-then-move machine with one fault point per step: "
             "c17_all_or_nothing: for EVERY fault point (or none) the named file holds its previous content (or stays absent) or the "
             "complete serialisation, every other file is unchanged and the temporary file is gone. On the real code: a failure is "
             "injected at each successive write call of the temporary stream, at close and at the final move, for 4 formats x 13 names x "
             "{absent, present}; directory listings and bytes are compared with the expectation and with the step machine.",
        note=A_COMMON + " Atomicity of os.rename on one filesystem, freshness of mkstemp names, durability and file modes are OS behaviour "
             "outside the model (A-EXT); the cross-device copy fallback of shutil.move is not atomic and not claimed.",
        technique="Lean 4 proof over all fault points of a step machine + exhaustive fault injection on the real call",
        design="§4.C17", category="proof"),
    "C18": dict(
        text="Lean: _id_map is modelled as a separate component and proved to be the URI-indexed view of _records: c18_idmap_append, "
             "c18_coherent_add (one _add_record), and WF (all containers coherent, all references allocated) is preserved by new_record "
             "whether it succeeds or raises, by add_record sequences (update, constructors, unified, flattened, add_bundle of a document) and "
             "by allocation (c18_newRecord_wf, c18_addRecords_wf, c18_allocCont_wf); on a coherent container get_record(x) = filter of the "
             "record list by the URI x resolves to, for every spelling (c18_get_record, c18_spelling_independent); get_records(cls) = class "
             "filter. Correspondence after every record-adding operation, in all 4 spellings, plus an independent scan oracle. All histories (Props/C18R): c18_reachable_wf - coherence of _records and _id_map after any sequence of the public mutators with any arguments; c18_get_record_reachable - get_record on any reachable container is the filter by the denoted URI, in insertion order. Every history (Props/C18S): the coherence invariant WF is also kept by add_record, update, add_bundle, flattened() and unified() of bundles and documents, with any arguments, whether they succeed or raise (dstep_wf18), so in every state the public interface can produce (ReachAny: mutators and deriving operations in any order) every container is coherent (c18_reachAny_wf) and get_record in every spelling finds exactly the records with that identifier, in insertion order - also in unified / flattened / updated documents and in their sources afterwards (c18_get_record_reachAny; instance: the merged record of a unified bundle). Props/C18T: in every reachable state each record reference is listed once and the index has one entry per identifier URI (reachAny_wf2), so an index entry IS the sub-list of records carrying that identifier (entry_is_byId, Props/C08J). Props/C18X (no ghost record): c18_refused_newRecord / c18_refused_newRecord_lookups / c18_refused_addRecord - a new_record, factory or add_record call that raises leaves the record array, every record list, every identifier index and every bundle table exactly as they were, so get_record and get_records answer as before.",
        note=A_COMMON + " 'prefix:local'/bare spellings denote what valid_qualified_name resolves them to (C03). The full-URI spelling "
             "needed a fix: commit (adopted default namespace).",
        technique="Lean 4 refinement proof (index = filter of list) by induction over heap operations + op-sequence correspondence",
        design="§4.C18"),
    "C04": dict(
        text="Lean: ProvRecord.__eq__ after the symmetry fix is an equivalence: recEq_refl, c04_recEq_symm, c04_recEq_trans (value equality incl. "
             "the cross-kind numeric case 1 == True == 1.0 as exact fractions, keyEq_trans), c04_anon_vs_identified. ProvBundle.__eq__ exactly as "
             "coded (set(records) keeping the first representative, the length test, the greedy removal loop): c04_recordsEq_iff - for ALL record "
             "lists it answers True iff every record of each list has an equal record in the other (content equivalence up to order and "
             "repetition); hence c04_recordsEq_refl / _symm / _trans and c04_recordsEq_of_same_members. ProvDocument.__eq__ (own records, bundle "
             "count, bundle-wise equality by identifier): c04_docEq_symm and c04_docEq_trans, given that a document's bundle identifiers are "
             "pairwise distinct by URI (pigeonhole over the two bundle tables). Every comparison is also run on the implementation for every "
             "generated pair in both argument orders (after read-only accessors have been exercised on one side); an independent content oracle decides the expected answer for 15 edit kinds, including in-place edits after a record has been hashed. Document level (Props/C04D): c04_docEq_iff - d1 == d2 holds exactly when the top-level record sets agree, the bundle identifiers agree and each pair of same-named bundles has the same record set. Hash (Props/C04H): c04_eq_hash - equal records present the same arguments to hash (type, identifier URI, attribute set with numbers by rational value, datetimes by time-line position, names by URI); the model's verdict is compared one way with the real hashes on every compared record pair.",
        note=A_COMMON + " Floats are assumed to carry the non-zero denominator float.as_integer_ratio() always gives (hypothesis RecOk). "
             "Distinctness of bundle identifiers inside one document is a hypothesis of the document-level theorems (it is the key set of "
             "a dict; C18 proves the corresponding coherence for records); __hash__ consistency is checked by the oracle only.",
        technique="Lean 4 proofs about the transcribed __eq__ (equivalence; greedy loop = content equality) + differential correspondence + content oracle",
        design="§4.C04"),
    "C07": dict(
        text="Lean: the PROV-O writer (encode_container: plain triple vs qualified node, blank nodes, the string-matched predicate "
             "rewrites, Revision/Quotation/PrimarySource retyping, alternate swap, mention) and the reader (decode_container: type pass, triple "
             "pass with relation_mapper / predicate_mapper and per-kind renamings, creation pass with cartesian expansion, leftover check) "
             "as executable functions over quads in rdflib's iteration order. Proved, writer side, for every record, identifier, attribute list "
             "and value the model can write: c07_writer_plain (an anonymous relation with only its two endpoints yields exactly the one triple "
             "subject-wasK-object, no node), c07_writer_identified (an identified relation yields the qualified link to its identifier and one "
             "triple per attribute under the rewritten predicate, and no plain triple), c07_writer_anonymous_qualified (one fresh blank node, linked "
             "and typed, one triple per attribute, no plain triple) - i.e. never zero and never two representations. Reader side, unqualified case: "
             "c07_reader_plain (for every relation kind and all endpoint URIs the writer's triple is read as exactly one creation request of that "
             "kind with those two endpoints, alternateOf's swap included; t_relation_predicates). Proved about the rewrites: c07_formal_predicates_inverse / _kept (for every kind "
             "and every formal argument but the first, the reader files the writer's predicate under that argument; whole table, kernel-evaluated); "
             "c07_user_attr_writer / _reader / _element (for EVERY URI outside the PROV namespace both rewrites are the identity and nothing is "
             "dropped - false for the substring reader that the fix: commit replaced); c07_int/str/bool/uri/datetime(_valid)/qname/lang (each value kind "
             "is written and read back as the same value, the empty language-tagged string included); t_base_classes (the reader's class table is "
             "PROV_BASE_CLS as regenerated); walk_length (cartesian expansion). Checked against the code in three channels on every run: the quads of "
             "the real encode_document vs the model's (blank nodes named by content); the real decode_document vs the model's on the same rdflib "
             "graph in the iteration order observed; TriG text written, parsed and decoded vs unified() by strict URI-level content.",
        note=A_COMMON + " Partial: the READER side for qualified nodes and the document-level round trip (decode . encode = unified, for all expressible "
             "documents and all iteration orders) are NOT Lean theorems; it is validated by the three channels on generated documents (a quarter of them outside "
             "the property's space to exercise the error and retyping branches). rdflib (TriG text, literal value conversion, iteration order) "
             "and dateutil are outside the model: their behaviour is observed per literal and passed in as hints; the function the value theorems "
             "assume for it (rdflibHint) is compared with the observed hints. Known findings C07-1..3 are inputs inside the stated space on which "
             "the property fails today.",
        technique="Lean 4 model + table/for-all-URI theorems; three-channel correspondence (writer quads, reader on rdflib order, end-to-end)",
        design="§4.C07", category="proof"),
    "C08": dict(
        text="Lean: second pass of _unified_records as placeMerged: nothing lost (every source record is represented by itself or by its "
             "merged record), nothing invented, no duplicates, identity when nothing is merged (c08_nothing_lost, c08_nothing_invented, "
             "c08_no_duplicates, c08_no_merge_identity). First pass, grouping by kind under one identifier (after the fix): c08_groupByKind_spec - "
             "for every list of records each record lands in exactly one group, each group holds one kind, different groups have different "
             "kinds and the group sizes add up to the list length; c08_same_group_iff_same_kind (two records are merged candidates iff they "
             "have the same kind). Content of a merge: loop_merge - whenever `merged.add_attributes(other.attributes)` succeeds, for ANY accumulator "
             "record and ANY attribute list of a stored record, every offered (attribute, value) is represented in the result (inserted, or "
             "already present as an equal value under the single-value guard), everything the accumulator held is kept, and nothing else appears "
             "(addOne_general; built on C09's re-creation lemmas); unified() of documents and bundles compared with an independent specification "
             "(union of attributes, first-occurrence order, ProvException iff formal conflict), idempotence, source unchanged. On the heap (Props/C08D): c08_mergeGroup_content (one fresh cell holding exactly the union of the group under the first member's kind and identifier; no existing cell written), c08_mergeAll_content and c08_unifiedRecords_content (the merge table maps every member of every group to such a record; the result is placeMerged of that table). End to end (Props/C08E): the reachable invariants are kept by the merge pass, so ProvBundle.unified() fills one new container with == copies, in order, of the placed list (c08_unifiedBundle_content; c08_unifiedBundle_reachable for every history of the public mutators without a prov:collection attribute object). ProvDocument.unified() (Props/C08F): c08_unifiedDoc_top - the new document's own records are == copies of the placed list and the loop over the bundles leaves them and every record cell alone (unifiedGo_keeps). Props/C08G: the deriving operations keep the reachable invariants together with 'no membership record' (Good2): add_record (good2_addRecord), ProvBundle.unified (good2_unifiedBundle), add_bundle (good2_addBundle), ProvDocument.unified (good2_unifiedDoc, success or error), flattened (good2_flattened) - so heaps produced by derived documents are again heaps to which the heap theorems apply. Props/C08H: the bundles of ProvDocument.unified() - unifiedGo_chain / c08_unifiedDoc_bundles: on success the new document lists exactly one bundle per source bundle, in order, each under an identifier with the URI of the source bundle's identifier (unifiedBundle_id, attachBundle_ok_id, validName_qn_uri) and each holding what ProvBundle.unified() makes of that source bundle (UnifiedOf: records in order, each same-identifier same-kind group replaced at the place of its first member by one record holding exactly the union), no later round of the loop changing an earlier result (unifiedGo_others, unifiedGo_keeps); concrete instance with a merging bundle. Props/C08I: Reach - the states reachable from nothing by the mutators AND the deriving operations (add_record, update, add_bundle, flattened, unified of bundles and documents, successful or not) in any order - all satisfy the invariants (reach_good2; update: good2_update), so every record of every such state is a stored record (c09_reach_stored) and the unified() theorems hold there without hypotheses on records, managers or indices (c08_unifiedBundle_reach); side condition only on mutator steps (no prov:collection attribute / membership record stored); instance: build, unify, add to the result, flatten it. Idempotence (Props/C18T, C08J, C08K): with two more invariants of every history (each record listed once, one index entry per identifier URI: reachAny_wf2) every group _unified_records() forms is exactly a key class (identifier URI, kind) of the record list (group_is_class, groupsOf_char, groupsOf_of_big); the merge table sends records with one key to one merged record (mergeAll_keyfun); hence the bundle unified() returns holds no two records with one identifier URI and kind (c08_unified_nodupkey), and unifying it again merges nothing: its _unified_records() is the record list of the first result itself, nothing written (c08_unifiedRecords_noop, c08_unified_twice_noop, c08_unified_idempotent_reach for every reachable state; concrete instance). The other branch (Props/C08L): when two records of one group carry, under one PROV attribute, values that no single value stands for - two qualified names with different URIs (conflict_qn) - mergeGroup does not return a record (c08_conflict_no_merge, c08_conflict_refs): the merged record would be in normal form and hold a value for each; instance: two generations under one identifier naming different activities make unified() end in the ProvException branch. And only then (Props/C08O): c08_unified_raises_only_on_conflict - in every reachable state, if unified() of a container ends in an error, the error is the ProvException of the single-value guard and one of the container's groups (same identifier, same kind) holds an earlier and a later statement whose values for one PROV formal attribute are != in Python's sense (two names with different URIs, two date-times at different instants); nothing else can make it fail: re-creating a stored record in the scratch bundle never fails (scratchCopy_ok), stored names and values always convert (addOne_general), and the copy into the new bundle never fails (c09_addRecords_heap). c08_mergeGroup_error_iff: for a group of stored records the merge raises if and only if an earlier and a later statement give values that are != for one PROV formal attribute. Document level (Props/C08M): the document ProvDocument.unified() returns holds, at top level and in each of its bundles, no two records with one identifier URI and kind (unifiedGo_nodup, c08_unifiedDoc_nodupkey), so unifying it again merges nothing anywhere (c08_unifiedDoc_twice_noop, for every reachable state). Props/C08N: the side condition of the document-level theorems (bundle-table entries refer to existing containers) is an invariant (WB) of every history in which add_bundle is given a container that exists (ReachB, reachB_wb); c08_unifiedDoc_bundles_reach and c08_unifiedDoc_idempotent_reach hold of every document of every such state with no hypothesis left.",
        note=A_COMMON + " Identified membership records are not claimed.",
        technique="Lean 4 list lemmas on the placement pass + op-sequence correspondence + independent unification spec",
        design="§4.C08"),
    "C09": dict(
        text="Lean: add_record, the operation underneath update / flattened / unified / the records= constructors / add_bundle of a document, "
             "re-creates a record that is == to its source: c09_recreate_content and c09_recreate_eq - for EVERY record that construction can "
             "have stored (pairs of the right class, single-valued PROV attributes, one entry per attribute URI), in EVERY target manager "
             "satisfying the C03 invariant, whatever prefixes it has bound, add_attributes over the re-creation arguments never fails and the "
             "result has the same kind and, attribute by attribute, the same values up to prefix (flatSetEq; kind-aware value equality). "
             "Supporting: autoLiteral_fix (converting a stored value again is the identity up to prefixes), autoLiteral_stored, addOne_recreate, "
             "loop_recreate, flat_insert. A successful new_record appends exactly one record of the requested kind to its container "
             "(c09_newRecord_appends); an add_record sequence leaves the target with its former records followed by one new record per source "
             "record, same kinds, same order, other cells untouched (c09_addRecords_conserves). Strict URI-level multiset conservation, refusals "
             "(duplicate / missing identifier / nested bundles) and immutability of `other` are checked on the real code by a conservation "
             "oracle and by correspondence. On the heap (Props/C09D): c09_addRecord_heap (add_record of a stored record never fails, appends exactly one fresh record == to its source to that container only, writes no existing cell), c09_addRecords_heap (whole sequences, copies paired with sources in order), c09_flattened_heap. Props/C09E: the premise 'stored record' is an invariant of every history of the public mutators (c09_reachable_stored, c09_reachable_wf: managers, index ranges, required identifiers too), hence c09_flattened_reachable without hypotheses on the records. Props/C09F: add_bundle - every refusal leaves the receiving document's cell as it was (c09_addBundle_error_frame; the three refusals named by the property: c09_addBundle_refuses_nested/_missing_id/_duplicate); success adds exactly one bundle-table entry under the resolved, previously unused identifier, holding the stand-alone bundle itself or == copies of all records of the added document (c09_addBundle_attaches_bundle/_document). Props/C09G: update - c09_updateBundle_heap/_refuses; ProvDocument.update(other) succeeds and is a chain of steps (Chain/Step), one per bundle of other, each appending == copies of that bundle's records to the bundle of d with the same identifier URI or to a bundle created for it, writing nothing else (updateDoc_go_chain, c09_updateDoc_heap), with a reachable two-document instance. Props/C09H: c09_flattened_reach - flattened() of any document with bundles in ANY reachable state (Reach: mutators and deriving operations in any order) succeeds and conserves. Likewise c09_updateBundle_reach (ProvBundle.update appends == copies to exactly the target) and c09_addBundle_document_reach (add_bundle of a bundle-free document) with no hypothesis on records, managers or indices. Props/C09I: the structural hypotheses of the document-level update theorem are an invariant of histories (WT: every bundle-table entry refers to an existing non-document container with an identifier whose _document is the lister; kept by every mutator and deriving operation provided add_bundle is never given a bundle that is already attached - one bundle object in two documents is the aliasing the theorem excludes): c09_updateDoc_reach - for two different documents d, o of any such reachable state d.update(o) does not raise, appends == copies of o's top-level records to d and merges each bundle of o into the bundle of d with the same identifier URI or into a bundle created for it, writing nothing else. Props/C09X: c09_refused_updateBundle - bundle.update(document with bundles) is refused before anything is touched (the heap is the same).",
        note=A_COMMON + " The composition of the record-level theorem with the heap plumbing of new_record (identifier resolution, element "
             "identifier check, cell allocation) is by correspondence; c09_addRecords_conserves covers kinds, counts and frames.",
        technique="Lean 4: content theorem for re-created records (all managers, all stored records) + induction over add_record sequences + correspondence + oracle",
        design="§4.C09"),
    "C12": dict(
        text="Lean heap model: allocation is fresh (allocCont_fresh, c12_alloc_fresh); a mutator (add_namespace, set_default_namespace, "
             "new_record) on container c leaves the container cell, manager cell and record cells of any container with another manager "
             "cell unchanged (c12_mut_frame), hence for every follow-up mutation sequence of any length (c12_noninterference, induction). "
             "For the deriving operations themselves (Props/C12B): the document returned by flattened()/unified() in a well-formed heap "
             "holds the manager cell allocated by the call, which no earlier container references (StableMgr through every step), so any "
             "mutation sequence on the result leaves every earlier cell unchanged (c12_flattened_independent, c12_unified_independent). "
             "Derive->mutate->observe histories on the real objects for 11 deriving operations x 7 mutators, both directions. Props/C12C: the well-formedness premise is an invariant of every history - reachAny_wfMgr: in every state the public interface can produce (mutators and deriving operations in any order, any arguments) every container refers to an allocated manager cell - so the independence of the documents returned by unified() / flattened() holds of every reachable state with no hypothesis left (c12_unified_independent_reach, c12_flattened_independent_reach). Props/C12D, every deriving operation at once: a container created by any deriving step (the bundle add_bundle(document) builds, the bundles update creates, the document flattened()/unified() returns and its bundles) refers to a manager cell no earlier container refers to (invariant Sep through every step), so mutations on either side leave the other side's container cell, manager cell and record cells as they were (c12_derived_independent, c12_source_independent), in every reachable state.",
        note=A_COMMON + " Aliasing below record granularity (shared attribute sets) is not expressible in the heap model; it is exposed by the "
             "non-interference oracle and as a correspondence difference.",
        technique="Lean 4 frame/separation proofs over a heap model + non-interference oracle on real objects",
        design="§4.C12"),
    "C13": dict(
        text="Lean: text/graph exporters are pure functions of the heap (no way to write; repeatability is functional congruence), the "
             "allocating exporters flattened()/add_record sequences leave every pre-existing container, manager and record cell unchanged "
             "(c13_addRecords_frame, c13_flattened_frame). On the real code: full observation before/after every exporter and option "
             "combination in random orders, text exports twice and on a twin built by the same calls, RDF graph isomorphism. unified() (Props/C13B): c13_unified_frame / c13_unified_content - every container cell (records and order, identifier index, bundle table, identifier) and every record cell that existed is unchanged after ProvDocument.unified(), whether it succeeds or raises. Namespace managers (Props/C13M, after fix b85a831): c13_unified_mgrs / c13_unifiedBundle_mgrs - no manager cell that existed is written by ProvDocument.unified() / ProvBundle.unified() (scratch bundles, copies, merges, new containers and add_bundle only write managers allocated by the call: invariant High/Keeps through every step); c13_unified_untouched - container cell, resolving manager, parent manager and record cells of every earlier container are the same after as before. Props/C13N: the two side conditions of that theorem (allocated manager cell, allocated parent link) are invariants of every history (WfP, reachAny_wfP), so in every state the public interface can produce unified() leaves every existing container, its manager, its parent manager and every record cell untouched, success or error (c13_unified_untouched_reach). Props/C13R: c13_owned_args_register_nothing - add_attributes (every record constructor, new_record, every factory, every reader's record-building step) returns the namespace manager exactly as it was when all names among its arguments (attribute names, references, qualified-name values, datatypes of literals that stay literals) are owned by the container - bound under their own prefix or in its default namespace -, whether the call succeeds or is refused; names the container resolved from text are owned (Props/C03B), so loading PROV-JSON / PROV-XML registers nothing beyond the prefix block; c13_newRecord_owned_mgrs: on the heap new_record with an owned identifier and owned arguments leaves every namespace manager cell (the container's, its document's, everybody else's) as it was. Props/C13S: the record phase of the PROV-JSON reader registers nothing in a document - decodeElemAttrs_owned (all names the attribute loop accumulates are owned), c13_json_element_registers_nothing, c13_json_records_register_nothing (every manager cell and every string resolution is the same after the whole record walk, success or refusal).",
        note=A_COMMON + " Repeatability across processes is not claimed.",
        technique="Lean 4 frame proofs (exporters as pure/allocating heap functions) + before/after observation oracle",
        design="§4.C13"),
    "C01": dict(
        text="Lean: encodeJson/decodeJson transcribe provjson.py on JSON trees; per-value round-trip theorems for every value kind "
             "(c01_int, c01_float, c01_datetime / c01_datetime_valid, c01_uri, c01_str, c01_bool, c01_qname, c01_lang_literal, c01_typed_literal): decoding the "
             "encoded value and storing it again yields the same value at URI level with the same kind/datatype/language, under the "
             "explicit hypothesis that the names it mentions are readable in the reading scope (ReadsAs / StdNames, discharged for "
             "reachable managers by C03). Record level (Props/C01R.lean): c01_record -- for every stored record whose names are readable and whose "
             "attribute names print differently, the object written by the writer's loop (enc_fold: one member per attribute, in order) is "
             "accepted by the reader's loop (dec_fold: exact `formal` dictionary and `other_attributes` list), and the resulting add_attributes "
             "arguments rebuild, in any manager state, a record with exactly the stored (attribute URI, ==-value) pairs (via C09C loop_args); "
             "non-vacuity shown on a concrete heap and record. Tied to /repo by three channels on every generated document: writer tree, reader on the same "
             "text, strict end-to-end comparison for all json.dump option sets. Container level (Props/C01C): c01_container_elems - the dict encode_json_container builds, walked as the reader walks it, holds exactly one record object per record under its kind and identifier (arrays for repeated identifiers, _:idN for anonymous records): nothing lost, nothing repeated. Reader side of the container loop (Props/C01D): the record phase of decode_json_container is exactly the in-order walk over contElems - one decode_json_element per (kind label, identifier, record object), arrays element by element, stopping at the first error (recs_eq_elemFold, for every well-formed body); the dict the writer builds is such a body (WfCont is an invariant of encode_json_container: wfCont_fileAll), so for any record list the reader makes exactly one decode_json_element call per record object the writer filed, each once (c01_reader_meets_filed = recs_eq_elemFold + c01_container_elems).",
        note=A_COMMON + " Props/C01E composes the record theorem with the heap plumbing of new_record for documents: c01_element (one decode_json_element appends exactly one cell with the stored content, managers untouched) and c01_elements (the whole record walk, by induction); Props/C01F joins writer and reader: c01_document_records - for every record list encode_json_container accepts and every document that reads its names back, the reader's record phase on the writer's dict appends exactly one cell per record (a permutation of the records), each with the stored content, no earlier cell and no manager touched. Prefix blocks and bundles are mirrored in the model "
             "and compared, not yet part of the composed statement. Known finding C01-1: names not readable in their bundle's scope (C03-1) change URI. "
             "A-JSONTEXT assumed; of A-LEX only float(repr(x)) = x remains an assumption: int(str(n)) = n is core's toInt?_repr and "
             "parse(isoformat(t)) = t is proved for every valid date-time (Prov/Lemmas/Iso.lean: parseIso_iso), dateutil agreeing with the "
             "model's parser on isoformat strings being checked by the correspondence.",
        technique="Lean 4 per-value round-trip proofs + writer/reader/end-to-end differential correspondence",
        design="§4.C01"),
    "C02": dict(
        text="Lean: encodeXml/decodeXml transcribe provxml.py (after six fix: commits) on XML infoset trees, including the xsi:type "
             "decision web as one function encodeXmlAttr. Per-value theorems for both force_types values: the child element written for "
             "(attribute, value) is read back by _extract_attributes as a value that add_attributes stores as the original (c02_int, "
             "c02_bool, c02_uri, c02_float, c02_str incl. strings starting with 'prov:', c02_ref for prov:ref, c02_lang for xml:lang), "
             "under explicit readability hypotheses on the element's namespace map (StdMap). Tied to /repo by three channels per "
             "document and force_types value: writer infoset, reader on the same infoset, strict end-to-end comparison. Record level (Props/C02S): sorted_attributes is a permutation for every record kind (c02_sortedAttributes_perm), _derive_record_label consumes exactly one pair by position (c02_deriveLabel_exact), so the children of a record element are one per remaining pair (c02_children_perm). Record level (Props/C02R): c02_value_any / c02_child_argFor (every storable value of every attribute class, read from its child element, is an add_attributes argument standing for the pair) and c02_record (for a stored record the children, after _derive_record_label and sorting, are accepted by _extract_attributes and rebuild in any manager state exactly those pairs; both force_types), c02_label_restores (element name -> kind and the consumed prov:type).",
        note=A_COMMON + " A-XMLTEXT (lxml round-trips the infoset) and A-LEX assumed; lexical facts such as 'a decimal numeral does not "
             "start with prov:' are hypotheses of the theorems. Which of several PROV subtype values names the element follows Python's "
             "set order: compared modulo that choice. Known finding C02-1 = C03-1/C01-1 (bundle re-binds a prefix).",
        technique="Lean 4 case-analysis proofs on the xsi:type decision + writer/reader/end-to-end differential correspondence",
        design="§4.C02"),
    "C06": dict(
        text="Lean: the PROV-N printer is transcribed character for character (Prov/ProvN.lean) and an independent reader is written "
             "from the W3C grammar (Prov/ProvNSpec.lean: lexer with ECHAR, long/short string literals, %% typed literals, @lang, "
             "INT_LITERAL, 'qname' literals; the 18 productions with optional identifier, '-' markers, mandatory/optional positions). "
             "Theorems for arbitrary Unicode strings: the short literal printed for a string without LF/CR and the long literal printed "
             "for any string lex back to exactly the original string and end at the printer's closing quotes (c06_short_string_roundtrip, "
             "c06_long_string_roundtrip, escape_preserves_newlines); table obligations t6_provn_productions, t6_provn_first_mandatory. The "
             "reader is executed on the real get_provn() text of every generated document and must recover the source's strict content; "
             "the printer model is compared with the real text. Character level (Props/C06V, lexer as a step function lexBody + fuel): c06_value_lex / c06_value_parse (every attribute value's text is tokenised into its literal tokens and parsed into the value it denotes), c06_items_lex / c06_items_parse (attribute lists), c06_elem_lex / c06_elem_parse, c06_rel_lex / c06_rel_parse (relations: optional identifier, positional arguments with markers and times, attribute list) and the capstones c06_element / c06_relation: the text get_provn() prints for an entity, an agent or any relation lexes and parses, under the grammar, to that record with its identifier URI, its positional arguments and exactly its (attribute URI, value) pairs; hypotheses: names are words and resolve as meant, unescaped texts have nothing to escape, float texts are in the float table; concrete non-vacuity instance. Whole document (Props/C06W, C06L): c06_document / c06_provnDocument - the get_provn() text of a document (declarations, expressions, bundle blocks, line breaks and indentation) is tokenised (doc_lex) and parsed by parseDocument with the fuel the driver uses (lex_mono, lex_enough) into the records of the document and of each bundle under its identifier URI, in order, for every document whose records are readable in the scope its printed declarations make (RecReads, provided by C06V for all three expression kinds).",
        note=A_COMMON + " The document theorem takes as hypothesis that each record is readable in its scope (names resolve as meant: C03 (c), values printable); that this holds of a given document is checked by running the reader on the real output. Known "
             "findings C06-1 (= C03-1) and C06-2 (identified/attributed alternateOf, specializationOf, mentionOf, hadMember have no "
             "production). Relations lacking a mandatory first argument are outside the domain (not expressible in PROV-N).",
        technique="Lean 4 induction proofs on the string-literal lexical layer + Lean grammar reader run on real output",
        design="§4.C06"),
    "C10": dict(
        text="An independent PROV-JSON reader written in Lean from the specification (Prov/JsonSpec.lean; own tables, own name resolution) "
             "is executed on the text the library really emits (all json option sets) and must recover the source's strict content. "
             "Lean obligations T6: the transcribed spec tables equal the code's regenerated tables (t6_json_kind_keys, _ref_keys, "
             "_time_keys, _literal_types, _attribute_ids); the spec reader inverts the writer on name-free values (c10_json_value_*). Record level (Props/C10R): c10_value_any (every value, any scope with the stated resolutions) and c10_record (from the writer's object the specification reader recovers exactly the record's (attribute URI, value) pairs, in order), with a concrete non-vacuity instance. PROV-XML value level (Props/C10X): c10x_int, c10x_bool, c10x_uri, c10x_float, c10x_datetime, c10x_str, c10x_qname, c10x_lang, c10x_typed, c10x_ref, c10x_time - the specification reader recovers the value from the child element the writer emits, both force_types settings. Schema child order (Props/C10Y): c10x_schema_order - sorted_attributes emits children with non-decreasing schema ranks for every record kind. PROV-XML record level (Props/C10Z): c10x_record - the specification reader recovers type, identifier URI and exactly the pairs (consumed prov:type included) from the element the writer emits.",
        note=A_COMMON + " PROV-XML: Prov/XmlSpec.lean (element table, subtype elements, prov:id/prov:ref, xsi:type/xml:lang, schema child "
             "order check) run on the real XML for both force_types; obligations t6_xml_elements, _subtypes, _formal_order, _model_subtypes. "
             "The spec readers are hand transcriptions (trusted reading). Known finding C10-1 = C01-1.",
        technique="Lean 4 specification reader run on real output + table-equality obligations by kernel evaluation",
        design="§4.C10"),
    "C11": dict(
        text="Foreign PROV-JSON (specification-driven generator: every literal spelling, wrapped singletons, multi-entity memberships, "
             "record arrays, bundle prefix blocks; plus 7 single-point mutation kinds of the 398 corpus files) is loaded by the library, "
             "by the Lean model of its reader (correspondence) and by the Lean specification reader: the loaded document must equal what "
             "the text states (nothing dropped/invented) and be stable under write+load. Lean: scalar spellings agree between library "
             "reader and spec reader (c11_scalar_*), decoder failures are classified (c11_value_errors_classified); stability = C01 applied "
             "to the loaded document. Loaded documents (Props/C11C): c11_reachable_record_json / _xml - every record of a heap reachable by the public mutators (the readers build through new_record) round-trips at record level through PROV-JSON and PROV-XML with exactly its content, without any hypothesis on how it was built.",
        note=A_COMMON + " PROV-XML half: lxml-built foreign texts (typed values in every spelling, subtype elements, xsi:type on elements, "
             "bundle-level xmlns and default namespace) + mutations of the 45 corpus files, judged the same way; JSON->document->XML->document "
             "cross-format leg on XML-expressible documents. Attributes that the text "
             "gives several numeric values equal in value but different in kind (1/true/1.0) are compared by value (Python set semantics, "
             "excluded by the property).",
        technique="Lean 4 spec reader + model reader vs library on foreign texts; case-analysis proofs on the value decoder",
        design="§4.C11"),
}

NOT_APPLICABLE = []


def main():
    checks = []
    for pid in sorted(CHECKS):
        c = CHECKS[pid]
        checks.append({
            "property_id": pid,
            "quick_cmd": "./check %s --tier quick" % pid,
            "thorough_cmd": "./check %s --tier thorough" % pid,
            "evidence_file": "evidence/%s.json" % pid,
            "replay_cmd_template": "./check %s --replay {path}" % pid,
            "engine": "lean-model+correspondence",
            "level_claimed": {"category": c.get("category", "proof"), "text": c["text"], "design_ref": c["design"]},
            "level_note": c["note"],
            "technique": c["technique"],
        })
    m = {
        "version": 1,
        "setup_cmd": "/venv/bin/python tools/gen_tables.py && cd lean && lake build",
        "hooks": {
            "guard": "PROV_VERIF",
            "enable": "no hooks are compiled into /repo: checks drive and observe the library through its public API (PROV_VERIF is unused)",
            "baseline_off_cmd": "tools/baseline.sh",
            "source_commits": [],
            "add_only": True,
        },
        "engines": [{"name": "lean-model+correspondence", "path": "lean/ harness/ check",
                     "serves_properties": sorted(CHECKS),
                     "kind_free_text": "Lean 4 model + theorems (lake build, #print axioms audit); compiled JSON-lines driver; "
                                       "Python harness running the real prov library in-process and diffing canonical observations"}],
        "checks": checks,
        "not_applicable": NOT_APPLICABLE,
        "notes": "fix: commits in /repo (unguarded genuine-defect repairs) are recorded in known_findings.json as status=fixed.",
    }
    with open(os.path.join(VERIF, "MANIFEST.json"), "w") as f:
        json.dump(m, f, indent=1)
    print("MANIFEST.json written with %d checks" % len(checks))


if __name__ == "__main__":
    main()

#!/bin/bash
# runs every registered quick (or thorough) check once and validates the evidence files
cd "$(dirname "$0")/.."
TIER=${1:-quick}
CH=$(/venv/bin/python tools/fingerprint.py --changed); if [ -n "$CH" ]; then echo "NOTE: library source differs from fingerprints.json (run tools/fingerprint.py --write after a fix: commit): $CH" | cut -c1-300; fi
rc=0
for p in $(python3 -c "import json;print(' '.join(c['property_id'] for c in json.load(open('MANIFEST.json'))['checks']))"); do
  out=$(./check $p --tier $TIER 2>/dev/null | grep -v "^KNOWN-FINDING" | tail -1)
  echo "$out" | cut -c1-220
  case "$out" in *"exit 0") ;; *) rc=1;; esac
done
python3-vt - <<'PY'
import json, jsonschema, glob
sch = json.load(open('/root/.vp/EVIDENCE.schema.json'))
m = json.load(open('/verif/MANIFEST.json'))
jsonschema.validate(m, json.load(open('/root/.vp/MANIFEST.schema.json')))
bad = 0
for c in m['checks']:
    ev = json.load(open('/verif/' + c['evidence_file']))
    jsonschema.validate(ev, sch)
    cov = ev['coverage']
    if ev['level'] == 'proof' and not (cov['obligations'] >= 1 and cov['discharged'] == cov['obligations']):
        print('EVIDENCE PROBLEM', c['property_id'], cov['obligations'], cov['discharged']); bad += 1
print('manifest + %d evidence files valid, %d problems' % (len(m['checks']), bad))
PY
exit $rc

#!/bin/bash
# like eval_all_mutants.sh, but against a private copy of the library source (so that it can run beside other work, e.g. in a
# `vp run` snapshot): every seeded change is applied to a scratch copy of /repo/src and the checks run with VERIF_PROV_SRC.
# usage: [ONLY="id id"] [EVAL_SEED=n] tools/eval_all_private.sh [scratch-dir]        one line per change; the scratch copy is removed at the end
cd "$(dirname "$0")/.."
S=${1:-/tmp/evalrepo.$$}
rm -rf "$S"; mkdir -p "$S"
for d in seeded/*/; do
  id=$(basename $d)
  case "$id" in *r) continue;; esac
  if [ -n "$ONLY" ]; then case " $ONLY " in *" $id "*) ;; *) continue;; esac; fi
  props=$(python3 -c "
import json
m=json.load(open('$d/meta.json')); d=m.get('detected_by',[])
if isinstance(d,dict): d=[d.get('check')]
d=[x for x in d if x and x[0]=='C' and x[1:3].isdigit()]
print(' '.join(d) if d else ('OUTSIDE' if m.get('detected_by') else m.get('property','${id:0:3}')))")
  if [ "$props" = "OUTSIDE" ]; then echo "$id: outside the generated space (see meta.json)"; continue; fi
  rm -rf "$S/src"; cp -r /repo/src "$S/src"
  if ! patch -s -p1 -d "$S" < $d/patch.diff >/dev/null 2>&1; then echo "$id: patch no longer applies"; continue; fi
  res=""
  for p in $props; do
    out=$(VERIF_SEED=${EVAL_SEED:-0} VERIF_PROV_SRC="$S/src" ./check $p --tier quick --no-lean 2>/dev/null | grep -v "^KNOWN")
    last=$(echo "$out" | tail -1)
    case "$last" in
      *"exit 1") if echo "$out" | grep "^VIOLATION" | grep -qv "no-failing-input-found"; then res="$res $p:DETECTED"; else res="$res $p:DETECTED(no-input)"; fi;;
      *"exit 0") res="$res $p:MISSED";;
      *) res="$res $p:??";;
    esac
  done
  echo "$id:$res"
done
rm -rf "$S"

#!/venv/bin/python
"""debug helper: replay the ops of a replay file on implementation and model, print the structural diff"""
import sys, json
sys.path.insert(0, '/verif')
from harness.props.replay_ops import replay_ops
from harness.world import run_model
from harness import proto
d = json.load(open(sys.argv[1]))
ops = d['case']['ops']
w = replay_ops(ops)
mo = run_model(w.ops)
def diff(a, b, path=''):
    if type(a) != type(b): print(path, 'IMPL', a, 'MODEL', b); return
    if isinstance(a, dict):
        for k in set(a) | set(b): diff(a.get(k), b.get(k), path + '/' + k)
    elif isinstance(a, list):
        if len(a) != len(b): print(path, 'len IMPL', json.dumps(a)[:800], 'MODEL', json.dumps(b)[:800]); return
        for i, (x, y) in enumerate(zip(a, b)): diff(x, y, path + '/%d' % i)
    elif a != b: print(path, 'IMPL', a, 'MODEL', b)
for i, (a, b) in enumerate(zip(w.outs, mo)):
    proto.normalize_model_obs(b)
    if a != b:
        print('first mismatch at op', i, json.dumps(w.ops[i])[:300])
        diff(a, b)
        for j in range(max(0, i - 6), i): print('   prev', j, json.dumps(w.ops[j])[:260], '->', json.dumps(w.outs[j])[:120])
        break
else:
    print('no mismatch')

#!/bin/bash
# usage: tools/eval_refactor.sh <dir with patch.diff demo.py> <prop>...   (behaviour-preserving change: every check must stay quiet)
D=$1; shift
cd /repo || exit 2
if [ -n "$(git status --porcelain)" ]; then echo "repo dirty"; exit 2; fi
/venv/bin/python $D/demo.py > /tmp/demo_clean.log 2>&1; echo "demo clean exit $?"
git apply $D/patch.diff || { echo "patch does not apply"; exit 2; }
/venv/bin/python $D/demo.py > /tmp/demo_ref.log 2>&1; echo "demo refactored exit $?"
cmp -s /tmp/demo_clean.log /tmp/demo_ref.log && echo "demo output identical" || echo "DEMO OUTPUT DIFFERS"
if [ -z "$SKIP_TESTS" ]; then /verif/tools/baseline.sh 2>&1 | tail -1; fi
cd /verif
for P in "$@"; do
  ./check $P --tier quick 2>&1 | grep -v "^KNOWN" | tail -3 | cut -c1-250
done
git -C /repo checkout -- . ; git -C /repo status --short

#!/bin/bash
# behaviour-preserving changes evaluated against a private copy of the library source (never touches /repo):
# usage: tools/eval_refactor_private.sh <id> <prop>...   demo output must be identical, every listed check must exit 0
cd "$(dirname "$0")/.."
id=$1; shift
S=/tmp/evalref.$$; rm -rf $S; mkdir -p $S; cp -r /repo/src $S/src
PYTHONPATH=/repo/src /venv/bin/python seeded/$id/demo.py > $S/clean.log 2>/dev/null; c1=$?
if ! patch -s -p1 -d $S < seeded/$id/patch.diff >/dev/null 2>&1; then echo "$id: patch no longer applies"; rm -rf $S; exit 2; fi
PYTHONPATH=$S/src /venv/bin/python seeded/$id/demo.py > $S/ref.log 2>/dev/null; c2=$?
if cmp -s $S/clean.log $S/ref.log && [ $c1 = 0 ] && [ $c2 = 0 ]; then demo="demo identical"; else demo="DEMO DIFFERS ($c1/$c2)"; fi
res=""
for p in "$@"; do
  last=$(VERIF_SEED=${EVAL_SEED:-0} VERIF_PROV_SRC=$S/src ./check $p --tier quick --no-lean 2>/dev/null | grep -v "^KNOWN" | tail -1)
  case "$last" in *"exit 0") res="$res $p:quiet";; *"exit 1") res="$res $p:ALARM";; *) res="$res $p:??";; esac
done
echo "$id: $demo;$res"
rm -rf $S

#!/bin/bash
# Runs the repository's pinned baseline (guard OFF) and compares with BASELINE.json stable_pass.
# usage: tools/baseline.sh [repo_dir]
REPO=${1:-/repo}
OUT=$(mktemp -d)
trap 'rm -rf "$OUT"' EXIT
unset PROV_VERIF
cd "$REPO" && /venv/bin/python -m pytest -ra -q -p no:cacheprovider --timeout=900 --continue-on-collection-errors --junitxml="$OUT/junit.xml" > "$OUT/log.txt" 2>&1
tail -3 "$OUT/log.txt"
/venv/bin/python - "$OUT/junit.xml" <<'PY'
import sys, json, xml.etree.ElementTree as ET
base = json.load(open('/root/.vp/BASELINE.json'))
root = ET.parse(sys.argv[1]).getroot()
passed = 0; failed = []
for tc in root.iter('testcase'):
    bad = any(ch.tag in ('failure', 'error') for ch in tc)
    skipped = any(ch.tag == 'skipped' for ch in tc)
    if bad: failed.append(tc.get('classname', '') + '::' + tc.get('name', ''))
    elif not skipped: passed += 1
stable = set(base['stable_pass'])
ok = set()
for tc in root.iter('testcase'):
    bad = any(ch.tag in ('failure', 'error', 'skipped') for ch in tc)
    if not bad: ok.add(tc.get('classname', '') + '::' + tc.get('name', ''))
missing = sorted(stable - ok)
print('passed', passed, 'failed', len(failed), 'stable_pass', len(stable), 'stable tests not passing:', len(missing))
for m in missing[:20]: print('  NOT PASSING:', m)
sys.exit(0 if not missing else 1)
PY

#!/bin/bash
# re-runs every seeded change against the current checks; one line per change
cd /verif
for d in seeded/*/; do
  id=$(basename $d)
  props=$(python3 -c "
import json
m=json.load(open('$d/meta.json')); d=m.get('detected_by',[])
if isinstance(d,dict): d=[d.get('check')]
print(' '.join(d) if d else m.get('property','${id:0:3}'))")
  cd /repo
  if ! git apply --check /verif/$d/patch.diff 2>/dev/null; then echo "$id: patch no longer applies"; cd /verif; continue; fi
  git apply /verif/$d/patch.diff
  cd /verif
  res=""
  for p in $props; do
    out=$(./check $p --tier quick 2>/dev/null | grep -v "^KNOWN" | tail -1)
    case "$out" in *"exit 1") v=$(./check $p --tier quick 2>/dev/null | grep -c "no-failing-input-found"); res="$res $p:DETECTED$( [ "$v" != "0" ] && echo '(no-input)')";; *"exit 0") res="$res $p:MISSED";; *) res="$res $p:??";; esac
  done
  git -C /repo checkout -- .
  echo "$id:$res"
done
git -C /repo status --short

#!/bin/bash
# re-runs every seeded change against the current checks (harness + compiled model; the Lean stage is skipped for speed,
# FAST=0 includes it); one line per change. Behaviour-preserving refactorings (ids ending in r) are skipped: see eval_refactor.sh
cd /verif
FLAGS="--no-lean"; [ "$FAST" = "0" ] && FLAGS=""
for d in seeded/*/; do
  id=$(basename $d)
  case "$id" in *r) continue;; esac
  props=$(python3 -c "
import json
m=json.load(open('$d/meta.json')); d=m.get('detected_by',[])
if isinstance(d,dict): d=[d.get('check')]
print(' '.join(d) if d else m.get('property','${id:0:3}'))")
  cd /repo
  if ! git apply --check /verif/$d/patch.diff 2>/dev/null; then echo "$id: patch no longer applies"; cd /verif; continue; fi
  git apply /verif/$d/patch.diff
  cd /verif
  res=""
  for p in $props; do
    out=$(./check $p --tier quick $FLAGS 2>/dev/null | grep -v "^KNOWN")
    last=$(echo "$out" | tail -1)
    case "$last" in
      *"exit 1") if echo "$out" | grep "^VIOLATION" | grep -qv "no-failing-input-found"; then res="$res $p:DETECTED"; else res="$res $p:DETECTED(no-input)"; fi;;
      *"exit 0") res="$res $p:MISSED";;
      *) res="$res $p:??";;
    esac
  done
  git -C /repo checkout -- .
  echo "$id:$res"
done
git -C /repo status --short

#!/bin/bash
# clean-tree false-alarm sweep: every registered check, several seeds; prints only runs that did not exit 0
# PAR=n runs n seeds side by side (default 1)
cd "$(dirname "$0")/.."
TIER=${TIER:-quick}
one_seed() {
  s=$1
  for p in $(python3 -c "import json;print(' '.join(c['property_id'] for c in json.load(open('MANIFEST.json'))['checks']))"); do
    out=$(VERIF_SEED=$s ./check $p --tier $TIER --no-lean 2>/dev/null | grep -v "^KNOWN-FINDING" | tail -3)
    case "$out" in *"exit 0") ;; *) echo "SEED $s $p: $out" | cut -c1-600;; esac
  done
  echo "seed $s done"
}
export -f one_seed
export TIER
if [ "${PAR:-1}" -gt 1 ]; then
  printf '%s\n' "$@" | xargs -P "$PAR" -I{} bash -c 'one_seed {}'
else
  for s in "$@"; do one_seed $s; done
fi

"""Random documents built through the World API (so that every construction step is also an op
line for the Lean model)."""
import datetime

from prov.identifier import Identifier, QualifiedName, Namespace
from prov.model import Literal
from prov.constants import PROV, XSD

from .gen import (Gen, PREFIXES, URIS, LOCALS, KINDS, ELEMENT_KINDS, RELATION_KINDS, FORMALS, REF_ATTRS, TIME_ATTRS)
from .world import World

SAFE_NS = [("ex", "http://example.org/"), ("foo", "http://foo.org/ns#"), ("ex2", "http://example.org/2/"),
           ("z", "urn:z:"), ("w3", "http://www.w3.org/other/"),
           # a hash namespace whose stem is itself a name of another namespace (ex:vocab is http://example.org/vocab)
           ("voc", "http://example.org/vocab#")]
CLASH_NS = [("ex", "http://other/"), ("ex_1", "http://a/b/"), ("dn", "http://dn/"), ("foo", "http://example.org/"),
            ("prov", "http://notprov/"), ("xsd", "http://notxsd/"),
            # a third and a fourth namespace under one prefix: the second and third renaming (ex_1, ex_2, ...) in one scope
            ("ex", "http://third.example/"), ("ex", "http://fourth.example/x#"),
            # prefixes other vocabularies made familiar: a user may bind them to anything, the library has no claim on them
            ("xs", "http://example.org/xs/"), ("rdf", "http://example.org/not-rdf/"), ("dc", "http://example.org/dc/")]
DEFAULT_URIS = ["http://default/", "http://example.org/", "http://default3.example/d#", "http://default4.example/"]
PROV_EXTRA = ["type", "label", "value", "location", "role"]
KIND_TO_FACTORY = {"Entity": ["entity", "collection"], "Activity": ["activity"], "Agent": ["agent"],
                   "Generation": ["generation"], "Usage": ["usage"], "Start": ["start"], "End": ["end"],
                   "Invalidation": ["invalidation"], "Communication": ["communication"], "Attribution": ["attribution"],
                   "Association": ["association"], "Delegation": ["delegation"], "Influence": ["influence"],
                   "Derivation": ["derivation", "revision", "quotation", "primary_source"],
                   "Specialization": ["specialization"], "Alternate": ["alternate"], "Mention": ["mention"],
                   "Membership": ["membership"]}
CONV = {"Entity": [("wasGeneratedBy", "Generation"), ("wasInvalidatedBy", "Invalidation"), ("wasDerivedFrom", "Derivation"),
                   ("wasAttributedTo", "Attribution"), ("alternateOf", "Alternate"), ("specializationOf", "Specialization"),
                   ("hadMember", "Membership")],
        "Activity": [("used", "Usage"), ("wasInformedBy", "Communication"), ("wasStartedBy", "Start"),
                     ("wasEndedBy", "End"), ("wasAssociatedWith", "Association")],
        "Agent": [("actedOnBehalfOf", "Delegation")]}
NO_ID_KINDS = ("Specialization", "Alternate", "Mention", "Membership")


def ncname(s):
    out = "".join(ch if (ch.isalnum() or ch in "_-.") else "_" for ch in s)
    if not out or not (out[0].isalpha() or out[0] == "_"):
        out = "n" + out
    return out


class DocBuilder:
    """opts:
       clash      probability of registering a clash-prone namespace
       foreign    probability that a name comes as a QualifiedName of a not-yet-registered namespace
       value_kinds list of value kinds (see Gen.value)
       repeat_id  probability of re-using an existing identifier
       redefault  probability (per document) that some scope's default namespace is declared anew between two records
       foreign_formal probability that a record also carries a PROV formal attribute of another kind
       refused    probability (per document) that the history goes on with edits the library refuses (a second, different value
                  for a formal attribute of an existing record); the caller catches the error and carries on
       builtin_names probability (per value) of a qualified-name value in the XML Schema namespace
       resplit    probability that a reference is an existing name cut differently into namespace and local part (same URI)
       reinstant  probability that a time repeats the instant of an earlier zone-aware one in another zone
       reclock    probability that a time repeats the clock reading of an earlier one under another UTC offset
       twins      probability (per attribute) of repeating an earlier URI-valued attribute with the other kind of value
       malformed  probability of a deliberately invalid argument (error branches)
       paths      which entry paths to use: subset of {'new_record','factory','conv'}
    """

    def __init__(self, g, w, **opts):
        self.g = g
        self.w = w
        self.o = dict(clash=0.2, foreign=0.15, value_kinds=None, repeat_id=0.2, malformed=0.05,
                      paths=("new_record", "factory", "conv"), defaults=0.3, bare=True, fulluri=True,
                      multi=0.2, anon=0.5, dup_formal=0.06, xml=False, subtypes=0.0, plain_binary=0.0, twins=0.0, redefault=0.0, reclock=0.0, foreign_formal=0.0, refused=0.0, reinstant=0.0, resplit=0.0, builtin_names=0.0,
                      free_bundle=float(__import__("os").environ.get("VERIF_FREE_BUNDLE", "0.15")))
        self.o.update(opts)
        self.ids = {}        # scope -> list of identifiers used (QualifiedName objects as returned)
        self.elems = {}      # scope -> list of (handle, kind)
        self.recs = {}       # scope -> list of record handles
        self.times = []      # datetimes handed out so far (see option `reclock`)
        self.uri_vals = []   # (attribute name, URI-valued value) pairs handed out so far (see option `twins`)

    # ---- scopes
    def new_doc(self):
        d = self.w.new_doc()
        self._init_scope(d)
        self.setup_scope(d)
        return d

    def _init_scope(self, c):
        self.ids[c] = []
        self.elems[c] = []
        self.recs[c] = []

    def setup_scope(self, c, n=None):
        r = self.g.rng
        for _ in range(n if n is not None else r.randint(1, 3)):
            p, u = r.choice(CLASH_NS) if self.g.chance(self.o["clash"]) else r.choice(SAFE_NS)
            self.w.add_ns(c, p, u)
        if self.g.chance(self.o["defaults"]):
            if self.w.conts[c].get_default_namespace() is None:
                self.w.set_default(c, r.choice(DEFAULT_URIS))

    def new_bundle(self, d, ident=None):
        if ident is None and self.g.chance(self.o["free_bundle"]):
            # a bundle built on its own, named in a namespace the document has never heard of, attached with add_bundle()
            q = self.w.qname("fb", "http://free.example/", "own%d" % len(list(self.w.conts[d].bundles)))
            h, _e = self.w.new_doc_from([], bundle=True, ident=q)
            if not h:
                return None
            self._init_scope(h)
            self.setup_scope(h, self.g.rng.randint(0, 2))
            return h if self.w.add_bundle(d, h, None) is None else None
        if ident is None:
            ident = self.fresh_name(d)
        h, e = self.w.bundle(d, ident)
        if h:
            self._init_scope(h)
            self.setup_scope(h, self.g.rng.randint(0, 2))
        return h

    # ---- names
    def scope_namespaces(self, c):
        obj = self.w.conts[c]
        nss = list(obj.get_registered_namespaces())
        if obj.is_bundle() and obj.document is not None:
            own = {n.prefix for n in nss}
            nss += [n for n in obj.document.get_registered_namespaces() if n.prefix not in own]
        return nss

    def fresh_name(self, c, allow_repr=True):
        """an identifier argument in a random accepted representation"""
        g = self.g
        r = g.rng
        obj = self.w.conts[c]
        nss = self.scope_namespaces(c)
        loc = g.local() + (str(r.randint(0, 9)) if g.chance(0.5) else "")
        if g.chance(self.o["foreign"]) or not nss:
            p, u = r.choice(SAFE_NS + CLASH_NS)
            if g.chance(0.15) and obj.get_default_namespace() is not None:
                return self.w.qname("", r.choice(DEFAULT_URIS), loc)
            return self.w.qname(p, u, loc)
        ns = r.choice(nss)
        k = r.random() if allow_repr else 0.0
        if k < 0.45:
            return self.w.qname(ns.prefix, ns.uri, loc)
        if k < 0.75:
            return "%s:%s" % (ns.prefix, loc)
        if k < 0.87 and self.o["bare"] and obj.get_default_namespace() is not None:
            return loc
        if k < 0.95 and self.o["fulluri"]:
            return ns.uri + loc
        return self.w.qname(ns.prefix, ns.uri, loc)

    def ident(self, c):
        ids = self.ids[c]
        if ids and self.g.chance(self.o["repeat_id"]):
            q = self.g.choice(ids)
            k = self.g.rng.random()
            if k < 0.6:
                return q
            if k < 0.85:
                return str(q)
            return Identifier(q.uri) if ":" in q.uri else q
        return self.fresh_name(c)

    def ref(self, c):
        """reference argument: a record object, or a name in any representation"""
        elems = self.elems[c]
        if self.g.chance(0.15):
            # a record object of *another* scope (the enclosing document, a sibling bundle): it stands for its identifier, which
            # is then a name of the asserting scope like any other (resolved there, renamed there when its prefix is bound differently)
            pool = [hk for c2 in self.elems if c2 != c for hk in self.elems[c2]]
            if pool:
                return self.w.recs[self.g.choice(pool)[0]]
        if self.ids[c] and self.o.get("resplit") and self.g.chance(self.o["resplit"]):
            # a name already in use, cut differently: the same URI as another namespace + local part (ex:data_e1 / dat:e1)
            q = self.g.choice(self.ids[c])
            lp = q.localpart
            if len(lp) >= 2 and isinstance(q.namespace.uri, str):
                k_ = self.g.rng.randrange(1, len(lp))
                return self.w.qname("al%d" % k_, q.namespace.uri + lp[:k_], lp[k_:])
        if elems and self.g.chance(0.5):
            h, _k = self.g.choice(elems)
            return self.w.recs[h]
        if self.ids[c] and self.g.chance(0.5):
            q = self.g.choice(self.ids[c])
            return q if self.g.chance(0.5) else str(q)
        return self.fresh_name(c)

    def time(self):
        t = self.g.dt()
        if self.o["reclock"] and self.times and self.g.chance(self.o["reclock"]):
            # the clock reading of an earlier time under another offset (or none): another instant, another value
            import datetime as _dt
            t0 = self.g.choice(self.times[-4:])
            tzs = [None, _dt.timezone.utc, _dt.timezone(_dt.timedelta(hours=5)), _dt.timezone(_dt.timedelta(hours=-3))]
            t = t0.replace(tzinfo=self.g.choice([z for z in tzs if (None if z is None else z.utcoffset(None)) != t0.utcoffset()]))
        elif self.o.get("reinstant") and self.g.chance(self.o["reinstant"]):
            # the *instant* of an earlier zone-aware time, written in another zone: equal as a Python datetime (and one value for
            # the single-value guard), another lexical form
            import datetime as _dt
            aware = [x for x in self.times[-6:] if x.tzinfo is not None and 2 <= x.year <= 9998]
            if aware:
                t0 = self.g.choice(aware)
                mins = self.g.choice([m for m in (0, 60, -300, 330, -210, 765) if _dt.timedelta(minutes=m) != t0.utcoffset()])
                t = t0.astimezone(_dt.timezone(_dt.timedelta(minutes=mins)))
        self.times.append(t)
        k = self.g.rng.random()
        if k < 0.5:
            return t
        if k < 0.5 + 0.5 * (1 - self.o["malformed"]):
            return t.isoformat()
        return self.g.choice(["not a time", ""])

    def attr_name(self, c):
        g = self.g
        k = g.rng.random()
        if k < 0.3:
            l = g.choice(PROV_EXTRA)
            return PROV[l] if g.chance(0.6) else "prov:" + l
        n = self.fresh_name(c)
        if self.o["xml"]:
            # attribute names become XML element names: local part must be an NCName
            if isinstance(n, QualifiedName):
                n = QualifiedName(n.namespace, ncname(n.localpart))
            elif isinstance(n, str):
                if n.startswith(("http", "urn")):
                    # full-URI spelling: the split between namespace and local part is the manager's choice
                    nss = self.scope_namespaces(c)
                    ns = g.choice(nss) if nss else Namespace("ex", "http://example.org/")
                    n = self.w.qname(ns.prefix, ns.uri, ncname(g.local()))
                elif ":" in n:
                    p, l = n.split(":", 1)
                    n = p + ":" + ncname(l)
                else:
                    n = ncname(n)
        return n

    def other_attrs(self, c, n=None):
        g = self.g
        n = g.rng.randint(0, 3) if n is None else n
        out = []
        for _ in range(n):
            name = self.attr_name(c)
            nvals = 2 if g.chance(self.o["multi"]) else 1
            is_label = (isinstance(name, QualifiedName) and name.uri == PROV["label"].uri) or name == "prov:label"
            is_type = (isinstance(name, QualifiedName) and name.uri == PROV["type"].uri) or name == "prov:type"
            for _ in range(nvals):
                if self.o["xml"] and is_label:
                    v = g.string() if g.chance(0.6) else Literal(g.string(), langtag=g.choice(["en", "fr"]))
                elif is_type and g.chance(self.o["subtypes"]):
                    fam = g.choice([["Person", "Organization", "SoftwareAgent"], ["Plan", "Collection", "EmptyCollection", "Bundle"],
                                    ["Revision", "Quotation", "PrimarySource"]])
                    v = PROV[g.choice(fam)]
                    if g.chance(0.25):
                        # the same URI as a value of another kind (xsd:anyURI / plain string): must stay that kind
                        v = Identifier(v.uri) if g.chance(0.7) else g.choice([v.uri, "prov:" + v.localpart])
                    if g.chance(0.4):
                        # a second subtype of the same base class on the same record (only one can name the XML element)
                        out.append((name, PROV[g.choice(fam)]))
                elif self.o.get("builtin_names") and g.chance(self.o["builtin_names"]):
                    # a *value* that is a name of one of the built-in namespaces (xsd:decimal as the value of ex:datatype, a
                    # prov:type naming an XML Schema type): a qualified name like any other, not a datatype
                    v = QualifiedName(Namespace("xsd", "http://www.w3.org/2001/XMLSchema#"),
                                      g.choice(["decimal", "string", "dateTime", "complexType", "QName", "anyURI"]))
                else:
                    v = g.value(self.scope_namespaces(c), self.o["value_kinds"])
                out.append((name, v))
                if self.o["twins"] and not is_label:
                    if isinstance(v, Identifier):
                        self.uri_vals.append((name, v))
            if self.o["twins"] and self.uri_vals and g.chance(self.o["twins"]):
                # one IRI under one attribute as two kinds of value (qualified name / xsd:anyURI), on this record or on
                # another statement of the same identifier: `==` between the two is true, yet they are different values
                n2, v2 = g.choice(self.uri_vals[-6:])
                if isinstance(v2, QualifiedName):
                    out.append((n2, Identifier(v2.uri)))
                else:
                    nss = [ns for ns in self.scope_namespaces(c) if v2.uri.startswith(ns.uri) and len(v2.uri) > len(ns.uri)]
                    if nss:
                        ns = g.choice(nss)
                        out.append((n2, QualifiedName(ns, v2.uri[len(ns.uri):])))
        return out

    def formal_args(self, c, kind, mask_p=0.6):
        """positional formal arguments for `kind`: first two of a relation nearly always present"""
        g = self.g
        args = []
        for i, l in enumerate(FORMALS[kind]):
            present = True if (i < 2 and kind not in ELEMENT_KINDS and not g.chance(0.08)) else g.chance(mask_p)
            if not present:
                args.append(None)
            elif l in TIME_ATTRS:
                args.append(self.time())
            else:
                if g.chance(self.o["malformed"]):
                    args.append(g.choice(["nope:x", 5, ""]))
                elif l in ("generation", "usage") and g.chance(0.5):
                    # a relation that refers to another relation: the identified generation / usage record itself as the argument
                    # (a record object stands for its identifier, whatever its class)
                    want = "Generation" if l == "generation" else "Usage"
                    pool = [self.w.recs[h_] for h_ in self.recs.get(c, []) if self.w.recs[h_].get_type().localpart == want
                            and self.w.recs[h_].identifier is not None]
                    args.append(g.choice(pool) if pool else self.ref(c))
                else:
                    args.append(self.ref(c))
        return args

    # ---- records
    def add_record(self, c, kind=None):
        g = self.g
        w = self.w
        kind = kind or g.choice(KINDS if g.chance(0.7) else ELEMENT_KINDS)
        paths = [p for p in self.o["paths"]]
        path = g.choice(paths)
        elem = kind in ELEMENT_KINDS
        ident = self.ident(c) if (elem or not g.chance(self.o["anon"])) else None
        if kind == "Membership" and ident is not None:
            # two identified memberships under one identifier are merged by unified() through the library's multi-value
            # "collection" exception of add_attributes: the merged record has several values per formal argument and which one
            # is "the" endpoint is decided by the iteration order of a Python set. No property defines that case; it is avoided
            used = {r_.identifier.uri for r_ in w.conts[c].records if r_.identifier is not None}
            for _try in range(20):
                ident = self.fresh_name(c)
                if isinstance(ident, QualifiedName):
                    u_ = ident.uri
                else:
                    q_ = w.conts[c].valid_qualified_name(ident)      # strings are resolved without side effects
                    u_ = q_.uri if q_ is not None else None
                if u_ is not None and u_ not in used:
                    break
            else:
                ident = None
        if elem and g.chance(self.o["malformed"] / 2):
            ident = g.choice([None, "nope:x"])
        args = self.formal_args(c, kind)
        other = self.other_attrs(c)
        if FORMALS[kind] and kind != "Membership" and g.chance(self.o["dup_formal"]):
            # the same formal attribute once more in the same call (same or different value)
            i = g.rng.randrange(len(FORMALS[kind]))
            l = FORMALS[kind][i]
            v2 = (self.time() if l in TIME_ATTRS else self.ref(c)) if g.chance(0.7) else args[i]
            if v2 is not None:
                other = other + [(PROV[l] if g.chance(0.5) else "prov:" + l, v2)]
        if self.o["foreign_formal"] and g.chance(self.o["foreign_formal"]):
            # a PROV formal attribute that is not an argument of *this* kind (prov:agent on a generation, prov:time on an entity):
            # stored like any formal attribute (one value, a name or a time), listed among the record's other attributes
            cands = sorted((REF_ATTRS | TIME_ATTRS) - set(FORMALS[kind]) - {"collection"})
            if cands:
                l = g.choice(cands)
                other = other + [(PROV[l], (g.dt() if l in TIME_ATTRS else self.ref(c)))]
        if kind in NO_ID_KINDS and g.chance(self.o["plain_binary"]):
            # alternateOf / specializationOf / mentionOf / hadMember as PROV-N knows them: no identifier, no attributes
            ident = None
            other = []
        h = err = None
        if path == "conv" and not elem and self.elems[c]:
            cands = [(m, k) for (eh, ek) in self.elems[c] for (m, k) in CONV[ek] if k == kind]
            srcs = [(eh, m) for (eh, ek) in self.elems[c] for (m, k) in CONV[ek] if k == kind]
            if srcs:
                eh, m = g.choice(srcs)
                a = args[1:]
                if kind in NO_ID_KINDS:
                    h, err = w.conv(eh, m, a, None)
                else:
                    h, err = w.conv(eh, m, a, other if other else (None if g.chance(0.5) else []))
                self._book(c, h, kind)
                return h, err
            path = "factory"
        if path == "factory":
            fname = g.choice(KIND_TO_FACTORY[kind])
            if kind in NO_ID_KINDS:
                h, err = w.factory(c, fname, None, args, None)
            else:
                h, err = w.factory(c, fname, ident, args, other)
        else:
            attrs = []
            formal = [(PROV[l] if g.chance(0.8) else "prov:" + l, a) for l, a in zip(FORMALS[kind], args)]
            if g.chance(0.5):
                attrs = formal + other
            else:
                attrs = formal + other
                g.rng.shuffle(attrs)
            h, err = w.new_record(c, kind, ident, attrs)
        self._book(c, h, kind)
        return h, err

    def kind_twin(self, c):
        """a record stated once more with the same type, identifier and attributes, except that values are of another kind that
        Python's == cannot tell apart (1 / True / 1.0, 0 / False, one instant under two UTC offsets): another statement, not a
        repetition. Returns the new handle or None"""
        import datetime as _dt
        g, w = self.g, self.w

        def other_kind(v):
            if isinstance(v, bool):
                return g.choice([int(v), float(v)])
            if isinstance(v, int) and v in (0, 1):
                return g.choice([bool(v), float(v)])
            if isinstance(v, float) and v in (0.0, 1.0):
                return g.choice([bool(v), int(v)])
            if isinstance(v, _dt.datetime) and v.tzinfo is not None and 2 <= v.year <= 9998:
                mins = g.choice([m for m in (0, 60, -300, 330) if _dt.timedelta(minutes=m) != v.utcoffset()])
                return v.astimezone(_dt.timezone(_dt.timedelta(minutes=mins)))
            return None
        cands = []
        for h in self.recs.get(c, []):
            r_ = w.recs[h]
            if r_.identifier is None or r_.get_type().localpart == "Membership":
                continue
            if any(other_kind(v) is not None for (_a, v) in r_.extra_attributes):
                cands.append(h)
        if not cands:
            return None
        r_ = w.recs[g.choice(cands)]
        attrs = [(a, v) for (a, v) in r_.formal_attributes if v is not None]
        swapped = False
        for (a, v) in r_.extra_attributes:
            v2 = other_kind(v)
            if v2 is not None and (not swapped or g.chance(0.5)):
                attrs.append((a, v2))
                swapped = True
            else:
                attrs.append((a, v))
        h2, _e = w.new_record(c, r_.get_type().localpart, r_.identifier, attrs)
        self._book(c, h2, r_.get_type().localpart)
        return h2

    def _book(self, c, h, kind):
        if h is None:
            return
        self.recs[c].append(h)
        r = self.w.recs[h]
        if r.identifier is not None:
            self.ids[c].append(r.identifier)
        if kind in ELEMENT_KINDS:
            self.elems[c].append((h, kind))

    def lookalike(self, d):
        """a bundle binds a prefix of its document to another namespace and both use one local name: two names that print alike
        and denote different things, each declared and related on its own side (C03-1 territory for the text formats; whatever
        works by URI — graphs, DOT, lookups — must keep them apart)"""
        g, w = self.g, self.w
        nss = sorted(w.conts[d].get_registered_namespaces(), key=lambda n: n.prefix)
        if not nss:
            return None
        ns = g.choice(nss)
        bh = self.new_bundle(d)
        if not bh:
            return None
        u2 = "http://lookalike.example/%s/" % ns.prefix
        got = w.add_ns(bh, ns.prefix, u2)
        if got.prefix != ns.prefix:
            return bh
        loc = "same%d" % g.rng.randint(0, 9)
        for (c, uri) in ((d, ns.uri), (bh, u2)):
            e = w.qname(ns.prefix, uri, loc)
            a = w.qname(ns.prefix, uri, loc + "act")
            w.new_record(c, "Entity", e, [])
            if g.chance(0.6):
                w.new_record(c, "Activity", a, [])
            w.new_record(c, "Generation", None, [("prov:entity", e), ("prov:activity", a)])
        return bh

    def cross_kind_cluster(self, c):
        """one identifier used by records of two kinds, each kind stated twice or more (two groups that unified() merges
        separately under one identifier): element kinds, or two relation kinds between elements the scope knows"""
        g, w = self.g, self.w
        ident = self.ident(c) if (self.ids.get(c) and g.chance(0.5)) else self.fresh_name(c, allow_repr=False)
        if g.chance(0.5) or len(self.elems[c]) < 1:
            kinds = g.rng.sample(ELEMENT_KINDS, 2)
        else:
            kinds = g.rng.sample(["Generation", "Usage", "Invalidation", "Start", "End", "Attribution", "Association",
                                  "Derivation", "Influence", "Communication", "Delegation"], 2)
        plan = [kinds[0], kinds[1], kinds[0], kinds[1]] + ([g.choice(kinds)] if g.chance(0.3) else [])
        if g.chance(0.5):
            g.rng.shuffle(plan)
        made = 0
        for k in plan:
            attrs = []
            if k not in ELEMENT_KINDS:
                args = self.formal_args(c, k, mask_p=0.3)
                attrs = [(PROV[l], a) for l, a in zip(FORMALS[k], args) if a is not None and l not in TIME_ATTRS][:2]
            h, _e = w.new_record(c, k, ident, attrs + self.other_attrs(c, g.rng.randint(0, 2)))
            self._book(c, h, k)
            made += h is not None
        return made

    def many_defaults(self, d):
        """several default namespaces meet: the document has one, two bundles have two others, each names records by bare
        local names in its own default namespace (what flattened() / update() / unified() must keep apart by URI)"""
        g, w = self.g, self.w
        uris = g.rng.sample(DEFAULT_URIS, 3)
        if w.conts[d].get_default_namespace() is None:
            w.set_default(d, uris[0])
        out = []
        for u in uris[1:]:
            bh = self.new_bundle(d)
            if not bh:
                continue
            if w.conts[bh].get_default_namespace() is None:
                w.set_default(bh, u)
            loc = "dflt%d" % g.rng.randint(0, 9)
            w.new_record(bh, g.choice(["Entity", "Agent", "Activity"]), w.qname("", u, loc), [])
            w.new_record(bh, "Entity", w.qname("", u, loc + "x"), [(w.qname("", u, "attr"), w.qname("", u, "val"))])
            out.append(bh)
        return out

    def mutate_in_place(self, roots, n=None, extend_records=True):
        """a later chapter of the same history: records are added / extended in place, namespaces are registered, after the
        containers have already been exported, looked up, unified … (any answer remembered from before is now stale)"""
        g, w = self.g, self.w
        changed = False
        for _ in range(n or g.rng.randint(1, 3)):
            c = g.choice([x for x in all_containers(w, roots) if x in self.recs])
            k = g.rng.random()
            recs = w.conts[c].records
            if k < 0.4 and recs and extend_records:
                i = g.rng.randrange(len(recs))
                h = w.rec_at(c, i)
                how = g.rng.random()
                if recs[i].get_type().localpart == "Activity" and how < 0.4:
                    # ProvActivity.set_time writes the two time slots directly
                    if w.set_time(h, self.time() if g.chance(0.8) else None, self.time() if g.chance(0.6) else None) is None:
                        changed = True
                elif how < 0.55:
                    if w.add_type(h, g.value(None, ["qn", "str", "int"])) is None:
                        changed = True
                else:
                    attrs = self.other_attrs(c, n=1)
                    if attrs and w.add_attrs(h, attrs) is None:
                        changed = True
            elif k < 0.8:
                h, err = self.add_record(c)
                changed = changed or h is not None
            elif k < 0.9:
                ns = g.namespace(allow_empty_prefix=False)
                w.add_ns(c, ns.prefix, ns.uri)
                changed = True
            else:
                # records arrive from a document whose *default* namespace is another one, under local names this container
                # already knows: a container without a default of its own adopts that default on the way
                o = w.new_doc()
                w.set_default(o, g.choice(["http://default2/", "http://d1/"]))
                locs = [r_.identifier.localpart for r_ in recs if r_.identifier is not None]
                for _j in range(g.rng.randint(1, 2)):
                    w.new_record(o, g.choice(ELEMENT_KINDS), g.choice(locs) if (locs and g.chance(0.7)) else g.local(), [])
                if w.update(c, o) is None:
                    changed = True
        return changed

    def populate(self, c, n):
        for _ in range(n):
            self.add_record(c)

    def random_document(self, n_records=None, n_bundles=None):
        g = self.g
        d = self.new_doc()
        nb = g.rng.choice([0, 0, 1, 2]) if n_bundles is None else n_bundles
        scopes = [d]
        for _ in range(nb):
            b = self.new_bundle(d)
            if b:
                scopes.append(b)
        n = g.rng.randint(1, 8) if n_records is None else n_records
        turn = g.rng.randrange(n) if (self.o["redefault"] and g.chance(self.o["redefault"])) else None
        for i in range(n):
            if i == turn:
                # the default namespace is declared anew half way: names stated before keep the namespace they were given in
                c = g.choice(scopes)
                cur = self.w.conts[c].get_default_namespace()
                self.w.set_default(c, g.choice([u for u in DEFAULT_URIS if cur is None or u != cur.uri]))
            self.add_record(g.choice(scopes))
        if self.o["refused"] and g.chance(self.o["refused"]):
            self.refused_edits(scopes)
        return d, scopes

    def refused_edits(self, scopes, n=None):
        """edits the library refuses: a second, different value for a single-valued formal attribute of an existing record.
        The caller catches the ProvException and carries on with the document; how many were indeed refused is returned"""
        import datetime as _dt
        g, w = self.g, self.w
        done = 0
        for _ in range(n or g.rng.randint(1, 3)):
            c = g.choice(scopes)
            recs = w.conts[c].records
            cands = []
            for i, r_ in enumerate(recs):
                if r_.get_type().localpart == "Membership":
                    continue
                for a_, v_ in r_.formal_attributes:
                    if v_ is not None:
                        cands.append((i, a_, v_))
            if not cands:
                continue
            i, a_, v_ = g.choice(cands)
            if isinstance(v_, _dt.datetime):
                step = _dt.timedelta(days=g.rng.randint(1, 400), seconds=g.rng.randint(0, 86399))
                v2 = v_ - step if v_.year > 5000 else v_ + step
            else:
                v2 = self.w.qname("rf", "http://refused.example/ns#", "other%d" % g.rng.randint(0, 9))
            err = w.add_attrs(w.rec_at(c, i), [(a_ if g.chance(0.7) else str(a_), v2)])
            if err is not None:
                done += 1
        return done


def all_containers(w, roots):
    """roots and their current bundles (handles), binding handles for bundles created internally"""
    out = []
    for c in roots:
        if c in out:
            continue
        out.append(c)
        obj = w.conts[c]
        if obj.is_document():
            for i, _b in enumerate(list(obj.bundles)):
                h = w.bundle_at(c, i)
                if h not in out:
                    out.append(h)
    return out


def derive_step(g, w, b, docs):
    """one random record-moving operation between documents; returns handle of a new container or None"""
    r = g.rng
    k = r.random()
    d = r.choice(docs)
    if k < 0.2:
        h, _e = w.unified(r.choice(all_containers(w, [d])))
        return h
    if k < 0.35:
        h, _e = w.flattened(d)
        return h if h != d else None
    if k < 0.55 and len(docs) > 1:
        o = r.choice([x for x in docs if x != d])
        w.update(d, o)
        return None
    if k < 0.7 and len(docs) > 1:
        o = r.choice([x for x in docs if x != d])
        ident = b.fresh_name(d) if g.chance(0.8) else None
        w.add_bundle(d, o, ident)
        return None
    if k < 0.85:
        conts = all_containers(w, docs)
        src = r.choice(conts)
        n = len(w.conts[src].records)
        if n:
            hs = [w.rec_at(src, r.randrange(n)) for _ in range(r.randint(1, 3))]
            h, _e = w.new_doc_from(hs, bundle=g.chance(0.3))
            return h
        return None
    conts = all_containers(w, docs)
    src = r.choice(conts)
    dst = r.choice(conts)
    n = len(w.conts[src].records)
    if n:
        w.add_record(dst, w.rec_at(src, r.randrange(n)))
    return None

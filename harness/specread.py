"""Run the Lean specification readers (independent of the library) on real emitted text."""
import json

from . import proto, jsontree
from .world import run_model


XSD_DOUBLE = "http://www.w3.org/2001/XMLSchema#double"


def lex_double(v):
    """A-LEX: the Lean readers do no float arithmetic; a lexical xsd:double is converted here with Python's float()"""
    if v[0] == "lit" and v[2] == XSD_DOUBLE and v[3] is None:
        try:
            x = float(v[1])
            if x == x and x not in (float("inf"), float("-inf")):
                return ["float", repr(x)]
        except ValueError:
            pass
    if v[0] == "dt":
        # A-LEX: xsd:dateTime lexical forms denote instants; compare by value (canonical isoformat), parsed with the
        # standard library (not with dateutil, which the library under test uses)
        import datetime
        try:
            lex = v[1]
            if lex.endswith("Z"):
                lex = lex[:-1] + "+00:00"
            return ["dt", datetime.datetime.fromisoformat(lex).isoformat()]
        except ValueError:
            return v
    return v


def _collect(outs):
    res = []
    for o in outs:
        if "fatal" in o:
            res.append(("fatal", o["fatal"]))
        elif o.get("doc") is None:
            res.append(None)
        else:
            d = {}
            for key, recs in o["doc"]:
                lst = d.setdefault(key, [])
                for r in recs:
                    attrs = []
                    for a in sorted(([a[0], lex_double(a[1])] for a in r["attrs"]), key=proto.skey):
                        if not attrs or attrs[-1] != a:      # an attribute holds a *set* of values
                            attrs.append(a)
                    lst.append(proto.skey({"kind": r["kind"], "id": r["id"], "attrs": attrs}))
            res.append({k: sorted(v) for k, v in d.items()})
    return res


def spec_read_xml_texts(texts):
    """list of PROV-XML texts -> abstract documents (Lean PROV-XML specification reader) or None"""
    from . import xmltree
    ops = [{"op": "reset"}]
    for t in texts:
        tree = xmltree.dump(xmltree.parse(t))
        hints = [{"lex": k, "f": v} for k, v in xmltree.double_hints(tree).items()]
        ops.append({"op": "spec_xml", "tree": tree, "hints": hints})
    return _collect(run_model(ops)[1:])


def spec_read_provn_texts(texts):
    """list of PROV-N texts -> abstract documents (Lean PROV-N reader written from the grammar) or None"""
    import re
    ops = [{"op": "reset"}]
    for t in texts:
        hints = {}
        for m in re.finditer(r'"([^"\\\n]*)" %% xsd:double', t):
            try:
                x = float(m.group(1))
                if x == x and x not in (float("inf"), float("-inf")):
                    hints[m.group(1)] = proto.enc_float(x)
            except ValueError:
                pass
        ops.append({"op": "spec_provn", "text": t, "hints": [{"lex": k, "f": v} for k, v in hints.items()]})
    return _collect(run_model(ops)[1:])


def spec_read_json_texts(texts):
    """list of PROV-JSON texts -> list of abstract documents {bundle key: sorted strict records} or None"""
    ops = [{"op": "reset"}]
    for t in texts:
        ops.append({"op": "spec_json", "tree": jsontree.to_tagged(jsontree.loads_ordered(t))})
    outs = run_model(ops)[1:]
    res = []
    for o in outs:
        if "fatal" in o:
            res.append(("fatal", o["fatal"]))
        elif o.get("doc") is None:
            res.append(None)
        else:
            d = {}
            for key, recs in o["doc"]:
                lst = d.setdefault(key, [])
                for r in recs:
                    attrs = []
                    for a in sorted(([a[0], lex_double(a[1])] for a in r["attrs"]), key=proto.skey):
                        if not attrs or attrs[-1] != a:      # an attribute holds a *set* of values
                            attrs.append(a)
                    lst.append(proto.skey({"kind": r["kind"], "id": r["id"], "attrs": attrs}))
            res.append({k: sorted(v) for k, v in d.items()})
    return res

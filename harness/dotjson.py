"""Run Graphviz on DOT text and reduce its JSON output to a canonical structure."""
import json
import subprocess

from . import proto


def run_dot(text):
    """returns (ok, parsed json or stderr)"""
    p = subprocess.run(["dot", "-Tdot_json"], input=text.encode("utf-8"), stdout=subprocess.PIPE, stderr=subprocess.PIPE, timeout=120)
    if p.returncode != 0 or not p.stdout:
        return False, p.stderr.decode("utf-8", "replace")
    try:
        return True, json.loads(p.stdout.decode("utf-8"))
    except ValueError as e:
        return False, "unparsable dot_json: %r" % (e,)


def canon_rows(label):
    # use_labels: which of several prov:label values is shown follows Python's set order: keep the subtitle only
    # (and when that value happens to equal the identifier, no subtitle is drawn at all): the canonical form of an element
    # label is the identifier text it carries
    mark = '<br /><font color="#333333" point-size="10">'
    cut = label.find(mark)
    if cut >= 0 and not label.startswith("<TABLE"):
        sub = label[cut + len(mark):]
        import html
        return html.unescape(sub[:-len("</font>")] if sub.endswith("</font>") else sub)
    return _canon_rows(label)


def _canon_rows(label):
    """annotation table labels: rows in sorted order (rows with equal sort keys come in set order)"""
    if label.startswith("<TABLE"):
        parts = label.split("    <TR>\n")
        head, rows = parts[0], parts[1:]
        if rows:
            last = rows[-1]
            tail = ""
            if last.endswith("    </TABLE>"):
                rows[-1] = last[:-len("    </TABLE>")]
                tail = "    </TABLE>"
            return head + "    <TR>\n".join([""] + sorted(rows)) + tail
    return label


def canon_from_graphviz(j):
    objs = j.get("objects", [])
    by_id = {o["_gvid"]: o for o in objs}
    cluster_of = {}
    clusters = []
    members = {}
    for o in objs:
        if "nodes" in o or o.get("name", "").startswith("cluster"):
            clusters.append({"name": o["name"], "label": o.get("label", ""), "url": o.get("URL", "")})
            for n in o.get("nodes", []):
                cluster_of[n] = o["name"]
                members.setdefault(o["name"], set()).add(by_id[n]["name"])
    nodes = []
    for o in objs:
        if "nodes" in o or o.get("name", "").startswith("cluster"):
            continue
        # (cluster membership is not part of the node's canonical form: Graphviz also makes a node a member of every
        #  cluster in which an edge merely mentions it)
        nodes.append({"name": o["name"], "shape": o.get("shape", "ellipse"), "label": canon_rows(o.get("label", "")),
                      "url": o.get("URL")})
    edges = []
    for e in j.get("edges", []):
        edges.append({"tail": by_id[e["tail"]]["name"], "head": by_id[e["head"]]["name"], "label": e.get("label") or None,
                      "arrowhead": e.get("arrowhead"), "style": e.get("style"), "color": e.get("color")})
    return {"nodes": sorted(nodes, key=proto.skey), "edges": sorted(edges, key=proto.skey),
            "clusters": sorted(clusters, key=proto.skey), "members": {k: sorted(v) for k, v in members.items()}}


def canon_from_model(m):
    nodes = [{"name": n["name"], "shape": n["shape"], "label": canon_rows(n["label"]), "url": n["url"]}
             for n in m["nodes"]]
    edges = [{"tail": e["tail"], "head": e["head"], "label": e["label"] or None, "arrowhead": e["arrowhead"], "style": e["style"],
              "color": e["color"]} for e in m["edges"]]
    clusters = [{"name": c["name"], "label": c["label"], "url": c["url"]} for c in m["clusters"]]
    defined = {}
    for n in m["nodes"]:
        if n["cluster"]:
            defined.setdefault(n["cluster"], []).append(n["name"])
    return {"nodes": sorted(nodes, key=proto.skey), "edges": sorted(edges, key=proto.skey),
            "clusters": sorted(clusters, key=proto.skey), "defined_in": defined}

"""Shared helpers for property modules."""
import json

from .world import World, run_model_batch, diff_outputs
from .runner import Failure


def corr_failures(ctx, worlds, use_model=True):
    """run the recorded op scripts of many worlds through the Lean driver and diff"""
    out = []
    if not use_model or not worlds:
        return out
    mos = run_model_batch([w.ops for w in worlds])
    for w, mo in zip(worlds, mos):
        ctx.model_ops += len(w.ops)
        df = diff_outputs(w.ops, w.outs, mo)
        if df:
            i, msg = df
            w.corr_failed = True
            out.append(Failure("corr", None, "op %d %s: %s" % (i, json.dumps(w.ops[i], ensure_ascii=False)[:400], msg[:800]),
                               {"ops": w.ops[:i + 1], "impl": w.outs[i]}))
    return out


def distrust_known(worlds_and_fails):
    """a known finding is a statement about the *pinned* code, and the model mirrors the pinned code: when the model no longer
    agrees with the implementation on a case, a property failure in that very case is not explained by the known finding
    (its signature is cleared: it is reported as the violation it is, with the case as the failing input)"""
    for (w, fs) in worlds_and_fails:
        if getattr(w, "corr_failed", False):
            for f in fs:
                if f.kind == "oracle" and f.sig is not None:
                    f.desc += " [signature %s not accepted: model and implementation disagree on this very case]" % f.sig
                    f.sig = None


def batched(ctx, total, make_case, judge=None, batch=100, use_model=True):
    """make_case() -> (world, [Failure...]); correspondence is checked per batch"""
    fails = []
    done = 0
    while done < total:
        n = min(batch, total - done)
        cases = []
        for _ in range(n):
            try:
                cases.append(make_case())
            except Exception as exc:  # the implementation misbehaved in a way the harness did not expect
                import traceback
                import prov as _prov
                import os as _os
                lib = _os.path.dirname(_os.path.abspath(_prov.__file__))
                if not any(_os.path.abspath(fr.filename).startswith(lib) for fr in traceback.extract_tb(exc.__traceback__)):
                    raise       # no frame of the library involved: a defect of the harness itself (exit 2), not a violation
                tb = traceback.format_exc()
                fails.append(Failure("oracle", None, "unexpected exception while exercising the implementation: " + tb[-700:],
                                     {"traceback": tb, "seed": ctx.seed, "case_index": done + len(cases)}))
                ctx.evaluations += 1
        done += n
        cf = corr_failures(ctx, [w for (w, _) in cases], use_model)
        distrust_known(cases)
        for (w, fs) in cases:
            fails.extend(fs)
        fails.extend(cf)
    return fails


def distrust_known_by_world(fails):
    """same rule for harnesses that keep one flat failure list: failures carry `.world`"""
    for f in fails:
        w = getattr(f, "world", None)
        if w is not None and getattr(w, "corr_failed", False) and f.kind == "oracle" and f.sig is not None:
            f.desc += " [signature %s not accepted: model and implementation disagree on this very case]" % f.sig
            f.sig = None


def generic_replay(ctx, case, check=None):
    """replay an op list; `check(world) -> [Failure]` re-evaluates the property oracle"""
    from .props.replay_ops import replay_ops
    from .world import run_model
    w = replay_ops(case["ops"])
    fails = []
    if check is not None:
        fails.extend(check(w, case))
    try:
        mo = run_model(w.ops)
        df = diff_outputs(w.ops, w.outs, mo)
        if df:
            fails.append(Failure("corr", None, "op %d: %s" % df, case))
    except Exception as e:  # noqa
        ctx.notes.append("replay: model unavailable: %r" % (e,))
    return fails

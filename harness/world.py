"""A World runs API operations on the real prov objects, recording for each one the op line
(for the Lean driver) and the canonicalised result observed on the implementation."""
import json
import os
import subprocess

from prov.identifier import Identifier, QualifiedName, Namespace
from prov.model import (ProvDocument, ProvBundle, ProvRecord, ProvElement, ProvRelation, Literal,
                        ProvException, PROV_REC_CLS)
from prov import Error as ProvError
from prov.constants import PROV

from . import proto

VERIF = os.path.dirname(os.path.dirname(os.path.abspath(__file__)))
DRIVER = os.path.join(VERIF, "lean", ".lake", "build", "bin", "driver")


def err_name(e):
    if e is None:
        return None
    if isinstance(e, ProvError):
        return "lib:" + type(e).__name__
    for base in (ValueError, TypeError, KeyError, AttributeError, IndexError, NotImplementedError):
        if isinstance(e, base):
            return "crash:" + base.__name__
    return "crash:" + type(e).__name__


CLS = {"all": None, "element": ProvElement, "relation": ProvRelation}
for _k, _cls in PROV_REC_CLS.items():
    CLS[_k.localpart] = _cls


class World:
    _count = 0

    def __init__(self, own_ns=None):
        """own_ns: the caller keeps Namespace objects of its own (every second world unless said otherwise): names are minted
        from them (`ns[local]`, through the object's cache) and the objects themselves are what gets registered; otherwise
        every name and registration uses a throw-away Namespace. The model sees the same ops either way."""
        World._count += 1
        self.own_ns = (World._count % 2 == 0) if own_ns is None else bool(own_ns)
        self.ns_pool = {}
        self.ops = []
        self.outs = []
        self.conts = {}
        self.recs = {}
        self.next = 0
        self.emit({"op": "reset", "own_ns": True} if self.own_ns else {"op": "reset"}, {})

    def ns_obj(self, p, u):
        k = (p, u)
        if k not in self.ns_pool:
            self.ns_pool[k] = Namespace(p, u)
        return self.ns_pool[k]

    def qname(self, p, u, loc):
        """a QualifiedName the way this world's caller makes them"""
        if self.own_ns:
            return self.ns_obj(p, u)[loc]
        return QualifiedName(Namespace(p, u), loc)

    # -- bookkeeping
    def emit(self, op, out):
        self.ops.append(op)
        self.outs.append(out)

    def fresh(self):
        self.next += 1
        return self.next

    def bind_cont(self, obj):
        h = self.fresh()
        self.conts[h] = obj
        return h

    def bind_rec(self, obj):
        h = self.fresh()
        self.recs[h] = obj
        return h

    def rec_handle(self, obj):
        for h, r in self.recs.items():
            if r is obj:
                return h
        return None

    def enc_argval(self, v):
        if v is None:
            return None
        if isinstance(v, ProvRecord):
            h = self.rec_handle(v)
            assert h is not None
            return {"rec": h}
        return proto.enc_value(v)

    def enc_attrs(self, attrs):
        out = []
        for (n, v) in attrs:
            e = {"n": proto.enc_name(n), "v": self.enc_argval(v)}
            f = proto.float_hint(v)
            if f is not None:
                e["f"] = f
            out.append(e)
        return out

    # -- operations
    def new_doc(self, nss=None):
        """ProvDocument(), or ProvDocument(namespaces=…) with `nss` = [(prefix, uri), …] given as a dict or as Namespace objects"""
        if nss:
            arg = dict(nss) if (len({p for p, _u in nss}) == len(nss) and World._count % 2 == 0) else [Namespace(p, u) for p, u in nss]
            d = ProvDocument(namespaces=arg)
            h = self.bind_cont(d)
            self.emit({"op": "new_doc", "as": h, "ns": [[p, u] for p, u in nss]}, {})
            return h
        d = ProvDocument()
        h = self.bind_cont(d)
        self.emit({"op": "new_doc", "as": h}, {})
        return h

    def new_doc_from(self, recs, bundle=False, ident=None):
        """ProvDocument(records=[...]) / ProvBundle(records=[...], identifier=q) built from existing record objects"""
        op = {"op": "new_from", "recs": list(recs), "bundle": bundle}
        if ident is not None:
            op["id"] = proto.enc_name(ident)
        try:
            objs = [self.recs[r] for r in recs]
            d = ProvBundle(records=objs, identifier=ident) if bundle else ProvDocument(records=objs)
            err = None
        except Exception as e:  # noqa
            d = None
            err = e
        h = None
        if d is not None:
            h = self.bind_cont(d)
            op["as"] = h
        self.emit(op, {"err": err_name(err)})
        return h, err

    def add_ns(self, c, p, u):
        n = self.conts[c].add_namespace(self.ns_obj(p, u)) if self.own_ns else self.conts[c].add_namespace(p, u)
        self.emit({"op": "add_ns", "c": c, "p": p, "u": u}, {"p": n.prefix, "u": n.uri})
        return n

    def set_default(self, c, u):
        self.conts[c].set_default_namespace(u)
        self.emit({"op": "set_default", "c": c, "u": u}, {})

    def vqn(self, c, x):
        try:
            q = self.conts[c].valid_qualified_name(x)
        except Exception as e:  # noqa  (the resolver answers None for what it cannot resolve; it does not raise)
            self.crashes = getattr(self, "crashes", [])
            self.crashes.append(("valid_qualified_name(%r)" % (x,), e, len(self.ops)))
            self.emit({"op": "vqn", "c": c, "x": proto.enc_name(x)}, {"q": None, "crash": err_name(e)})
            return None
        self.emit({"op": "vqn", "c": c, "x": proto.enc_name(x)}, {"q": proto.canon_q(q)})
        return q

    def new_record(self, c, kind, ident, attrs):
        """kind: local part of the PROV type; attrs: list of (name, value)"""
        op = {"op": "new_record", "c": c, "kind": kind, "id": proto.enc_name(ident),
              "attrs": self.enc_attrs(attrs)}
        try:
            r = self.conts[c].new_record(PROV[kind], ident, list(attrs))
            err = None
        except Exception as e:  # noqa
            r = None
            err = e
        h = None
        if r is not None:
            h = self.bind_rec(r)
            op["as"] = h
        self.emit(op, {"err": err_name(err)})
        return h, err

    FACTORIES = {
        "entity": ("Entity", []), "agent": ("Agent", []), "collection": ("Entity", []),
        "activity": ("Activity", ["startTime", "endTime"]),
        "generation": ("Generation", ["entity", "activity", "time"]),
        "usage": ("Usage", ["activity", "entity", "time"]),
        "start": ("Start", ["activity", "trigger", "starter", "time"]),
        "end": ("End", ["activity", "trigger", "ender", "time"]),
        "invalidation": ("Invalidation", ["entity", "activity", "time"]),
        "communication": ("Communication", ["informed", "informant"]),
        "attribution": ("Attribution", ["entity", "agent"]),
        "association": ("Association", ["activity", "agent", "plan"]),
        "delegation": ("Delegation", ["delegate", "responsible", "activity"]),
        "influence": ("Influence", ["influencee", "influencer"]),
        "derivation": ("Derivation", ["generatedEntity", "usedEntity", "activity", "generation", "usage"]),
        "revision": ("Derivation", ["generatedEntity", "usedEntity", "activity", "generation", "usage"]),
        "quotation": ("Derivation", ["generatedEntity", "usedEntity", "activity", "generation", "usage"]),
        "primary_source": ("Derivation", ["generatedEntity", "usedEntity", "activity", "generation", "usage"]),
        "specialization": ("Specialization", ["specificEntity", "generalEntity"]),
        "alternate": ("Alternate", ["alternate1", "alternate2"]),
        "mention": ("Mention", ["specificEntity", "generalEntity", "bundle"]),
        "membership": ("Membership", ["collection", "entity"]),
    }
    NO_ID = ("specialization", "alternate", "mention", "membership")
    ELEMENT_F = ("entity", "agent", "collection", "activity")

    def factory(self, c, fname, ident, args, other):
        """typed factory method of the container; args = positional formal arguments"""
        op = {"op": "factory", "c": c, "f": fname, "id": proto.enc_name(ident),
              "args": [self.enc_argval(a) for a in args], "other": self.enc_attrs(other or [])}
        meth = getattr(self.conts[c], fname)
        try:
            if fname in self.ELEMENT_F:
                r = meth(ident, *args, other_attributes=(list(other) if other else None))
            elif fname in self.NO_ID:
                r = meth(*args)
            else:
                r = meth(*args, identifier=ident, other_attributes=(list(other) if other else None))
            err = None
        except Exception as e:  # noqa
            r = None
            err = e
        h = None
        if r is not None:
            h = self.bind_rec(r)
            op["as"] = h
        self.emit(op, {"err": err_name(err)})
        return h, err

    def conv(self, r, mname, args, other):
        """element convenience method (entity.wasGeneratedBy(...)); returns handle of the new relation"""
        rec = self.recs[r]
        op = {"op": "conv", "r": r, "m": mname, "args": [self.enc_argval(a) for a in args],
              "other": self.enc_attrs(other or [])}
        bundle = rec.bundle
        before = len(bundle.records)
        try:
            if other is None:
                getattr(rec, mname)(*args)
            else:
                getattr(rec, mname)(*args, attributes=list(other))
            err = None
        except Exception as e:  # noqa
            err = e
        h = None
        recs = bundle.records
        if err is None and len(recs) == before + 1:
            h = self.bind_rec(recs[-1])
            op["as"] = h
        self.emit(op, {"err": err_name(err)})
        return h, err

    def add_attrs(self, r, attrs):
        op = {"op": "add_attrs", "r": r, "attrs": self.enc_attrs(attrs)}
        try:
            self.recs[r].add_attributes(list(attrs))
            err = None
        except Exception as e:  # noqa
            err = e
        self.emit(op, {"err": err_name(err)})
        return err

    def set_time(self, r, st, en):
        op = {"op": "set_time", "r": r, "st": proto.enc_value(st) if st is not None else None,
              "en": proto.enc_value(en) if en is not None else None}
        try:
            self.recs[r].set_time(st, en)
            err = None
        except Exception as e:  # noqa
            err = e
        self.emit(op, {"err": err_name(err)})
        return err

    def add_type(self, r, v):
        op = {"op": "add_type", "r": r, "v": self.enc_argval(v)}
        f = proto.float_hint(v)
        if f is not None:
            op["f"] = f
        try:
            self.recs[r].add_asserted_type(v)
            err = None
        except Exception as e:  # noqa
            err = e
        self.emit(op, {"err": err_name(err)})
        return err

    def add_record(self, c, r):
        op = {"op": "add_record", "c": c, "r": r}
        try:
            nr = self.conts[c].add_record(self.recs[r])
            err = None
        except Exception as e:  # noqa
            nr = None
            err = e
        h = None
        if nr is not None:
            h = self.bind_rec(nr)
            op["as"] = h
        self.emit(op, {"err": err_name(err)})
        return h, err

    def copy(self, r):
        op = {"op": "copy", "r": r}
        try:
            nr = self.recs[r].copy()
            err = None
        except Exception as e:  # noqa
            nr = None
            err = e
        h = None
        if nr is not None:
            h = self.bind_rec(nr)
            op["as"] = h
        self.emit(op, {"err": err_name(err)})
        return h, err

    def _indices(self, c, lst):
        recs = self.conts[c].records
        out = []
        for x in lst:
            idx = None
            for i, r in enumerate(recs):
                if r is x:
                    idx = i
                    break
            out.append(idx)
        return out

    def get_record(self, c, x):
        res = self.conts[c].get_record(x)
        out = None if res is None else self._indices(c, list(res))
        self.emit({"op": "get_record", "c": c, "x": proto.enc_name(x)}, {"recs": out})
        return res

    def get_records(self, c, cls):
        res = list(self.conts[c].get_records(CLS[cls]))
        self.emit({"op": "get_records", "c": c, "cls": cls}, {"recs": self._indices(c, res)})
        return res

    def rec_at(self, c, i):
        r = self.conts[c].records[i]
        h = self.rec_handle(r)
        if h is None:
            h = self.bind_rec(r)
            self.emit({"op": "rec_at", "c": c, "i": i, "as": h}, {})
        return h

    def bundle_at(self, c, i):
        b = list(self.conts[c].bundles)[i]
        for h, o in self.conts.items():
            if o is b:
                return h
        h = self.bind_cont(b)
        self.emit({"op": "bundle_at", "c": c, "i": i, "as": h}, {})
        return h

    def unified(self, c):
        op = {"op": "unified", "c": c}
        try:
            u = self.conts[c].unified()
            err = None
        except Exception as e:  # noqa
            u = None
            err = e
        h = None
        if u is not None:
            h = self.bind_cont(u)
            op["as"] = h
        self.emit(op, {"err": err_name(err)})
        return h, err

    def flattened(self, c):
        op = {"op": "flattened", "c": c}
        try:
            f = self.conts[c].flattened()
            err = None
        except Exception as e:  # noqa
            f = None
            err = e
        h = None
        out = {"err": err_name(err)}
        if f is not None:
            same = f is self.conts[c]
            out["same"] = same
            if same:
                h = c
                op["as"] = self.fresh()  # unused alias keeps both sides in step
                self.conts[op["as"]] = f
            else:
                h = self.bind_cont(f)
                op["as"] = h
        self.emit(op, out)
        return h, err

    def update(self, c, o):
        op = {"op": "update", "c": c, "o": o}
        try:
            self.conts[c].update(self.conts[o])
            err = None
        except Exception as e:  # noqa
            err = e
        self.emit(op, {"err": err_name(err)})
        return err

    def add_bundle(self, d, b, ident=None):
        bobj = self.conts[b]
        order = [[n.prefix, n.uri] for n in bobj.namespaces] if bobj.is_document() else []
        op = {"op": "add_bundle", "d": d, "b": b, "id": proto.enc_name(ident), "ns_order": order}
        try:
            self.conts[d].add_bundle(bobj, ident)
            err = None
        except Exception as e:  # noqa
            err = e
        self.emit(op, {"err": err_name(err)})
        return err

    def bundle(self, d, ident):
        op = {"op": "bundle", "d": d, "id": proto.enc_name(ident)}
        try:
            b = self.conts[d].bundle(ident)
            err = None
        except Exception as e:  # noqa
            b = None
            err = e
        h = None
        if b is not None:
            h = self.bind_cont(b)
            op["as"] = h
        self.emit(op, {"err": err_name(err)})
        return h, err

    def eq(self, a, b):
        res = self.conts[a] == self.conts[b]
        self.emit({"op": "eq", "a": a, "b": b}, {"eq": bool(res)})
        return res

    def rec_eq(self, a, b):
        res = self.recs[a] == self.recs[b]
        self.emit({"op": "rec_eq", "a": a, "b": b}, {"eq": bool(res)})
        return res

    def rec_hash(self, a, b):
        """do the two records hash alike? (compared one way only: see diff_outputs)"""
        res = hash(self.recs[a]) == hash(self.recs[b])
        self.emit({"op": "rec_hash", "a": a, "b": b}, {"heq": bool(res)})
        return res

    def enc_json(self, c, **kwargs):
        """writer channel: the tree the implementation's PROV-JSON writer emits (after json.loads)"""
        from . import jsontree
        try:
            text = self.conts[c].serialize(format="json", **kwargs)
            tree = jsontree.loads_ordered(text)
            out = {"tree": jsontree.canon_ordered(tree)}
        except Exception as e:  # noqa
            text = None
            out = {"tree": None, "err": err_name(e)}
        self.emit({"op": "enc_json", "c": c}, out)
        return text

    def dec_json(self, text):
        """reader channel: the same JSON text to the implementation's reader and (as a tree) to the model's"""
        from . import jsontree
        tree = jsontree.loads_ordered(text)
        op = {"op": "dec_json", "tree": jsontree.to_tagged(tree)}
        try:
            d = ProvDocument.deserialize(content=text, format="json")
            err = None
        except Exception as e:  # noqa
            d = None
            err = e
        h = None
        if d is not None:
            h = self.bind_cont(d)
            op["as"] = h
        self.emit(op, {"err": err_name(err)})
        return h, err

    def enc_rdf(self, c):
        """writer channel: the quads the implementation's PROV-O writer puts into its ConjunctiveGraph"""
        from . import rdfgraph
        from prov.serializers.provrdf import ProvRDFSerializer
        try:
            doc = self.conts[c]
            container = ProvRDFSerializer(doc).encode_document(doc)
            out = {"graphs": rdfgraph.canon_quads(rdfgraph.quads_of(container))}
        except Exception as e:  # noqa
            out = {"graphs": None, "err": err_name(e)}
        self.emit({"op": "enc_rdf", "c": c}, out)
        return out

    def dec_rdf(self, text=None, container=None, rdf_format="trig"):
        """reader channel: one rdflib graph to the implementation's reader and, in the order rdflib iterates it, to the model's"""
        from . import rdfgraph
        from rdflib.graph import ConjunctiveGraph
        from prov.serializers.provrdf import ProvRDFSerializer
        import logging
        import warnings
        if container is None:
            container = ConjunctiveGraph()
            logging.disable(logging.CRITICAL)       # rdflib logs every literal it cannot convert, with a traceback
            try:
                with warnings.catch_warnings():
                    warnings.simplefilter("ignore")
                    container.parse(data=text, format=rdf_format)
            finally:
                logging.disable(logging.NOTSET)
        logging.disable(logging.CRITICAL)
        try:
            op = dict(rdfgraph.reader_view(container), op="dec_rdf")
        finally:
            logging.disable(logging.NOTSET)
        ser = ProvRDFSerializer()
        d = ProvDocument()
        ser.document = d
        logging.disable(logging.CRITICAL)
        try:
            with warnings.catch_warnings():
                warnings.simplefilter("ignore")
                ser.decode_document(container, d)
            err = None
        except Exception as e:  # noqa
            err = e
            d = None
        finally:
            logging.disable(logging.NOTSET)
        h = None
        if d is not None:
            h = self.bind_cont(d)
            op["as"] = h
        self.emit(op, {"err": err_name(err)})
        return h, err

    def enc_xml(self, c, force_types=False):
        """writer channel: infoset of the PROV-XML text the implementation emits"""
        from . import xmltree
        try:
            text = self.conts[c].serialize(format="xml", force_types=force_types)
            out = {"tree": xmltree.canon_with_bundle_ns(xmltree.dump(xmltree.parse(text)))}
        except Exception as e:  # noqa
            text = None
            out = {"tree": None, "err": err_name(e)}
        self.emit({"op": "enc_xml", "c": c, "ft": bool(force_types)}, out)
        return text

    def dec_xml(self, text):
        """reader channel: the same XML (as an infoset tree) to the implementation's reader and the model's"""
        from . import xmltree
        tree = xmltree.dump(xmltree.parse(text))
        hints = [{"lex": k, "f": v} for k, v in xmltree.double_hints(tree).items()]
        op = {"op": "dec_xml", "tree": tree, "hints": hints}
        try:
            d = ProvDocument.deserialize(content=text, format="xml")
            err = None
        except Exception as e:  # noqa
            d = None
            err = e
        h = None
        if d is not None:
            h = self.bind_cont(d)
            op["as"] = h
        self.emit(op, {"err": err_name(err)})
        return h, err

    def graph_roundtrip(self, c):
        """prov_to_graph then graph_to_prov; observation = nodes, edges (canonical) and the resulting document"""
        from prov.graph import prov_to_graph, graph_to_prov
        from prov.model import ProvRecord
        op = {"op": "graph_roundtrip", "c": c}
        try:
            g = prov_to_graph(self.conts[c])

            def nj(n):
                return [n.bundle is not None, n.get_type().localpart, n.identifier.uri]
            nodes = [nj(n) for n in g.nodes()]
            edges = []
            for (u, v, data) in g.edges(data=True):
                edges.append([nj(u), nj(v), proto.canon_record(data["relation"])])
            back = graph_to_prov(g)
            err = None
        except Exception as e:  # noqa
            g = back = None
            err = e
        out = {"err": err_name(err)}
        h = None
        if err is None:
            out["nodes"] = nodes
            out["edges"] = sorted(edges, key=proto.skey)
            h = self.bind_cont(back)
            op["as"] = h
        self.emit(op, out)
        return g, h, err

    def to_dot(self, c, **opts):
        """prov_to_dot -> pydot text -> Graphviz (dot -Tdot_json) -> canonical structure"""
        from prov.dot import prov_to_dot
        from . import dotjson
        op = {"op": "to_dot", "c": c, "nary": bool(opts.get("show_nary", True)), "labels": bool(opts.get("use_labels", False)),
              "eattrs": bool(opts.get("show_element_attributes", True)), "rattrs": bool(opts.get("show_relation_attributes", True))}
        text = None
        try:
            text = prov_to_dot(self.conts[c], **opts).to_string()
            ok, res = dotjson.run_dot(text)
            out = {"graph": dotjson.canon_from_graphviz(res)} if ok else {"graph": None, "graphviz_error": res[:300]}
            if ok and opts.get("use_labels"):
                # an element with a prov:label value that *is* its identifier (same URI, spelled differently: an xsd:anyURI, or a
                # name under another prefix) is drawn with that spelling and no subtitle when Python's set order serves that value
                # first; which of several labels comes first is not a function of the document (Identifier hashes its class)
                alts = {}
                cobj = self.conts[c]
                for scope in [cobj] + (list(cobj.bundles) if cobj.is_document() else []):
                    for r in scope.records:
                        if r.is_element() and r.identifier is not None:
                            for v in r.get_attribute(PROV["label"]):
                                if isinstance(v, Identifier) and v.uri == r.identifier.uri and str(v) != str(r.identifier):
                                    alts.setdefault(r.identifier.uri, []).append(str(v))
                if alts:
                    out["label_alts"] = alts
        except Exception as e:  # noqa
            out = {"graph": None, "err": err_name(e)}
        self.emit(op, out)
        return text, out

    def provn(self, c):
        """printer channel: the exact PROV-N text"""
        try:
            out = {"text": self.conts[c].get_provn()}
        except Exception as e:  # noqa
            out = {"text": None, "err": err_name(e)}
        self.emit({"op": "provn", "c": c}, out)
        return out["text"]

    def provn_rec(self, r):
        try:
            out = {"text": self.recs[r].get_provn()}
        except Exception as e:  # noqa
            out = {"text": None, "err": err_name(e)}
        self.emit({"op": "provn_rec", "r": r}, out)
        return out["text"]

    def obs(self, c):
        o = proto.canon_cont(self.conts[c])
        self.emit({"op": "obs", "c": c}, o)
        return o

    def obs_rec(self, r):
        o = proto.canon_record(self.recs[r])
        self.emit({"op": "obs_rec", "r": r}, o)
        return o


def run_model(ops):
    """pipe op lines through the compiled Lean driver, return the parsed result lines"""
    data = "\n".join(json.dumps(o, ensure_ascii=False) for o in ops) + "\n"
    p = subprocess.run([DRIVER], input=data.encode("utf-8"), stdout=subprocess.PIPE,
                       stderr=subprocess.PIPE, timeout=600)
    if p.returncode != 0:
        raise RuntimeError("driver failed: %s" % p.stderr.decode()[:2000])
    # one result per line feed: str.splitlines() would also break at U+0085, U+2028, U+2029, which strings may contain
    lines = p.stdout.decode("utf-8").split("\n")
    if lines and lines[-1] == "":
        lines.pop()
    if len(lines) != len(ops):
        raise RuntimeError("driver returned %d lines for %d ops; last: %s" % (len(lines), len(ops), lines[-1:]))
    return [json.loads(l) for l in lines]


def run_model_batch(ops_lists):
    """one driver process for many independent op scripts (each starts with a reset)"""
    flat = []
    for ops in ops_lists:
        assert ops and ops[0]["op"] == "reset"
        flat.extend(ops)
    if not flat:
        return []
    outs = run_model(flat)
    res = []
    i = 0
    for ops in ops_lists:
        res.append(outs[i:i + len(ops)])
        i += len(ops)
    return res


DIVERGENCES = {"prefix-level": 0}


def _proj_value(c):
    if c[0] == "qn":
        return ["qn", c[1]]
    if c[0] == "lit":
        return ["lit", c[1], c[2][0] if c[2] else None, c[3]]
    return c


def uri_projection(o):
    """URI-level view of an observation: what remains when prefix choices are forgotten"""
    if isinstance(o, dict) and "records" in o:
        return {"doc": o["doc"], "id": o["id"][0] if o["id"] else None,
                "ns": sorted({n[1] for n in o["ns"]}), "default": o["default"],
                "records": [uri_projection(r) for r in o["records"]],
                "bundles": [[b[0][0] if b[0] else None, uri_projection(b[1])] for b in o["bundles"]]}
    if isinstance(o, dict) and "attrs" in o:
        return {"kind": o["kind"], "id": o["id"][0] if o["id"] else None,
                "attrs": sorted(([a[0], _proj_value(a[2])] for a in o["attrs"]), key=proto.skey)}
    if isinstance(o, dict) and "q" in o and o["q"]:
        return {"q": o["q"][0]}
    return o


def logical_lines(text):
    """lines of a PROV-N text, not splitting inside a string literal (a triple-quoted literal may contain newlines)"""
    out, cur, i, n, mode = [], [], 0, len(text), None      # mode: None | '"' | '\"\"\"'
    while i < n:
        ch = text[i]
        if mode is None:
            if text.startswith('\"\"\"', i):
                mode = '\"\"\"'
                cur.append('\"\"\"')
                i += 3
                continue
            if ch == '"':
                mode = '"'
            elif ch == "\n":
                out.append("".join(cur))
                cur = []
                i += 1
                continue
        else:
            if ch == "\\" and i + 1 < n:
                cur.append(text[i:i + 2])
                i += 2
                continue
            if mode == '"' and ch == '"':
                mode = None
            elif mode == '\"\"\"' and text.startswith('\"\"\"', i):
                mode = None
                cur.append('\"\"\"')
                i += 3
                continue
        cur.append(ch)
        i += 1
    out.append("".join(cur))
    return out


_PREFIX_NUMBER = __import__("re").compile(r"\b([A-Za-z][A-Za-z0-9.\-]*?)(?:_\d+)+:")


def _strip_prefix_numbers(obj):
    """the JSON text of `obj` with the numbers the library appends to clashing prefixes removed (`ex_2_1:x` -> `ex:x`)"""
    return _PREFIX_NUMBER.sub(lambda m: m.group(1) + ":", json.dumps(obj, ensure_ascii=False, sort_keys=True))


def diff_outputs(ops, impl_outs, model_outs):
    """first index where implementation and model disagree, else None.
    Observations of containers are compared at prefix level; a difference that vanishes at URI level is an admissible
    divergence (the order in which Python iterates a set of values decides which of two clashing prefixes is renamed):
    it is counted, not reported."""
    for i, (a, b) in enumerate(zip(impl_outs, model_outs)):
        if "fatal" in b:
            return i, "model-fatal: %s" % b["fatal"]
        proto.normalize_model_obs(b)
        if ops[i]["op"] == "rec_hash":
            # the model says whether the arguments of __hash__ are the same for hash(); then the hashes must be equal.
            # Equal hashes of different arguments are collisions (hash(-1) == hash(-2), ...): counted, not reported.
            if b.get("heq") and not a.get("heq"):
                return i, "the model finds the same hash arguments, the implementation's hashes differ"
            if a.get("heq") and not b.get("heq"):
                DIVERGENCES["hash-collision"] = DIVERGENCES.get("hash-collision", 0) + 1
            continue
        if ops[i]["op"] == "to_dot":
            from . import dotjson
            if a.get("graph") is None:
                continue          # Graphviz rejected the text / the exporter raised: judged by the oracle, not comparable
            mb = dotjson.canon_from_model(b)
            defined = mb.pop("defined_in")
            ga = dict(a["graph"])
            if a.get("label_alts"):
                by_name = {n["name"]: n for n in mb["nodes"]}
                nodes = []
                for n in ga["nodes"]:
                    m = by_name.get(n["name"])
                    if m is not None and n["label"] != m["label"] and n["label"] in a["label_alts"].get(n.get("url"), []):
                        n = dict(n, label=m["label"])      # the other admissible drawing of this element
                        DIVERGENCES["dot-label-is-identifier"] = DIVERGENCES.get("dot-label-is-identifier", 0) + 1
                    nodes.append(n)
                ga["nodes"] = sorted(nodes, key=proto.skey)       # (the canonical order is by content: the label is part of it)
            mem = ga.pop("members", {})
            # every node the model defines inside a cluster must be a member of that cluster in Graphviz's view
            ok_members = all(set(v) <= set(mem.get(k, [])) for k, v in defined.items())
            a = {"graph": ga, "members_ok": True}
            b = {"graph": mb, "members_ok": ok_members}
            if a != b and _strip_prefix_numbers(a) == _strip_prefix_numbers(b):
                # the drawings differ only in which of two clashing prefixes received which number (`ex_1` / `ex_2`) while the
                # document was unified for drawing: decided by the order in which Python iterates a set of attribute values
                # (the admissible prefix-level divergence); every href, node, edge and cluster is the same
                DIVERGENCES["prefix-level"] += 1
                continue
        if ops[i]["op"] == "graph_roundtrip" and "edges" in b:
            for e in b["edges"]:
                if e is not None:
                    proto.normalize_model_obs(e[2])
            b = dict(b, edges=sorted(b["edges"], key=proto.skey))
        if ops[i]["op"] == "enc_xml" and b.get("tree") is not None:
            from . import xmltree
            b = {"tree": xmltree.canon_with_bundle_ns(b["tree"])}
            if a.get("tree") is None:
                continue      # the implementation's writer raised (name not expressible in XML): not comparable
        if ops[i]["op"] == "enc_rdf":
            if b.get("graphs") is None or a.get("graphs") is None:
                DIVERGENCES["rdf-writer-outside-model"] = DIVERGENCES.get("rdf-writer-outside-model", 0) + 1
                continue          # floats / untyped literals (model) or a writer crash (judged by the oracle)
            from . import rdfgraph
            b = {"graphs": rdfgraph.canon_quads(b["graphs"])}
        if ops[i]["op"] == "dec_rdf" and (b.get("err") or "").startswith("unsupported:"):
            DIVERGENCES["rdf-reader-outside-model"] = DIVERGENCES.get("rdf-reader-outside-model", 0) + 1
            return None           # the document the model did not build cannot be observed any further
        if ops[i]["op"] == "enc_json":
            if b.get("unspecified"):
                continue          # outside the model's envelope (counted by the caller)
            from . import jsontree
            b = {"tree": jsontree.canon_tagged(b["tree"])}
        if a != b and ops[i]["op"] in ("provn", "provn_rec") and a.get("text") is not None and b.get("text") is not None:
            la, lb = logical_lines(a["text"]), logical_lines(b["text"])
            if len(la) == len(lb) and all(sorted(x) == sorted(y) for x, y in zip(la, lb)):
                DIVERGENCES["attribute-order-in-provn"] = DIVERGENCES.get("attribute-order-in-provn", 0) + 1
                continue          # same characters line by line: only the set iteration order of attribute values differs
        if a != b:
            if ops[i]["op"] in ("obs", "obs_rec") and uri_projection(a) == uri_projection(b):
                DIVERGENCES["prefix-level"] += 1
                return None     # later print-form dependent answers of this history are not comparable any more
            return i, "impl=%s model=%s" % (json.dumps(a, ensure_ascii=False)[:1500], json.dumps(b, ensure_ascii=False)[:1500])
    return None

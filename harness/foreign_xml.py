"""Specification-driven generator of PROV-XML texts (built with lxml directly, NOT with the library's writer)
and single-point mutations of the shipped corpus files."""
import copy
import glob
import os

from lxml import etree

from .foreign_json import KIND_FORMALS, ELEMENTS, TIMES

CORPUS = "/repo/src/prov/tests/xml"
PROV = "http://www.w3.org/ns/prov#"
XSD = "http://www.w3.org/2001/XMLSchema"
XSI = "http://www.w3.org/2001/XMLSchema-instance"
XML = "http://www.w3.org/XML/1998/namespace"
TAIL = ["prov:label", "prov:location", "prov:role", "prov:type", "prov:value"]
SUBTYPE_EL = {"agent": [("person", "prov:Person"), ("organization", "prov:Organization"), ("softwareAgent", "prov:SoftwareAgent")],
              "entity": [("plan", "prov:Plan"), ("collection", "prov:Collection"), ("emptyCollection", "prov:EmptyCollection"), ("bundle", "prov:Bundle")],
              "wasDerivedFrom": [("wasRevisionOf", "prov:Revision"), ("wasQuotedFrom", "prov:Quotation"), ("hadPrimarySource", "prov:PrimarySource")]}


def q(tag, nsmap):
    p, l = tag.split(":", 1)
    return "{%s}%s" % (nsmap[p], l)


class ForeignXmlGen:
    def __init__(self, g):
        self.g = g
        self.r = g.rng

    def name(self, prefixes, default, text=False):
        r = self.r
        # (text: the name is attribute or element *text* — prov:id, prov:ref, xsd:QName content —, where a percent-escape is legal)
        loc = r.choice(["e1", "e2", "a1", "ag1", "x", "y.z", "n-1"] + (["rep%20v"] if text else [])) + str(r.randint(0, 3))
        if default and r.random() < getattr(self, "bare_p", 0.2):
            return loc
        return r.choice(prefixes) + ":" + loc

    def time(self):
        t = self.g.dt()
        if t.year < 1000:
            t = t.replace(year=2000 + t.year % 20)
        return t.isoformat()

    def value_child(self, parent, tag, nsmap, prefixes, default):
        """append one attribute element with a value in a randomly chosen spelling"""
        r = self.r
        local = None
        if tag != "prov:label" and r.random() < 0.08:
            # the attribute element re-declares a prefix of its ancestors with another namespace URI
            local = {"ex": "http://redeclared.example/ns#"}
        el = etree.SubElement(parent, q(tag, nsmap), nsmap=local)
        if local is not None:
            if r.random() < 0.5:
                el.set("{%s}type" % XSI, "ex:custom"); el.text = "abc"
            else:
                el.set("{%s}type" % XSI, "xsd:QName"); el.text = "ex:thing"
            return
        if tag == "prov:label":
            if r.random() < 0.4:
                el.set("{%s}lang" % XML, r.choice(["en", "fr"]))
            el.text = r.choice(["a label", "étiquette", "x < y & z", "  padded label\n"])
            return
        k = r.random()
        if k < 0.25:
            el.text = r.choice(["plain text", "", "with \"quotes\"", "ünï", "multi\nline", "  padded on both sides\n", " ", "\ttab first",
                                "Cafe\u0301 \u212b"])
        elif k < 0.35:
            el.set("{%s}type" % XSI, "xsd:string"); el.text = r.choice(["typed string", ""])
        elif k < 0.47:
            el.set("{%s}type" % XSI, r.choice(["xsd:int", "xsd:long"])); el.text = str(r.choice([5, -1, 2 ** 40]))
        elif k < 0.55:
            el.set("{%s}type" % XSI, "xsd:double"); el.text = r.choice(["1.5", "0.1", "2.0E3"])
        elif k < 0.62:
            el.set("{%s}type" % XSI, "xsd:boolean"); el.text = r.choice(["true", "false", "1", "0"])
        elif k < 0.69:
            el.set("{%s}type" % XSI, "xsd:dateTime"); el.text = self.time()
        elif k < 0.76:
            el.set("{%s}type" % XSI, "xsd:anyURI"); el.text = "http://example.org/some/uri"
        elif k < 0.86:
            el.set("{%s}type" % XSI, "xsd:QName"); el.text = self.name(prefixes, default, text=True)
        elif k < 0.92:
            el.set("{%s}lang" % XML, r.choice(["en", "fr"])); el.text = r.choice(["bonjour", "hello", " hello \n"])
        else:
            el.set("{%s}type" % XSI, r.choice([prefixes[0] + ":custom", prefixes[-1] + ":custom", "xsd:gYear", "xsd:float"])); el.text = "abc"

    def record(self, parent, kind, nsmap, prefixes, default):
        r = self.r
        label = kind
        if kind in SUBTYPE_EL and r.random() < 0.3:
            label, _t = r.choice(SUBTYPE_EL[kind])
        local = None
        if r.random() < 0.15:
            # the record element declares a default namespace of its own (xmlns="…"): one the document already binds to a prefix,
            # the enclosing default once more, or yet another one; several bare names are then read inside it
            local = r.choice([nsmap["ex"], nsmap["ex"], "http://default.example/", "http://second-default.example/",
                              "http://third-default.example/", "http://fourth-default.example/"])
        el = etree.SubElement(parent, q("prov:" + label, nsmap), nsmap=({None: local} if local else None))
        if local:
            default = True
            self.bare_p = 0.7
            try:
                return self._record_body(el, kind, label, nsmap, prefixes, default)
            finally:
                self.bare_p = 0.2
        return self._record_body(el, kind, label, nsmap, prefixes, default)

    def _record_body(self, el, kind, label, nsmap, prefixes, default):
        r = self.r
        if kind in ELEMENTS or r.random() < 0.4:
            el.set("{%s}id" % PROV, self.name(prefixes, default, text=True))
        if r.random() < 0.1:
            el.set("{%s}type" % XSI, self.name(prefixes, default))        # xsi:type on the record element
        for i, f in enumerate(KIND_FORMALS[kind]):
            if kind not in ELEMENTS and i < 2 or r.random() < 0.5:
                c = etree.SubElement(el, q(f, nsmap))
                if f in TIMES:
                    c.text = self.time()
                else:
                    c.set("{%s}ref" % PROV, self.name(prefixes, default, text=True))
        tails = [t for t in TAIL if r.random() < 0.3]
        second = None
        if label != kind and r.random() < 0.5:
            # a second PROV subtype of the same base class, as a prov:type child of a subtype element
            second = r.choice([t for (_l, t) in SUBTYPE_EL[kind]])
            if "prov:type" not in tails:
                tails = [t for t in TAIL if t in tails or t == "prov:type"]
        for t in tails:
            if t == "prov:type" and second is not None:
                c = etree.SubElement(el, q("prov:type", nsmap))
                c.set("{%s}type" % XSI, "xsd:QName")
                c.text = second
            for _ in range(2 if r.random() < 0.2 else 1):
                self.value_child(el, t, nsmap, prefixes, default)
        others = sorted(self.name([p for p in prefixes], False) for _ in range(r.randint(0, 2)))
        for o in others:
            self.value_child(el, o, nsmap, prefixes, default)

    def document(self):
        r = self.r
        nsmap = {"prov": PROV, "xsd": XSD, "xsi": XSI, "ex": "http://example.org/", "tr": "http://www.w3.org/TR/2011/"}
        default = r.random() < 0.3
        lmap = dict(nsmap)
        if default:
            lmap[None] = "http://default.example/"
        prefixes = ["ex", "tr"]
        if r.random() < 0.3:
            # a second prefix for a namespace URI that already has one
            nsmap["ty"] = nsmap["ex"]
            lmap["ty"] = nsmap["ex"]
            prefixes.append("ty")
        root = etree.Element(q("prov:document", nsmap), nsmap=lmap)
        for _ in range(r.randint(1, 5)):
            self.record(root, r.choice(list(KIND_FORMALS)), nsmap, prefixes, default)
        for i in range(r.choice([0, 0, 1, 2])):
            bmap = {}
            bp = list(prefixes)
            bns = dict(nsmap)
            if r.random() < 0.5:
                bmap["bp%d" % i] = "http://bundle%d.example/" % i
                bns["bp%d" % i] = bmap["bp%d" % i]
                bp.append("bp%d" % i)
            if r.random() < 0.3:
                # the bundle re-binds a prefix of the document to another namespace
                bmap["tr"] = "http://bundle%d.example/tr#" % i
                bns["tr"] = bmap["tr"]
            bdefault = default
            if r.random() < 0.25:
                bmap[None] = "http://bundle-default.example/"
                bdefault = True
            b = etree.SubElement(root, q("prov:bundleContent", nsmap), nsmap=bmap)
            # named in the *document's* scope, under any of its prefixes (an earlier bundle may have bound that prefix to something
            # else for its own content; that is none of this bundle's business)
            b.set("{%s}id" % PROV, "%s:bundle%d" % (r.choice(prefixes) if r.random() < 0.5 else "ex", i))
            for _ in range(r.randint(1, 3)):
                self.record(b, r.choice(list(KIND_FORMALS)), bns, bp, bdefault)
        if r.random() < 0.12:
            # two more bundles: the first binds a document prefix (or the default namespace) to something of its own; the second
            # is *named* under the document's binding of that prefix and uses it nowhere else
            shadow = r.choice(["tr", "ex", None])
            m1 = {shadow: "http://shadowing-bundle.example/ns#"} if shadow is not None or not default else {None: "http://shadowing-bundle.example/ns#"}
            if shadow is None and default:
                m1 = {None: "http://shadowing-bundle.example/ns#"}
            elif shadow is None:
                m1 = {"tr": "http://shadowing-bundle.example/ns#"}
                shadow = "tr"
            b1 = etree.SubElement(root, q("prov:bundleContent", nsmap), nsmap=m1)
            other = "ex" if shadow != "ex" else "tr"
            b1.set("{%s}id" % PROV, "%s:shadowing" % other)
            ns1 = dict(nsmap)
            if shadow is not None:
                ns1[shadow] = m1[shadow]
            self.record(b1, "entity", ns1, [p_ for p_ in prefixes if p_ != "ty"], default or (None in m1))
            b2 = etree.SubElement(root, q("prov:bundleContent", nsmap))
            b2.set("{%s}id" % PROV, ("%s:after-shadow" % shadow) if shadow is not None else "after-shadow")
            self.record(b2, "entity", nsmap, [other], False)
        text = etree.tostring(root, xml_declaration=True, encoding="UTF-8", pretty_print=r.random() < 0.5).decode("utf-8")
        if r.random() < 0.08 and "ENTITYMARK" not in text:
            # an internal DTD subset with a general entity, used inside a value: well-formed XML that means the replacement text
            marks = [m for m in (">plain text<", ">a label<", ">typed string<", ">hello<", ">bonjour<") if m in text]
            if marks:
                m = marks[0]
                text = text.replace(m, ">Report by &who; (draft)<", 1)
                text = text.replace("?>", '?>\n<!DOCTYPE prov:document [<!ENTITY who "Alice &amp; Bob">]>', 1)
        return text


def corpus_files():
    return sorted(glob.glob(os.path.join(CORPUS, "*.xml")))


MUTATIONS = ["none", "rename-prefix", "move-decl-to-child", "retype-string", "drop-xsi-type-string", "add-comment"]


def mutate(g, text, how):
    """single-point mutation of a corpus PROV-XML text; returns (text, applied?)"""
    r = g.rng
    try:
        root = etree.fromstring(text.encode("utf-8") if isinstance(text, str) else text)
    except etree.XMLSyntaxError:
        return text, False
    if how == "none":
        return etree.tostring(root, encoding="unicode"), True
    if how == "add-comment":
        root.insert(0, etree.Comment(" a comment "))
        return etree.tostring(root, encoding="unicode"), True
    if how == "rename-prefix":
        cands = [p for p in root.nsmap if p not in (None, "prov", "xsd", "xsi", "xml")]
        if not cands:
            return text, False
        old = r.choice(cands)
        # only safe when no descendant re-declares the prefix
        for el in root.iter():
            if el is not root and isinstance(el.tag, str) and old in el.nsmap and el.nsmap[old] != root.nsmap[old]:
                return text, False
        s = etree.tostring(root, encoding="unicode")
        new = "rn" + old
        s2 = s.replace("xmlns:%s=" % old, "xmlns:%s=" % new).replace("<%s:" % old, "<%s:" % new).replace("</%s:" % old, "</%s:" % new)
        s2 = s2.replace('"%s:' % old, '"%s:' % new).replace(">%s:" % old, ">%s:" % new)
        return s2, s2 != s
    if how in ("retype-string", "drop-xsi-type-string"):
        els = [e for e in root.iter() if isinstance(e.tag, str) and len(e) == 0 and e.getparent() is not None
               and e.getparent() is not root and not e.get("{%s}ref" % PROV)]
        r.shuffle(els)
        for e in els:
            t = e.get("{%s}type" % XSI)
            if how == "retype-string" and t is None and not e.get("{%s}lang" % XML) and not e.tag.endswith("}label") \
                    and not e.tag.endswith("ime"):
                e.set("{%s}type" % XSI, "xsd:string")
                return etree.tostring(root, encoding="unicode"), True
            if how == "drop-xsi-type-string" and t == "xsd:string":
                del e.attrib["{%s}type" % XSI]
                return etree.tostring(root, encoding="unicode"), True
        return text, False
    if how == "move-decl-to-child":
        return text, False
    return text, False

#!/usr/bin/env python3
"""Per-function fingerprints of the library source (AST without positions, docstrings ignored).

    tools/fingerprint.py            print the fingerprints of /repo's working tree as JSON
    tools/fingerprint.py --write    rewrite fingerprints.json (the tree the model and the theorems were last aligned with)

The checks compare the working tree with fingerprints.json on every run: where a function differs, the model may no longer mirror the
code, so the correspondence and the failing-input search run with four times as many cases (the verdict logic is unchanged)."""
import ast
import hashlib
import json
import os
import sys

VERIF = os.path.dirname(os.path.dirname(os.path.abspath(__file__)))


def source_root():
    import prov
    return os.path.dirname(os.path.abspath(prov.__file__))


def _strip_doc(node):
    body = getattr(node, "body", None)
    if isinstance(body, list) and body and isinstance(body[0], ast.Expr) and isinstance(getattr(body[0], "value", None), ast.Constant) \
            and isinstance(body[0].value.value, str):
        node.body = body[1:] or [ast.Pass()]


def fingerprints(root=None):
    root = root or source_root()
    out = {}
    for dirpath, dirs, files in os.walk(root):
        dirs[:] = [d for d in dirs if d not in ("tests", "__pycache__", "scripts")]
        for f in sorted(files):
            if not f.endswith(".py"):
                continue
            p = os.path.join(dirpath, f)
            rel = os.path.relpath(p, root)
            try:
                tree = ast.parse(open(p, encoding="utf-8").read())
            except SyntaxError:
                out[rel] = {"<syntax-error>": "x"}
                continue
            entry = {}

            def visit(node, prefix):
                rest = []
                for ch in getattr(node, "body", []):
                    if isinstance(ch, (ast.FunctionDef, ast.AsyncFunctionDef)):
                        _strip_doc(ch)
                        entry[prefix + ch.name] = hashlib.sha1(ast.dump(ch, include_attributes=False).encode()).hexdigest()[:12]
                    elif isinstance(ch, ast.ClassDef):
                        _strip_doc(ch)
                        visit(ch, prefix + ch.name + ".")
                        rest.append(ast.dump(ast.ClassDef(name=ch.name, bases=ch.bases, keywords=ch.keywords, body=[
                            x for x in ch.body if not isinstance(x, (ast.FunctionDef, ast.AsyncFunctionDef, ast.ClassDef))] or [ast.Pass()],
                            decorator_list=ch.decorator_list), include_attributes=False))
                    else:
                        rest.append(ast.dump(ch, include_attributes=False))
                entry[prefix + "<body>"] = hashlib.sha1("\n".join(rest).encode()).hexdigest()[:12]
            _strip_doc(tree)
            visit(tree, "")
            out[rel] = entry
    return out


def changed_since_baseline():
    """list of 'file:function' whose fingerprint differs from fingerprints.json (added and removed functions included)"""
    p = os.path.join(VERIF, "fingerprints.json")
    if not os.path.exists(p):
        return []
    base = json.load(open(p))
    cur = fingerprints()
    out = []
    for f in sorted(set(base) | set(cur)):
        b, c = base.get(f, {}), cur.get(f, {})
        for k in sorted(set(b) | set(c)):
            if b.get(k) != c.get(k):
                out.append("%s:%s" % (f, k))
    return out


if __name__ == "__main__":
    if "--write" in sys.argv:
        json.dump(fingerprints(), open(os.path.join(VERIF, "fingerprints.json"), "w"), indent=1, sort_keys=True)
        print("fingerprints.json written")
    elif "--changed" in sys.argv:
        print("\n".join(changed_since_baseline()))
    else:
        print(json.dumps(fingerprints(), indent=1, sort_keys=True))

"""C14 — graph conversion mirrors the document and converts back to its unified form."""
import json
from collections import Counter

from prov.identifier import QualifiedName
from prov.model import ProvDocument, ProvElement, ProvRelation

from ..world import World
from ..gen import Gen, ELEMENT_KINDS
from ..docgen import DocBuilder
from ..runner import Failure
from ..common import batched, generic_replay
from .. import proto

PROVU = "http://www.w3.org/ns/prov#"
# written from the PROV-DM definitions of each relation's first two arguments (independent of graph.py's table)
ENDPOINT_KIND = {"entity": "Entity", "activity": "Activity", "agent": "Agent", "trigger": "Entity", "generatedEntity": "Entity",
                 "usedEntity": "Entity", "delegate": "Agent", "responsible": "Agent", "specificEntity": "Entity",
                 "generalEntity": "Entity", "alternate1": "Entity", "alternate2": "Entity", "collection": "Entity",
                 "informed": "Activity", "informant": "Activity"}

META = {
    "level": "proof",
    "rule": "bundle-free documents (declared and undeclared endpoints, repeated identifiers, parallel relations, self-loops, relations "
            "lacking an endpoint); prov_to_graph is compared with an independent specification of nodes and edges computed from the "
            "unified document, graph_to_prov of the graph with the unified document restricted to elements and the kept relations; the "
            "Lean model of both conversions is compared with the real MultiDiGraph. Non-trivial = graph with >= 1 edge and >= 1 inferred "
            "node or parallel edge; distinct by content hash.",
    "assumptions": ["A-EXT: networkx MultiDiGraph is a node set plus an edge multiset iterated in adjacency order"],
    "explanation": "Theorems in Props/C14 about provToGraph's relation loop; node/edge lists compared with the implementation.",
}


def spec_graph(unified):
    """expected nodes and edges from the unified document, by the property's definition.
    returns (declared node multiset, list of edge requirements, set of optional relations (influence with undeclared endpoint))"""
    declared = Counter()
    by_id = {}
    for r in unified.records:
        if isinstance(r, ProvElement):
            declared[(r.get_type().localpart, r.identifier.uri)] += 1
            by_id.setdefault(r.identifier.uri, set()).add(r.get_type().localpart)
    # an undeclared endpoint gets ONE inferred node
    # ("nothing is re-typed"): only a relation that becomes an edge -- both of its first two arguments present -- can give an
    # undeclared endpoint its node, and the first such relation in record order decides the node's kind
    inferable = {}
    for r in unified.records:
        if isinstance(r, ProvRelation):
            pair = r.formal_attributes[:2]
            if any(q is None for (_a, q) in pair):
                continue
            for (a, q) in pair:
                if a.localpart in ENDPOINT_KIND and q.uri not in by_id and q.uri not in inferable:
                    inferable[q.uri] = {ENDPOINT_KIND[a.localpart]}
    edges = []       # (src uri, dst uri, strict relation, allowed src kinds, allowed dst kinds, optional?)
    for r in unified.records:
        if not isinstance(r, ProvRelation):
            continue
        (a1, q1), (a2, q2) = r.formal_attributes[:2]
        if q1 is None or q2 is None:
            continue
        optional = False
        kinds = []
        for a, q in ((a1, q1), (a2, q2)):
            if q.uri in by_id:
                kinds.append(set(by_id[q.uri]))
            elif a.localpart in ENDPOINT_KIND:
                kinds.append(set(inferable[q.uri]))
            else:
                optional = True       # influence with an undeclared endpoint: documented as skipped
                kinds.append(set(inferable.get(q.uri, set())) or set(ELEMENT_KINDS))
        edges.append((q1.uri, q2.uri, proto.skey(proto.strict_record(r)), kinds[0], kinds[1], optional))
    return declared, edges


def make_case(ctx, g, prior=None):
    fails = []
    if prior is None:
        w = World()
        b = DocBuilder(g, w, malformed=0.0, repeat_id=0.45, anon=0.5, foreign=0.05, refused=0.15)
        d, scopes = b.random_document(n_records=g.rng.randint(2, 9), n_bundles=0)
        if g.chance(0.15) and b.cross_kind_cluster(d):
            ctx.count("one-identifier-two-merged-kinds")
    else:
        # second chapter of the same history: the document was changed in place after it had been exported once
        w, b, d, scopes = prior
    doc = w.conts[d]
    try:
        uni = doc.unified()
    except Exception:
        uni = None
    graph, back_h, err = w.graph_roundtrip(d)
    case = {"ops": list(w.ops)}
    ctx.evaluations += 1
    if uni is None:
        if err is None:
            fails.append(Failure("oracle", None, "unified() raises but prov_to_graph succeeded", case))
        return w, fails
    if err is not None:
        fails.append(Failure("oracle", None, "prov_to_graph/graph_to_prov raised %r" % (err,), case))
        return w, fails
    declared, req_edges = spec_graph(uni)
    nodes = list(graph.nodes())
    got_declared = Counter((n.get_type().localpart, n.identifier.uri) for n in nodes if n.bundle is not None)
    inferred = [(n.get_type().localpart, n.identifier.uri) for n in nodes if n.bundle is None]
    if got_declared != declared:
        fails.append(Failure("oracle", None, "declared nodes %s != element records of the unified document %s" % (
            sorted(got_declared.items()), sorted(declared.items())), case))
    if len(set(u for (_k, u) in inferred)) != len(inferred):
        fails.append(Failure("oracle", None, "an undeclared endpoint has more than one inferred node: %s" % (inferred,), case))
    declared_uris = {u for (_k, u) in declared}
    for (_k, u) in inferred:
        if u in declared_uris:
            fails.append(Failure("oracle", None, "node inferred for %s although an element with that identifier is declared" % u, case))
    got_edges = Counter()
    for (u, v, data) in graph.edges(data=True):
        got_edges[(u.identifier.uri, u.get_type().localpart, v.identifier.uri, v.get_type().localpart,
                   proto.skey(proto.strict_record(data["relation"])))] += 1
    remaining = Counter(got_edges)
    kept = []
    for (su, du, rel, sk, dk, optional) in req_edges:
        hit = None
        for key in remaining:
            if remaining[key] > 0 and key[0] == su and key[2] == du and key[4] == rel and key[1] in sk and key[3] in dk:
                hit = key
                break
        if hit is None:
            if not optional:
                fails.append(Failure("oracle", None, "no edge %s -> %s for relation %s" % (su, du, rel[:200]), case))
        else:
            remaining[hit] -= 1
            kept.append(rel)
    extra = [k for k, n in remaining.items() if n > 0]
    if extra:
        fails.append(Failure("oracle", None, "edges that correspond to no relation of the unified document (wrong direction, duplicated or invented): %s" % (
            [(k[0], k[2]) for k in extra][:3],), case))
    used_inferred = {u for (u, v, _d) in graph.edges(data=True) if u.bundle is None} | {v for (u, v, _d) in graph.edges(data=True) if v.bundle is None}
    if len(used_inferred) != len(inferred):
        fails.append(Failure("oracle", None, "an inferred node has no edge", case))
    # graph_to_prov: unified document restricted to elements and kept relations
    back = w.conts[back_h]
    want = Counter(proto.skey(proto.strict_record(r)) for r in uni.records if isinstance(r, ProvElement)) + Counter(kept)
    got = Counter(proto.strict_bag(back))
    if got != want:
        fails.append(Failure("oracle", None, "graph_to_prov: missing %s / unexpected %s" % (
            list((want - got).elements())[:2], list((got - want).elements())[:2]), case))
    w.obs(back_h)
    if got_edges and (inferred or any(n > 1 for n in Counter((k[0], k[2]) for k in got_edges.elements()).values())):
        ctx.nontrivial(w.ops)
    ctx.count("edges", sum(got_edges.values()))
    ctx.count("inferred-nodes", len(inferred))
    ctx.sample({"nodes": len(nodes), "edges": sum(got_edges.values()), "n_ops": len(w.ops)})
    if prior is None and not fails and g.chance(0.25) and b.mutate_in_place([d]):
        ctx.count("changed-after-first-export")
        fails.extend(make_case(ctx, g, prior=(w, b, d, scopes))[1])
    return w, fails


def run(ctx):
    g = Gen(ctx.seed * 1000003 + 14)
    return batched(ctx, ctx.n(500, 5000), lambda: make_case(ctx, g))


def oracle_only(ctx):
    g = Gen(ctx.seed * 1000003 + 14)
    return [f for f in batched(ctx, ctx.n(500, 5000), lambda: make_case(ctx, g), use_model=False) if f.kind == "oracle"]


def replay(ctx, case):
    """re-run the ops (the last one is the graph round trip) and re-judge with the specification"""
    from .replay_ops import replay_ops
    from ..runner import Ctx
    ops = [o for o in case["ops"] if o["op"] != "graph_roundtrip"]
    w = replay_ops(ops)
    d = next(c for c, o in w.conts.items() if o.is_document())
    fails = []

    class G:  # replay through the same judge by re-using make_case's body is not possible without a generator: inline
        pass
    from prov.graph import prov_to_graph, graph_to_prov
    doc = w.conts[d]
    try:
        uni = doc.unified()
        graph = prov_to_graph(doc)
        back = graph_to_prov(graph)
    except Exception as e:  # noqa
        return [Failure("oracle", case.get("signature"), "conversion raised %r" % (e,), case)]
    declared, req_edges = spec_graph(uni)
    got_declared = Counter((n.get_type().localpart, n.identifier.uri) for n in graph.nodes() if n.bundle is not None)
    if got_declared != declared:
        fails.append(Failure("oracle", case.get("signature"), "declared nodes differ from the unified document's elements", case))
    n_req = len([e for e in req_edges if not e[5]])
    if graph.number_of_edges() < n_req:
        fails.append(Failure("oracle", case.get("signature"), "fewer edges than relations with two endpoints", case))
    return fails

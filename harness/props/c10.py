"""C10 — emitted PROV-JSON and PROV-XML mean the same to an independent reader."""
import json

from prov.model import ProvDocument

from ..world import World
from ..gen import Gen
from ..docgen import DocBuilder
from ..runner import Failure
from ..common import batched
from .. import proto, specread
from .c01 import unresolvable, OPTION_SETS

META = {
    "level": "proof",
    "rule": "documents from the C01/C02 spaces; the text the library really emits (all json option sets; xml force_types) is parsed to a "
            "tree and read by the Lean specification readers, which share no code or tables with the library; the abstract document "
            "they recover is compared (strict, URI-level, kind-aware, per bundle multiset) with the source. Non-trivial = document with "
            ">= 2 records; distinct by content hash.",
    "assumptions": ["A-JSONTEXT / A-XMLTEXT: the text layer (json, lxml) round-trips trees",
                    "the spec readers are transcriptions of the PROV-JSON submission and the PROV-XML note made by hand (trusted reading)"],
    "explanation": "Table obligations T6 (spec tables = code tables) in Props/C10 + the spec readers executed on the real output.",
}


def make_batch_xml(ctx, g, n):
    docs = []
    fails = []
    for _ in range(n):
        w = World()
        b = DocBuilder(g, w, malformed=0.0, repeat_id=0.2, xml=True, subtypes=0.3, refused=0.15, reinstant=0.15, builtin_names=0.05)
        d, scopes = b.random_document(n_records=g.rng.randint(1, 8))
        doc = w.conts[d]
        ft = g.chance(0.5)
        w.exported_after = None
        if g.chance(0.2):
            # second chapter: written once, changed in place, and only then written for the record
            w.exported_after = len(w.ops)
            try:
                doc.serialize(format="xml", force_types=g.chance(0.5))
            except Exception:  # noqa
                pass
            if b.mutate_in_place([d]):
                ctx.count("changed-after-first-export")
        try:
            text = doc.serialize(format="xml", force_types=ft)
        except Exception as e:  # noqa: a name that XML cannot express
            ctx.count("xml-writer-raised")
            continue
        try:
            jtext = doc.serialize(format="json")       # the same document at the same moment, in the other format
        except Exception:  # noqa
            jtext = None
        docs.append((w, doc, ft, text, jtext))
        ctx.evaluations += 1
        if len(doc.records) >= 2:
            ctx.nontrivial(w.ops)
    abs_docs = specread.spec_read_xml_texts([t for (_w, _d, _o, t, _j) in docs])
    jdocs = [(i, j) for i, (_w, _d, _o, _t, j) in enumerate(docs) if j is not None]
    abs_json = dict(zip([i for (i, _j) in jdocs], specread.spec_read_json_texts([j for (_i, j) in jdocs]))) if jdocs else {}
    ctx.model_ops += len(docs)
    for i, ((w, doc, ft, text, jtext), got) in enumerate(zip(docs, abs_docs)):
        want = proto.strict_doc(doc)
        ctx.sample({"xml": text[:200]})
        gj = abs_json.get(i)
        if (got is not None and not isinstance(got, tuple) and gj is not None and not isinstance(gj, tuple)
                and got != gj and got == want):
            # each format agrees with *some* reading of the document, but not with the same one
            ctx.count("xml-json-disagree")
            fails.append(Failure("oracle", "C10:name-not-resolvable-in-scope" if unresolvable(doc) else None,
                                 "the specification readers recover different content from the PROV-XML and the PROV-JSON "
                                 "written for one document at one moment", {"ops": list(w.ops), "ft": ft, "format": "xml+json",
                                                                            "exported_after": w.exported_after}))
            continue
        if got == want:
            continue
        bad = unresolvable(doc)
        sig = "C10:name-not-resolvable-in-scope" if bad else None
        if isinstance(got, tuple):
            why = "spec reader crashed: %s" % (got[1],)
        elif got is None:
            why = "the specification reader rejects the emitted PROV-XML (unknown element, unreadable name or children out of schema order)"
        else:
            why = "the specification reader recovers different content"
            for k in sorted(set(want) | set(got)):
                if want.get(k) != got.get(k):
                    a, b_ = want.get(k) or [], got.get(k) or []
                    why += " (bundle %r: missing %s / unexpected %s)" % (k, [x for x in a if x not in b_][:1], [x for x in b_ if x not in a][:1])
                    break
        fails.append(Failure("oracle", sig, "xml force_types=%s: %s%s" % (ft, why[:900], (" [unresolvable: %s]" % (bad[:2],)) if bad else ""),
                             {"ops": list(w.ops), "ft": ft, "format": "xml"}))
    return fails


def make_batch(ctx, g, n):
    docs = []
    fails = []
    worlds = []
    for _ in range(n):
        w = World()
        b = DocBuilder(g, w, malformed=0.0, repeat_id=0.25, refused=0.15, reinstant=0.15)
        d, scopes = b.random_document(n_records=g.rng.randint(1, 8))
        doc = w.conts[d]
        opts = g.choice(OPTION_SETS)
        if g.chance(0.2):
            try:
                doc.serialize(format="json", **g.choice(OPTION_SETS))
            except Exception:  # noqa
                pass
            if b.mutate_in_place([d]):
                ctx.count("changed-after-first-export")
        try:
            text = doc.serialize(format="json", **opts)
        except Exception as e:  # noqa
            fails.append(Failure("oracle", None, "serialize(json) raised %r" % (e,), {"ops": list(w.ops)}))
            continue
        docs.append((w, doc, opts, text))
        ctx.evaluations += 1
        if len(doc.records) >= 2:
            ctx.nontrivial(w.ops)
    abs_docs = specread.spec_read_json_texts([t for (_w, _d, _o, t) in docs])
    ctx.model_ops += len(docs)
    for (w, doc, opts, text), got in zip(docs, abs_docs):
        want = proto.strict_doc(doc)
        ctx.sample({"json": text[:200]})
        if got == want:
            continue
        bad = unresolvable(doc)
        sig = "C10:name-not-resolvable-in-scope" if bad else None
        if isinstance(got, tuple):
            why = "spec reader crashed: %s" % (got[1],)
        elif got is None:
            why = "the specification reader rejects the emitted PROV-JSON"
        else:
            why = "the specification reader recovers different content"
            for k in sorted(set(want) | set(got)):
                if want.get(k) != got.get(k):
                    a, b_ = want.get(k) or [], got.get(k) or []
                    why += " (bundle %r: missing %s / unexpected %s)" % (k, [x for x in a if x not in b_][:1], [x for x in b_ if x not in a][:1])
                    break
        fails.append(Failure("oracle", sig, "json %s: %s%s" % (opts, why[:900], (" [unresolvable: %s]" % (bad[:2],)) if bad else ""),
                             {"ops": list(w.ops), "opts": opts, "format": "json"}))
    return fails


def run(ctx):
    g = Gen(ctx.seed * 1000003 + 10)
    fails = []
    total = ctx.n(500, 5000)
    done = 0
    while done < total:
        n = min(100, total - done)
        fails.extend(make_batch(ctx, g, n))
        fails.extend(make_batch_xml(ctx, g, n))
        done += n
    return fails


def oracle_only(ctx):
    return [f for f in run(ctx) if f.kind == "oracle"]


def replay(ctx, case):
    from .replay_ops import replay_ops
    if case.get("format") == "xml+json":
        ops = [o for o in case["ops"] if o["op"] != "obs"]
        k = case.get("exported_after")
        k = len(ops) if k is None else len([o for o in case["ops"][:k] if o["op"] != "obs"])
        w = replay_ops(ops[:k])
        d = next(c for c, o in w.conts.items() if o.is_document())
        doc = w.conts[d]
        if k < len(ops):
            doc.serialize(format="xml")
            replay_ops(ops[k:], w)
        gx = specread.spec_read_xml_texts([doc.serialize(format="xml", force_types=case.get("ft", False))])[0]
        gj = specread.spec_read_json_texts([doc.serialize(format="json")])[0]
        if gx != gj:
            return [Failure("oracle", "C10:name-not-resolvable-in-scope" if unresolvable(doc) else None,
                            "the specification readers recover different content from PROV-XML and PROV-JSON", case)]
        return []
    w = replay_ops(case["ops"])
    d = next(c for c, o in w.conts.items() if o.is_document())
    doc = w.conts[d]
    if case.get("format") == "xml":
        text = doc.serialize(format="xml", force_types=case.get("ft", False))
        got = specread.spec_read_xml_texts([text])[0]
    else:
        text = doc.serialize(format="json", **case.get("opts", {}))
        got = specread.spec_read_json_texts([text])[0]
    if got != proto.strict_doc(doc):
        sig = "C10:name-not-resolvable-in-scope" if unresolvable(doc) else None
        return [Failure("oracle", sig, "the specification reader recovers different content", case)]
    return []

"""C06 — PROV-N output is well-formed and denotes the same document."""
import json

from prov.identifier import Identifier, QualifiedName, Namespace
from prov.model import ProvDocument, Literal

from ..world import World
from ..gen import Gen, FORMALS, ELEMENT_KINDS
from ..docgen import DocBuilder
from ..runner import Failure
from ..common import corr_failures
from .. import proto, specread
from .c01 import unresolvable

META = {
    "level": "proof",
    "rule": "documents whose name local parts need no PROV-N escaping (all 18 kinds, argument masks over the optional positions, "
            "identified/anonymous relations, bundles with own declarations, single- and multi-line strings with quotes, backslashes, CR, "
            "typed and language-tagged literals, ints, floats, booleans, datetimes, URIs, qualified-name values); the real get_provn() "
            "text is parsed by a Lean reader written from the W3C PROV-N grammar and the abstract document compared (strict) with the "
            "source; a second channel compares the model's printer with the real text character for character. Non-trivial = "
            "document with >= 2 records; distinct by content hash.",
    "assumptions": ["A-LEX: float repr / isoformat lexical forms (the reader compares date-times and doubles by value with harness help)",
                    "the PROV-N reader is a hand transcription of the W3C grammar (trusted reading)"],
    "explanation": "Theorems in Props/C06: unescape∘escape = id on arbitrary strings; the printed short string literal lexes back to "
                   "the original string; printer mirrored and compared exactly.",
}

NO_ID_KINDS = ("Alternate", "Specialization", "Mention", "Membership")
MANDATORY = {"Generation": 1, "Usage": 1, "Communication": 2, "Start": 1, "End": 1, "Invalidation": 1, "Derivation": 2,
             "Attribution": 2, "Association": 1, "Delegation": 2, "Influence": 2, "Alternate": 2, "Specialization": 2,
             "Mention": 3, "Membership": 2}
PROVU = "http://www.w3.org/ns/prov#"


def classify(doc):
    """known classes decided on the real document, independent of the reader"""
    for c in [doc] + list(doc.bundles):
        for r in c.records:
            k = r.get_type().localpart
            if k in NO_ID_KINDS and (r.identifier is not None or r.extra_attributes):
                return "C06:no-production-for-identified-binary-relation"
    for c in [doc] + list(doc.bundles):
        for r in c.records:
            k = r.get_type().localpart
            if k in MANDATORY:
                fa = r.formal_attributes
                if any(v is None for (_a, v) in fa[:MANDATORY[k]]):
                    return "C06:mandatory-argument-absent"
    if unresolvable(doc):
        return "C06:name-not-resolvable-in-scope"
    return None


def gen_doc(g, w, rich):
    b = DocBuilder(g, w, malformed=0.0, repeat_id=0.2, dup_formal=0.0, multi=(0.2 if rich else 0.0), plain_binary=0.9, refused=0.15, reinstant=0.15)
    if not rich:
        # at most one extra attribute value per record: the printed text has no set-order freedom
        b.other_attrs = (lambda orig: (lambda c, n=None: orig(c, 1 if g.chance(0.6) else 0)))(b.other_attrs)
    # the first MANDATORY arguments are always given (a relation without them is not expressible in PROV-N)
    orig_formal = b.formal_args

    def formal_args(c, kind, mask_p=0.6):
        args = orig_formal(c, kind, mask_p)
        for i in range(MANDATORY.get(kind, 0)):
            if args[i] is None:
                args[i] = b.ref(c)
        return args
    b.formal_args = formal_args
    d, scopes = b.random_document(n_records=g.rng.randint(1, 7))
    return d, b


def read_only_use(g, doc):
    """reads that must not influence what is printed afterwards (they touch defaultdict-backed slots)"""
    for c in [doc] + list(doc.bundles):
        for r in c.records:
            k = g.rng.random()
            if k < 0.3:
                r.args
            elif k < 0.5:
                r.formal_attributes
            elif k < 0.6:
                r.label
                r.value
            elif k < 0.7 and hasattr(r, "get_startTime"):
                r.get_startTime()
                r.get_endTime()
    if g.chance(0.3):
        try:
            ProvDocument().update(doc)
            doc.flattened()
        except Exception:
            pass


def run(ctx):
    g = Gen(ctx.seed * 1000003 + 6)
    fails = []
    total = ctx.n(500, 5000)
    done = 0
    while done < total:
        n = min(100, total - done)
        done += n
        batch = []
        worlds = []
        for _ in range(n):
            rich = g.chance(0.6)
            w = World()
            d, b = gen_doc(g, w, rich)
            doc = w.conts[d]
            if g.chance(0.25):
                # second chapter: the document is printed once, changed in place, and only then printed for the record
                try:
                    doc.get_provn()
                except Exception:  # noqa
                    pass
                if not rich:
                    w.provn(d)
                if b.mutate_in_place([d], extend_records=rich):
                    ctx.count("changed-after-first-export")
            if not rich:
                w.provn(d)           # exact text correspondence (model printer vs real printer)
            else:
                w.obs(d)             # at least the document's content is compared with the model's
            worlds.append(w)
            if g.chance(0.5):
                read_only_use(g, doc)
            try:
                text = doc.get_provn()
            except Exception as e:  # noqa
                fails.append(Failure("oracle", None, "get_provn raised %r" % (e,), {"ops": list(w.ops)}))
                continue
            # "the PROV-N text produced for any document": the writer registered as format 'provn' hands back the same text
            try:
                text2 = doc.serialize(format="provn")
            except Exception as e:  # noqa
                text2 = None
                fails.append(Failure("oracle", None, "serialize(format='provn') raised %r where get_provn() answers" % (e,), {"ops": list(w.ops)}))
            if text2 is not None and text2 != text:
                k_ = next((i_ for i_ in range(min(len(text), len(text2))) if text[i_] != text2[i_]), min(len(text), len(text2)))
                fails.append(Failure("oracle", None, "serialize(format='provn') returns another text than get_provn() (first difference at "
                                     "offset %d: %r vs %r)" % (k_, text2[k_:k_ + 12], text[k_:k_ + 12]), {"ops": list(w.ops)}))
            batch.append((w, doc, text))
            ctx.evaluations += 1
            if len(doc.records) >= 2:
                ctx.nontrivial(w.ops)
        fails.extend(corr_failures(ctx, worlds))
        specs = specread.spec_read_provn_texts([t for (_w, _d, t) in batch])
        for (w, doc, text), got in zip(batch, specs):
            ctx.sample({"provn": text[:300]})
            want = proto.strict_doc(doc)
            if got == want:
                continue
            sig = classify(doc)
            if sig is not None and getattr(w, "corr_failed", False):
                sig = None          # the model (= the pinned code) does not build this document: not the known finding
            ctx.count("fail:" + str(sig))
            if isinstance(got, tuple):
                why = "the PROV-N reader crashed: %s" % (got[1],)
            elif got is None:
                why = "the text does not parse under the PROV-N grammar"
            else:
                why = "the PROV-N text denotes a different document"
                for k in sorted(set(want) | set(got)):
                    if want.get(k) != got.get(k):
                        a, b_ = want.get(k) or [], got.get(k) or []
                        why += " (bundle %r: missing %s / unexpected %s)" % (k, [x for x in a if x not in b_][:1], [x for x in b_ if x not in a][:1])
                        break
            fails.append(Failure("oracle", sig, why[:1200], {"ops": list(w.ops), "text": text}))
    return fails


def oracle_only(ctx):
    return [f for f in run(ctx) if f.kind == "oracle"]


def replay(ctx, case):
    from .replay_ops import replay_ops
    w = replay_ops([o for o in case["ops"] if o["op"] != "provn"])
    d = next(c for c, o in w.conts.items() if o.is_document())
    doc = w.conts[d]
    got = specread.spec_read_provn_texts([doc.get_provn()])[0]
    if got != proto.strict_doc(doc):
        return [Failure("oracle", classify(doc), "the PROV-N text does not denote the source document", case)]
    return []

"""C13 — exporting never mutates the document and is repeatable."""
import io
import json
import logging

from prov.identifier import Identifier, QualifiedName, Namespace
from prov.model import ProvDocument, ProvBundle

from ..world import World
from ..gen import Gen
from ..docgen import DocBuilder, all_containers
from ..runner import Failure
from ..common import batched, generic_replay
from .. import proto
from .c08 import only_ns_gained, describe_change
from .replay_ops import replay_ops

logging.getLogger("rdflib").setLevel(logging.CRITICAL)
logging.getLogger("prov").setLevel(logging.CRITICAL)

META = {
    "level": "proof",
    "rule": "random documents x random sequences (with repetition) of every exporter and option combination: serialize json "
            "(indent/sort_keys), xml (force_types), provn, rdf; get_provn; prov_to_graph; prov_to_dot (16 option sets x direction); ==; "
            "hash of records; unified(); flattened(). The full observation (content, record order, registered namespaces and default of "
            "every scope) is compared before/after every call; text exports are called twice and on a twin document rebuilt by the same "
            "calls. Non-trivial = document with >= 2 records on which >= 3 different exporters ran; distinct by content hash.",
    "assumptions": ["A-SET: set iteration order is a fixed function of the insertion history within one process",
                    "across processes no repeatability claim is made (property text)"],
    "explanation": "Theorems c13_pure_repeatable, c13_addRecords_frame, c13_flattened_frame (the model's exporters are pure functions "
                   "of the heap; the allocating ones leave every pre-existing cell unchanged).",
}

EXPORTERS = ["json", "json-indent", "json-sort", "xml", "xml-ft", "provn", "get_provn", "rdf", "graph", "dot", "eq", "hash",
             "unified", "flattened"]
TEXT = {"json", "json-indent", "json-sort", "xml", "xml-ft", "provn", "get_provn"}


def run_export(g, doc, name, dot_opts=None, other=None):
    """returns text (for text exporters) or None; exceptions of the exporter itself are returned as ('exc', type)"""
    try:
        if name == "json":
            return doc.serialize(format="json")
        if name == "json-indent":
            return doc.serialize(format="json", indent=2)
        if name == "json-sort":
            return doc.serialize(format="json", sort_keys=True)
        if name == "xml":
            return doc.serialize(format="xml")
        if name == "xml-ft":
            return doc.serialize(format="xml", force_types=True)
        if name == "provn":
            return doc.serialize(format="provn")
        if name == "get_provn":
            return doc.get_provn()
        if name == "rdf":
            return ("rdf", doc.serialize(format="rdf"))
        if name == "graph":
            from prov.graph import prov_to_graph
            prov_to_graph(doc)
            return None
        if name == "dot":
            from prov.dot import prov_to_dot
            prov_to_dot(doc, **(dot_opts or {})).to_string()
            return None
        if name == "eq":
            doc == doc
            doc != ProvDocument()
            if other is not None:
                # comparison reads both operands: the document is looked at from either side of ==, != and in a list search
                doc == other
                other == doc
                other != doc
                [other].index(doc) if other == doc else None
            return None
        if name == "hash":
            for r in doc.get_records():
                hash(r)
            return None
        if name == "unified":
            doc.unified()
            return None
        if name == "flattened":
            doc.flattened()
            return None
    except Exception as e:  # noqa: the exporter's own failure is not C13's subject
        return ("exc", type(e).__name__)
    return None


def rdf_isomorphic(t1, t2):
    import rdflib
    from rdflib.compare import to_isomorphic
    def load(t):
        ds = rdflib.ConjunctiveGraph()
        ds.parse(data=t, format="trig")
        return ds
    try:
        a, b = load(t1), load(t2)
    except Exception:  # rdflib cannot re-read its own output for this document: outside the RDF-expressible domain
        return sorted(t1.splitlines()) == sorted(t2.splitlines()) or None
    ga = {str(c.identifier) if not isinstance(c.identifier, rdflib.BNode) else "": to_isomorphic(c) for c in a.contexts()}
    gb = {str(c.identifier) if not isinstance(c.identifier, rdflib.BNode) else "": to_isomorphic(c) for c in b.contexts()}
    return set(ga) == set(gb) and all(ga[k] == gb[k] for k in ga)


def make_case(ctx, g):
    w = World()
    fails = []
    # half of the cases are biased towards repeated identifiers with overlapping attribute names: that is where
    # unified() -- also called by prov_to_graph and prov_to_dot -- has work to do
    if g.chance(0.5):
        b = DocBuilder(g, w, repeat_id=0.6, malformed=0.0, anon=0.3, multi=0.3, foreign=0.05, redefault=0.25, defaults=0.5, reinstant=0.3)
    else:
        b = DocBuilder(g, w, repeat_id=0.25, malformed=0.0, reinstant=0.3)
    d, scopes = b.random_document(n_records=g.rng.randint(1, 7))
    if g.chance(0.15) and len(scopes) > 1:
        # a bundle that cannot be unified (two statements of one activity that disagree on its start time): unified(), the graph
        # and the DOT drawing of the document meet a refusal half way; the document must come out of it untouched
        import datetime as _dt
        from prov.constants import PROV as _PROV
        c_ = g.choice(scopes[1:])
        q_ = QualifiedName(Namespace("ex", "http://example.org/"), "clash%d" % g.rng.randint(0, 9))
        w.new_record(c_, "Activity", q_, [(_PROV["startTime"], _dt.datetime(2020, 1, 1, 8, 0, 0))])
        w.new_record(c_, "Activity", q_, [(_PROV["startTime"], _dt.datetime(2020, 1, 2, 9, 30, 0))])
        ctx.count("bundle-that-cannot-be-unified")
    if g.chance(0.15) and b.cross_kind_cluster(g.choice(scopes)):
        ctx.count("one-identifier-two-merged-kinds")
    pending = None
    if g.chance(0.12):
        # two anonymous statements that differ by one attribute; after the exports the missing attribute is added, so that the two
        # become one and the same statement: nothing an exporter computed about them before the change may survive it
        EXN = Namespace("ex", "http://example.org/")
        from prov.constants import PROV as _P
        c_ = g.choice(scopes)
        fa = [(_P["activity"], QualifiedName(EXN, "act")), (_P["entity"], QualifiedName(EXN, "ent"))]
        extra = (QualifiedName(EXN, "k"), g.choice([1, "one", True]))
        w.new_record(c_, "Usage", None, fa + [extra])
        h_, _e = w.new_record(c_, "Usage", None, fa)
        if h_ is not None:
            pending = (h_, extra)
            ctx.count("two-statements-made-equal-after-export")
    doc = w.conts[d]
    twin_world = replay_ops(w.ops)
    twin = twin_world.conts[d]
    used = set()
    first_text = {}
    for _ in range(g.rng.randint(2, 6)):
        name = g.choice(EXPORTERS)
        opts = None
        if name == "dot":
            opts = dict(show_nary=g.chance(0.5), use_labels=g.chance(0.5), show_element_attributes=g.chance(0.5),
                        show_relation_attributes=g.chance(0.5), direction=g.choice(["BT", "TB", "LR", "RL", "XX"]))
        before = proto.canon_cont(doc)
        out1 = run_export(g, doc, name, opts, other=(twin if twin_world is not None else None))
        after = proto.canon_cont(doc)
        used.add(name)
        ctx.count("export:" + name)
        case = {"ops": list(w.ops), "export": name, "opts": opts}
        if after != before:
            sig = None
            if name in ("unified", "graph", "dot"):      # prov_to_graph and prov_to_dot call unified()
                sig = only_ns_gained(before, after)
                if sig:
                    sig = sig.replace("C08:", "C13:")
            fails.append(Failure("oracle", sig, "%s changed the document: %s" % (name, describe_change(before, after)), case))
            # re-synchronise the twin so that later comparisons stay meaningful
            twin_world = None
        if isinstance(out1, tuple) and out1[0] == "exc":
            ctx.count("exporter-raised:" + name + ":" + out1[1])
            continue
        if name == "json" and isinstance(out1, str) and "\n" in out1:
            # the text of an export is a function of the document and of the options of *this* call: without `indent` PROV-JSON
            # is one line (line feeds inside strings are escaped), whatever options an earlier call was given
            fails.append(Failure("oracle", None, "json export without options is laid out over several lines: an option of an "
                                 "earlier call is still in force", case))
        if name in TEXT or name == "rdf":
            out2 = run_export(g, doc, name, opts)
            out3 = run_export(g, twin, name, opts) if twin_world is not None else out2
            if name != "rdf" and isinstance(out1, str):
                first_text.setdefault(name, out1)
                if first_text[name] != out1 and twin_world is not None:
                    fails.append(Failure("oracle", None, "%s export differs from the same export made before other exporters ran" % name, case))
            if name == "rdf":
                iso12 = rdf_isomorphic(out1[1], out2[1]) if (isinstance(out2, tuple) and out2[0] == "rdf") else False
                iso13 = rdf_isomorphic(out1[1], out3[1]) if (isinstance(out3, tuple) and out3[0] == "rdf") else False
                if iso12 is None or iso13 is None:
                    ctx.count("rdf-output-not-reparsable")
                elif not iso12:
                    fails.append(Failure("oracle", None, "rdf export called twice gives non-isomorphic graphs", case))
                elif not iso13:
                    fails.append(Failure("oracle", None, "rdf export of an identically built document is not isomorphic", case))
            else:
                if out2 != out1:
                    fails.append(Failure("oracle", None, "%s export called twice gives different text" % name, case))
                elif out3 != out1:
                    fails.append(Failure("oracle", None, "%s export of an identically built document gives different text" % name, case))
    # every text export once more, after all the other exporters have run
    if twin_world is not None:
        for name, t0 in first_text.items():
            again = run_export(g, doc, name)
            if again != t0:
                fails.append(Failure("oracle", None, "%s export changed after other exporters (%s) ran" % (name, sorted(used)),
                                     {"ops": list(w.ops), "export": name, "sequence": sorted(used)}))
    n_before_change = len(w.ops)
    if pending is not None and twin_world is not None and not fails:
        w.add_attrs(pending[0], [pending[1]])
    if twin_world is not None and not fails and ((g.chance(0.3) and b.mutate_in_place([d])) or pending is not None):
        # second chapter: the document is changed in place after it has been through the exporters; a document built afresh
        # by the same operations has never been exported: both must export alike (nothing remembered from before)
        ctx.count("changed-after-first-export")
        fresh = replay_ops(w.ops).conts[d]
        for name in [n for n in EXPORTERS if n in TEXT][:]:
            a = run_export(g, doc, name)
            b_ = run_export(g, fresh, name)
            if isinstance(a, str) and isinstance(b_, str) and a != b_:
                fails.append(Failure("oracle", None, "%s export after an in-place change differs from the export of an identically "
                                     "built document that was never exported before" % name,
                                     {"ops": list(w.ops), "export": name, "sequence": sorted(used), "exported_after": n_before_change}))
    if twin_world is not None:
        w.obs(d)      # (after a mutation by an exporter the model's view of the document is no longer comparable)
    ctx.evaluations += 1
    if len(doc.records) >= 2 and len(used) >= 3:
        ctx.nontrivial(w.ops + [sorted(used)])
    ctx.sample({"exports": sorted(used), "n_ops": len(w.ops)})
    return w, fails


def run(ctx):
    g = Gen(ctx.seed * 1000003 + 13)
    return batched(ctx, ctx.n(250, 2500), lambda: make_case(ctx, g))


def oracle_only(ctx):
    g = Gen(ctx.seed * 1000003 + 13)
    return [f for f in batched(ctx, ctx.n(250, 2500), lambda: make_case(ctx, g), use_model=False) if f.kind == "oracle"]


def replay(ctx, case):
    if "exported_after" in case:
        # a history: build, run the exporters, change in place, export; against the same document never exported before
        k = case["exported_after"]
        ops = [o for o in case["ops"] if o["op"] != "obs"]
        k = len([o for o in case["ops"][:k] if o["op"] != "obs"])
        w = replay_ops(ops[:k])
        d = next(c for c, o in w.conts.items() if o.is_document())
        g = Gen(0)
        for name in case.get("sequence", []):
            run_export(g, w.conts[d], name, None)
        replay_ops(ops[k:], w)
        fresh = replay_ops(ops).conts[d]
        a, b_ = run_export(g, w.conts[d], case["export"]), run_export(g, fresh, case["export"])
        if isinstance(a, str) and isinstance(b_, str) and a != b_:
            return [Failure("oracle", case.get("signature"), "%s export after an in-place change differs from the export of an identically "
                            "built document that was never exported before" % case["export"], case)]
        return []
    w = replay_ops(case["ops"])
    d = next(c for c, o in w.conts.items() if o.is_document())
    doc = w.conts[d]
    fails = []
    name = case.get("export", "unified")
    before = proto.canon_cont(doc)
    run_export(Gen(0), doc, name, case.get("opts"))
    after = proto.canon_cont(doc)
    if after != before:
        sig = only_ns_gained(before, after)
        fails.append(Failure("oracle", sig.replace("C08:", "C13:") if sig else None,
                             "%s changed the document: %s" % (name, describe_change(before, after)), case))
    return fails

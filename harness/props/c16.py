"""C16 — all source / destination kinds agree, and prov.read detects the format."""
import datetime
import hashlib
import io
import json
import os
import shutil
import tempfile
import warnings

import prov
import prov.model as pm
from prov.identifier import Identifier, Namespace, QualifiedName
from prov.model import Literal, ProvDocument
from prov.serializers import Registry

from ..gen import Gen
from ..docgen import DocBuilder
from ..world import World, run_model
from ..proto import strict_doc, skey
from ..runner import Failure

META = {
    "level": "proof",
    "rule": "documents with non-ASCII strings, local names and language-tagged literals (a PROV-O-expressible family for all four "
            "formats, and documents of the C01/C02 generator for json / xml / provn) x formats x 4 destination kinds x 5 source "
            "kinds x {deserialize(format), prov.read(format), prov.read()} ; every written text / byte string is compared across "
            "destinations, every document read back is compared by its strict (URI-level, kind-aware) content with the one "
            "read from the returned string, and the outcome of every cell (document digest, stream position afterwards) with the "
            "prediction of the Lean dispatch model instantiated with the parse results observed on that text. Every text is also "
            "offered to every other format's reader (discriminability). Non-trivial = a cell whose text contains non-ASCII "
            "characters; distinct by (format, destination, source, mode, document).",
    "assumptions": ["A-EXT: json, lxml, rdflib dump/parse functions are parameters of the model; two facts about them are hypotheses "
                    "of the theorems and validated per document here: rdflib parses a text stream and its UTF-8 bytes alike; lxml's "
                    "text and binary writers produce documents with the same canonical form (C14N)",
                    "prov.read takes a source (stream or path), not content: the 3 source kinds it accepts are exercised",
                    "Python strings holding lone surrogates cannot be encoded as UTF-8 and are outside the space"],
    "explanation": "Theorems c16_dest_agree, c16_source_agree, c16_write_read(_xml), c16_read_sniffs, c16_read_detects, "
                   "c16_read_stream_consumed, c16_old_loop_refuted, t_registry_order.",
}

DESTS = ["ret", "text", "bin", "path"]
SOURCES = ["content_str", "content_bytes", "text_stream", "bin_stream", "path"]
NONASCII = ["héllo ✓ 漢字", "ünï", "日本語テキスト", "naïve café", "Ω≈ç√∫", "emoji 🙂 here", "mixed ascii and ß", "plain ascii", "çà et là",
            "Ελληνικά", "русский", "a<b & c>d é", 'quote " é', "tab\tü",
            "première ligne\r\nseconde ligne", "à\ré", "unix\nnewline ü",
            # separators that only some line-splitting functions know (NEL, LS, PS), and text outside normal form C
            "ligne\u2028suivante", "absätze\u2029getrennt", "next\u0085line", "Cafe\u0301 \u212b"]
LOCALS = ["e1", "e2", "a1", "ag1", "r1", "entité", "活動", "x-1", "u_v", "ünit"]
KNOWN = {"trig-graph-block-order": "C16:trig-graph-block-order"}


def digest(doc):
    return hashlib.sha1(skey(strict_doc(doc)).encode("utf-8")).hexdigest()[:16]


def io_document(g):
    """a PROV-O-expressible document with non-ASCII content: every namespace on the document under a non-empty prefix,
       identified relations with both endpoints, no floats, no foreign datatypes"""
    r = g.rng
    d = ProvDocument()
    if g.chance(0.03):
        return d                     # the empty document (its TriG text is a single line break)
    nss = [d.add_namespace("ex", "http://example.org/"), d.add_namespace("dn", "http://other/ns#")]
    if g.chance(0.03):
        return d                     # namespaces only
    if g.chance(0.5):
        nss.append(d.add_namespace("ü", "http://a/b/") if False else d.add_namespace("ex2", "http://a/b/"))

    used_uris = set()

    def name(fresh=True):
        # one identifier, one record: in PROV-O two records under one identifier share a subject, and what the reader makes of
        # it (which class wins, which time belongs to what) depends on rdflib's iteration order -- outside C07's space, and
        # not this property's subject
        for _ in range(50):
            q = QualifiedName(r.choice(nss), r.choice(LOCALS) + str(r.randint(0, 99)))
            if not fresh or q.uri not in used_uris:
                break
        if fresh:
            used_uris.add(q.uri)
        return q

    def value():
        k = r.random()
        if k < 0.45:
            return r.choice(NONASCII)
        if k < 0.55:
            return Literal(r.choice(NONASCII), langtag=r.choice(["en", "fr", "el"]))
        if k < 0.65:
            return r.randint(-1000, 1000)
        if k < 0.72:
            return r.choice([True, False])
        if k < 0.8:
            return datetime.datetime(r.choice([1970, 2012, 2024]), r.randint(1, 12), r.randint(1, 28), r.randint(0, 23), r.randint(0, 59),
                                     r.randint(0, 59))
        if k < 0.9:
            return name(fresh=False)
        return Identifier("http://example.org/ä/" + r.choice(LOCALS))

    def attrs():
        out = []
        for _ in range(r.randint(0, 3)):
            key = r.choice([QualifiedName(r.choice(nss), r.choice(["attr", "étiquette", "値"])), pm.PROV_LABEL, pm.PROV_LOCATION])
            v = value()
            if key == pm.PROV_LABEL and not isinstance(v, (str, Literal)):
                v = r.choice(NONASCII)
            out.append((key, v))
        return out

    def fill(c, n):
        ents, acts, ags = [], [], []
        for _ in range(n):
            k = r.random()
            if k < 0.3 or not ents:
                ents.append(c.entity(name(), attrs()))
            elif k < 0.45 or not acts:
                acts.append(c.activity(name(), None, None, attrs()))
            elif k < 0.55 or not ags:
                ags.append(c.agent(name(), attrs()))
            elif k < 0.7:
                c.wasGeneratedBy(r.choice(ents), r.choice(acts), identifier=name(), other_attributes=attrs())
            elif k < 0.8:
                c.used(r.choice(acts), r.choice(ents), identifier=name(), other_attributes=attrs())
            elif k < 0.9:
                c.wasAttributedTo(r.choice(ents), r.choice(ags))
            else:
                c.wasDerivedFrom(r.choice(ents), r.choice(ents), identifier=name(), other_attributes=attrs())

    fill(d, r.randint(1, 6))
    for _ in range(r.choice([0, 0, 1, 2])):
        bid = name()
        while any(x.identifier is not None and x.identifier.uri == bid.uri for x in d.bundles):
            bid = name()        # a document cannot hold two bundles under one identifier
        b = d.bundle(bid)
        fill(b, r.randint(1, 4))
    return d


def trig_blocks(text):
    """canonical content of rdflib's TriG output: (sorted prefix header lines, canonical quads of the parsed dataset).
    rdflib writes the graphs, and the subjects inside a graph, in an order that is not a function of the content
    (known finding C16-1); what must agree between two outputs is the header and the dataset they denote."""
    import logging
    import warnings
    from rdflib.graph import ConjunctiveGraph
    from .. import rdfgraph
    header = sorted(l for l in text.split("\n") if l.startswith("@prefix") or l.startswith("@base"))
    g = ConjunctiveGraph()
    logging.disable(logging.CRITICAL)
    try:
        with warnings.catch_warnings():
            warnings.simplefilter("ignore")
            try:
                g.parse(data=text, format="trig")
            except Exception as e:  # noqa  what a destination received is not TriG at all: equal to nothing but itself
                return header, ("not TriG", type(e).__name__, text[:200])
    finally:
        logging.disable(logging.NOTSET)
    return header, rdfgraph.canon_quads(rdfgraph.quads_of(g))


def c14n(data):
    from lxml import etree
    if isinstance(data, str):
        data = data.encode("utf-8")
    return etree.tostring(etree.fromstring(data), method="c14n")


def write_to(doc, fmt, dest, scratch, **kw):
    """what destination kind `dest` received: ('text', str) or ('bytes', bytes); `kw`: the writer's options, the same for every kind"""
    if dest == "ret":
        return ("text", doc.serialize(format=fmt, **kw))
    if dest == "text":
        s = io.StringIO()
        doc.serialize(s, format=fmt, **kw)
        return ("text", s.getvalue())
    if dest == "bin":
        s = io.BytesIO()
        doc.serialize(s, format=fmt, **kw)
        return ("bytes", s.getvalue())
    # a plain file name is used as it is: no URL syntax (%XX escapes, #, ?) is interpreted in it
    p = os.path.join(scratch, "écrit %%41 100%%25 #1-%s.out" % fmt)
    # the destination already exists and is longer than anything written here: what it held must be gone afterwards
    with open(p, "wb") as f:
        f.write(b"PREVIOUS CONTENT OF THE DESTINATION\n" * 4000)
    doc.serialize(p, format=fmt, **kw)
    return ("bytes", open(p, "rb").read())


class _ReadOnly(object):
    """a source that is a stream only in that it can be read"""

    def __init__(self, inner):
        self._inner = inner

    def read(self, *a):
        return self._inner.read(*a)


def offer(written, src, scratch):
    """(kwargs for deserialize, source for read or None, stream or None)"""
    kind, data = written
    as_text = data if kind == "text" else data.decode("utf-8")
    as_bytes = data.encode("utf-8") if kind == "text" else data
    if src == "content_str":
        return dict(content=as_text), None, None
    if src == "content_bytes":
        return dict(content=as_bytes), None, None
    if src == "text_stream":
        st = io.StringIO(as_text)
        return dict(source=st), st, (st, len(as_text))
    if src == "bin_stream":
        st = io.BytesIO(as_bytes)
        return dict(source=st), st, (st, len(as_bytes))
    p = os.path.join(scratch, "lu-à %42%20.in")
    with open(p, "wb") as f:
        f.write(as_bytes)
    return dict(source=p), p, None


def label_of(fn):
    try:
        with warnings.catch_warnings():
            warnings.simplefilter("ignore")
            import logging
            logging.disable(logging.CRITICAL)
            try:
                return digest(fn())
            finally:
                logging.disable(logging.NOTSET)
    except Exception:  # noqa
        return None


def read_then_write(fmt_written, scratch):
    """the smallest history in which an earlier read could spoil a later write: a fresh registry, an empty document written as
    JSON to a file, prov.read() of that file without a format, then an empty document written as `fmt_written`.
    Returns the exception of the last step (None when it works)."""
    Registry.load_serializers()
    p = os.path.join(scratch, "registry-probe.json")
    ProvDocument().serialize(p, format="json")
    try:
        prov.read(p)
    except Exception:  # noqa
        pass
    try:
        ProvDocument().serialize(format=fmt_written)
    except Exception as e:  # noqa
        return e
    return None


def one_document(ctx, doc, fmts, scratch, fails, model_ops, pending, doc_id):
    if Registry.serializers is None:
        Registry.load_serializers()       # once per process, as the library itself does: later calls must find it as it was
    order = list(Registry.serializers.keys())
    # whatever was read or written before (earlier documents of this run), every format can still be written
    for f in ("json", "xml", "rdf", "provn"):
        try:
            ProvDocument().serialize(format=f)
        except Exception as e:  # noqa
            again = read_then_write(f, scratch)
            if again is not None:
                fails.append(Failure("oracle", None, "after prov.read() of a JSON file without a format, an empty document can no longer be written "
                                     "as %s: %r" % (f, again), {"recipe": "read-then-write", "fmt": f}))
            else:
                fails.append(Failure("oracle", None, "after the reads and writes of the previous documents an empty document can no longer be "
                                     "written as %s: %r" % (f, e), {"fmt": f, "doc": doc_id, "history": "the documents of this run before %s" % (doc_id,)}))
            Registry.load_serializers()
            order = list(Registry.serializers.keys())
    JSON_OPTS = [{}, {}, {"indent": 2}, {"sort_keys": True}, {"indent": 4, "ensure_ascii": False}]
    for fmt in fmts:
        # the writer's options belong to the call, not to the destination kind: every kind is given the same ones
        wkw = JSON_OPTS[(len(str(doc_id)) + len(doc.records)) % len(JSON_OPTS)] if fmt == "json" else {}
        if wkw:
            ctx.count("json-options:" + ",".join(sorted(wkw)))
        try:
            ref_text = doc.serialize(format=fmt, **wkw)
        except Exception as e:  # noqa
            ctx.count("serialize-raises:%s:%s" % (fmt, type(e).__name__))
            continue
        nonascii = any(ord(ch) > 127 for ch in ref_text) or (fmt == "xml" and "&#" in ref_text)
        written = {}
        for dest in DESTS:
            try:
                written[dest] = write_to(doc, fmt, dest, scratch, **wkw)
            except Exception as e:  # noqa
                fails.append(Failure("oracle", None, "serialize to destination kind %s raised %r although the returned-string form exists" % (dest, e),
                                     {"fmt": fmt, "dest": dest, "doc": doc_id}))
        if len(written) < 4:
            continue
        ctx.evaluations += 4
        # ---- destinations carry the same text
        case0 = {"fmt": fmt, "doc": doc_id}
        if fmt in ("json", "provn"):
            for dest in DESTS:
                kind, data = written[dest]
                want = ref_text if kind == "text" else ref_text.encode("utf-8")
                if data != want:
                    fails.append(Failure("oracle", None, "destination kind %s received a different %s than the returned string (%d vs %d)" % (
                        dest, kind, len(data), len(want)), dict(case0, dest=dest)))
        elif fmt == "rdf":
            ref_h, ref_b = trig_blocks(ref_text)
            for dest in DESTS:
                kind, data = written[dest]
                try:
                    text = data if kind == "text" else data.decode("utf-8")
                except UnicodeDecodeError:
                    fails.append(Failure("oracle", None, "binary RDF output is not UTF-8", dict(case0, dest=dest)))
                    continue
                if text != ref_text:
                    h, b = trig_blocks(text)
                    if (h, b) == (ref_h, ref_b):
                        fails.append(Failure("oracle", KNOWN["trig-graph-block-order"], "TriG text differs only in the order of graphs / subjects", dict(case0, dest=dest)))
                    else:
                        fails.append(Failure("oracle", None, "destination kind %s received different RDF text than the returned string" % dest, dict(case0, dest=dest)))
        else:  # xml: text targets agree, binary targets agree, and both parse identically
            if written["ret"][1] != written["text"][1]:
                fails.append(Failure("oracle", None, "XML text stream differs from the returned string", dict(case0, dest="text")))
            if written["bin"][1] != written["path"][1]:
                fails.append(Failure("oracle", None, "XML file bytes differ from the binary stream", dict(case0, dest="path")))
            try:
                forms = {dest: c14n(written[dest][1]) for dest in DESTS}
                if len(set(forms.values())) != 1:
                    fails.append(Failure("oracle", None, "XML written to different destination kinds does not parse identically (C14N differs)", case0))
            except Exception as e:  # noqa
                fails.append(Failure("oracle", None, "XML output does not parse: %r" % (e,), case0))
        # ---- a text *file* object (its own encoding, text already pending in its buffer) is a text stream like any other
        for enc in ("utf-8", "utf-16"):
            header = "// written before the document: é\n"
            p = os.path.join(scratch, "texte-%s-%s.out" % (fmt, enc))
            try:
                with open(p, "w", encoding=enc, newline="") as f:
                    f.write(header)
                    doc.serialize(f, format=fmt, **wkw)
                got = open(p, "rb").read().decode(enc)
            except Exception as e:  # noqa
                fails.append(Failure("oracle", None, "serialize to a text file object (%s) raised %r although the returned-string form exists" % (enc, e),
                                     dict(case0, dest="textfile-" + enc)))
                continue
            ctx.evaluations += 1
            ctx.count("dest:textfile-" + enc)
            want = written["text"][1]
            if got == header + want:
                continue
            if fmt == "rdf" and got.startswith(header) and trig_blocks(got[len(header):]) == trig_blocks(want):
                fails.append(Failure("oracle", KNOWN["trig-graph-block-order"], "TriG text differs only in the order of graphs / subjects",
                                     dict(case0, dest="textfile-" + enc)))
                continue
            fails.append(Failure("oracle", None, "a text file object opened as %s, holding a pending header line, does not end up with "
                                 "header + the text an io.StringIO receives (%d chars vs %d; starts %r)" % (
                                     enc, len(got), len(header + want), got[:60]), dict(case0, dest="textfile-" + enc)))
        if fmt == "provn":
            continue
        # ---- what each format's reader makes of each distinct text (tables for the model; discriminability)
        texts = []
        for dest in DESTS:
            kind, data = written[dest]
            t = data if kind == "text" else data.decode("utf-8")
            if t not in texts:
                texts.append(t)
        tables = {"json": [], "rdf": [], "xml": []}
        for t in texts:
            for g_ in ("json", "rdf", "xml"):
                lab = label_of(lambda: ProvDocument.deserialize(content=t, format=g_))
                tables[g_].append([t, lab])
                if g_ != fmt and lab is not None:
                    ctx.count("text-accepted-by-other-format:%s-as-%s" % (fmt, g_))
                    if order.index(g_) < order.index(fmt):
                        ctx.count("ambiguous-text-earlier-format")
            # hypothesis of the theorems: rdflib treats text and bytes alike
            if fmt == "rdf":
                lb = label_of(lambda: ProvDocument.deserialize(source=io.BytesIO(t.encode("utf-8")), format="rdf"))
                lt = label_of(lambda: ProvDocument.deserialize(source=io.StringIO(t), format="rdf"))
                if lb != lt:
                    fails.append(Failure("oracle", None, "rdflib reads the text and its UTF-8 bytes differently (hypothesis RdfTextBytes)", case0))
        # the reference reading: what *any* source kind makes of the returned string (if one source kind alone cannot read it,
        # that source kind is the odd one out in the grid below, not a reason to skip the document)
        ref_label = label_of(lambda: ProvDocument.deserialize(content=ref_text, format=fmt))
        if ref_label is None:
            ref_label = label_of(lambda: ProvDocument.deserialize(source=io.BytesIO(ref_text.encode("utf-8")), format=fmt))
        if ref_label is None:
            ref_label = label_of(lambda: ProvDocument.deserialize(source=io.StringIO(ref_text), format=fmt))
        if ref_label is None:
            ctx.count("returned-string-not-readable:" + fmt)
            continue
        # ---- 4 destinations x 5 sources x modes on the real code
        cells = []
        for dest in DESTS:
            for src in SOURCES:
                for mode in ("deser", "read_fmt", "read_auto"):
                    if mode != "deser" and src.startswith("content"):
                        continue
                    kw, rsrc, stream = offer(written[dest], src, scratch)
                    try:
                        with warnings.catch_warnings():
                            warnings.simplefilter("ignore")
                            import logging
                            logging.disable(logging.CRITICAL)
                            try:
                                if mode == "deser":
                                    got = ProvDocument.deserialize(format=fmt, **kw)
                                elif mode == "read_fmt":
                                    got = prov.read(rsrc, format=fmt)
                                else:
                                    got = prov.read(rsrc)
                            finally:
                                logging.disable(logging.NOTSET)
                        lab = digest(got)
                    except Exception as e:  # noqa
                        lab = None
                        got = e
                    at_end = None
                    if stream is not None and mode == "read_auto":
                        # the position a library parser leaves a stream at is its own business (lxml stops at the end of the
                        # root element); where prov itself reads the stream, it reads all of it
                        st, n = stream
                        at_end = (st.tell() == n)
                    ctx.evaluations += 1
                    case = {"fmt": fmt, "dest": dest, "src": src, "mode": mode, "doc": doc_id}
                    if nonascii:
                        ctx.nontrivial(case)
                    ctx.sample(case)
                    if lab != ref_label:
                        what = ("raised %r" % (got,)) if lab is None else ("a different document (%d records vs expected digest %s)" % (
                            len(got.get_records()) + sum(len(b.get_records()) for b in got.bundles), ref_label))
                        fails.append(Failure("oracle", None, "%s of what destination kind %s received, offered as %s, gave %s" % (
                            {"deser": "deserialize(format=%r)" % fmt, "read_fmt": "prov.read(format=%r)" % fmt, "read_auto": "prov.read() without a format"}[mode],
                            dest, src, what), case))
                    cells.append(({"dest": dest, "src": src, "mode": mode}, {"result": lab, "at_end": at_end}, case))
                    if src == "path" and lab is not None and lab == ref_label:
                        # the caller owns what it was given: changing it must not change what the same file reads as next time
                        try:
                            got.add_namespace("mutc16", "http://mutation.example/c16/")
                            got.entity("mutc16:added-after-reading")
                            with warnings.catch_warnings():
                                warnings.simplefilter("ignore")
                                logging.disable(logging.CRITICAL)
                                try:
                                    again = (ProvDocument.deserialize(format=fmt, **kw) if mode == "deser" else
                                             prov.read(rsrc, format=fmt) if mode == "read_fmt" else prov.read(rsrc))
                                finally:
                                    logging.disable(logging.NOTSET)
                            lab2 = digest(again)
                        except Exception as e:  # noqa
                            lab2 = "raised %r" % (e,)
                        ctx.count("path-read-again-after-change")
                        if lab2 != ref_label:
                            fails.append(Failure("oracle", None, "the same unchanged file, read a second time (%s) after the document from the first "
                                                 "reading had been given one more entity, no longer gives the written document (%s)" % (mode, lab2),
                                                 dict(case, reread=True)))
        # ---- streams that are file-like without being io classes (a tempfile wrapper, an object with just read()): outside
        #      the model, which knows the 5 source kinds above; what counts as a stream is "it can be read"
        for dest in ("ret", "bin"):
            kind, data = written[dest]
            as_text = data if kind == "text" else data.decode("utf-8")
            as_bytes = data.encode("utf-8") if kind == "text" else data
            for duck in ("tempfile", "read_only_text", "read_only_bytes"):
                for mode in (("read_auto", "read_fmt") if duck == "tempfile" else ("read_auto",)):
                    tf = None
                    try:
                        if duck == "tempfile":
                            import tempfile
                            tf = tempfile.NamedTemporaryFile(dir=scratch)
                            tf.write(as_bytes)
                            tf.flush()
                            tf.seek(0)
                            srcobj = tf
                        elif duck == "read_only_text":
                            srcobj = _ReadOnly(io.StringIO(as_text))
                        else:
                            srcobj = _ReadOnly(io.BytesIO(as_bytes))
                        with warnings.catch_warnings():
                            warnings.simplefilter("ignore")
                            import logging
                            logging.disable(logging.CRITICAL)
                            try:
                                got = prov.read(srcobj, format=fmt) if mode == "read_fmt" else prov.read(srcobj)
                            finally:
                                logging.disable(logging.NOTSET)
                        lab = digest(got)
                    except Exception as e:  # noqa
                        lab, got = None, e
                    finally:
                        if tf is not None:
                            tf.close()
                    ctx.evaluations += 1
                    ctx.count("file-like:%s:%s" % (duck, mode))
                    if lab != ref_label:
                        what = ("raised %r" % (got,)) if lab is None else ("a different document (%d records)" % (
                            len(got.get_records()) + sum(len(b.get_records()) for b in got.bundles)))
                        fails.append(Failure("oracle", None, "prov.read(%s) of a file-like source (%s) holding what destination kind %s received gave %s" % (
                            "format=%r" % fmt if mode == "read_fmt" else "no format", duck, dest, what),
                            {"fmt": fmt, "dest": dest, "src": duck, "mode": mode, "doc": doc_id, "filelike": True}))
        op = {"op": "io_case", "fmt": fmt, "text": written["ret"][1], "tables": tables,
              "cases": [{"dest": d_} for d_ in DESTS] + [c[0] for c in cells]}
        if fmt == "xml":
            op["bytes_text"] = written["bin"][1].decode("utf-8")
        model_ops.append(op)
        pending.append((fmt, written, cells, doc_id))


def judge_model(ctx, model_ops, pending, fails):
    if not model_ops:
        return
    outs = run_model([{"op": "reset"}] + model_ops)[1:]
    for (fmt, written, cells, doc_id), out in zip(pending, outs):
        if "cases" not in out:
            fails.append(Failure("corr", None, "model driver error: %r" % (out,), {"fmt": fmt, "doc": doc_id}))
            continue
        res = out["cases"]
        ctx.model_ops += len(res)
        for dest, w in zip(DESTS, res[:4]):
            kind, data = written[dest]
            mk, mtext = w["written"]
            exp_kind = {"ret": "returned", "text": "text", "bin": "bytes", "path": "file"}[dest]
            text = data if kind == "text" else data.decode("utf-8")
            same = (mtext == text) or (fmt == "rdf" and mtext is not None and trig_blocks(mtext) == trig_blocks(text))
            if mk != exp_kind or not same:
                fails.append(Failure("corr", None, "model: destination %s receives %s, the implementation wrote something else" % (dest, mk),
                                     {"fmt": fmt, "dest": dest, "doc": doc_id}))
        for (cell, exp, case), got in zip(cells, res[4:]):
            if got.get("result") != exp["result"] or (exp["at_end"] is not None and got.get("at_end") != exp["at_end"]):
                fails.append(Failure("corr", None, "model predicts %s, the implementation gave %s" % (got, exp), case))


def locale_probe():
    """run under a non-UTF-8 locale (subprocess, see run): path round trips of a non-ASCII document"""
    import locale
    import sys
    g = Gen(5)
    doc = io_document(g)
    doc.entity("ex:locale", {"ex:étiquette": "日本 ü"})
    scratch = tempfile.mkdtemp(prefix="c16l-")
    out = {"encoding": locale.getpreferredencoding(False), "cells": []}
    try:
        for fmt in ("json", "xml", "rdf"):
            ref = label_of(lambda: ProvDocument.deserialize(content=doc.serialize(format=fmt), format=fmt))
            p = os.path.join(scratch, "doc." + fmt)
            doc.serialize(p, format=fmt)
            for mode in ("deser", "read_fmt", "read_auto"):
                try:
                    got = (ProvDocument.deserialize(source=p, format=fmt) if mode == "deser" else
                           prov.read(p, format=fmt) if mode == "read_fmt" else prov.read(p))
                    lab, err = digest(got), None
                except Exception as e:  # noqa
                    lab, err = None, repr(e)[:200]
                out["cells"].append({"fmt": fmt, "mode": mode, "ok": lab == ref and ref is not None, "err": err})
    finally:
        shutil.rmtree(scratch, ignore_errors=True)
    sys.stdout.write(json.dumps(out))


def run_locale_probe(ctx, fails):
    import subprocess
    import sys
    env = dict(os.environ, PYTHONUTF8="0", PYTHONCOERCECLOCALE="0", LC_ALL="C", LANG="C", PYTHONWARNINGS="ignore")
    root = os.path.dirname(os.path.dirname(os.path.dirname(os.path.abspath(__file__))))
    p = subprocess.run([sys.executable, "-c", "from harness.props import c16; c16.locale_probe()"], cwd=root, env=env,
                       capture_output=True, text=True, timeout=300)
    try:
        out = json.loads(p.stdout[p.stdout.index("{"):])
    except Exception:  # noqa
        raise RuntimeError("locale probe did not run: %s" % (p.stderr[-800:],))
    ctx.count("locale-probe-encoding:" + out["encoding"])
    for c in out["cells"]:
        ctx.evaluations += 1
        case = {"fmt": c["fmt"], "dest": "path", "src": "path", "mode": c["mode"], "locale": out["encoding"]}
        ctx.nontrivial(case)
        if not c["ok"]:
            fails.append(Failure("oracle", None, "under locale encoding %s a file written by serialize(path) is not read back by %s: %s" % (
                out["encoding"], c["mode"], c["err"] or "different document"), case))


def other_fs_dir():
    """a writable directory on a file system other than the one temporary files are created on (serialize(path) stages the text in
    a temporary file and moves it: across file systems that move is a copy, not a rename), or None"""
    try:
        here = os.stat(tempfile.gettempdir()).st_dev
    except OSError:
        return None
    for cand in ("/dev/shm", "/var/tmp", os.path.expanduser("~"), os.getcwd()):
        try:
            if os.path.isdir(cand) and os.access(cand, os.W_OK) and os.stat(cand).st_dev != here:
                return cand
        except OSError:
            continue
    return None


def run(ctx, use_model=True):
    g = Gen(ctx.seed * 1000003 + 16)
    fails = []
    scratch = tempfile.mkdtemp(prefix="c16-", dir=os.environ.get("VERIF_SCRATCH", None))
    far = other_fs_dir()
    scratch_far = tempfile.mkdtemp(prefix="c16far-", dir=far) if far else None
    ctx.count("second-file-system-available" if far else "no-second-file-system")
    model_ops, pending = [], []
    try:
        n_docs = ctx.n(12, 80)
        for i in range(n_docs):
            if i == 0 or i == 3:
                # boundary documents, in every run: the empty document (its TriG text is a single line break) and one that
                # declares namespaces only
                doc = ProvDocument()
                if i == 3:
                    doc.add_namespace("ex", "http://example.org/")
                    doc.set_default_namespace("http://default.example/")
                fmts = ["json", "xml", "rdf", "provn"]
                ctx.count("boundary-document")
            elif i % 6 == 1:
                # long multi-byte content: any block-wise copying / decoding between the serializer's buffer and the destination
                # must not depend on where a block boundary falls
                doc = io_document(g)
                unit = g.choice(["€", "é", "🙂", "a€", "漢é"])
                doc.add_namespace("ex", "http://example.org/")       # (the empty document of io_document has none yet)
                doc.entity("ex:long%d" % i, {"ex:attr": unit * g.choice([2731, 4096, 8192, 10000, 21846]),
                                              "prov:label": ("x" * g.rng.randint(0, 3)) + unit * g.choice([3000, 8191, 16385])})
                fmts = ["json", "xml", "rdf", "provn"]
                ctx.count("long-document")
            elif i % 3 != 2:
                doc = io_document(g)
                fmts = ["json", "xml", "rdf", "provn"]
            else:
                w = World()
                b = DocBuilder(g, w, malformed=0.0, xml=True, repeat_id=0.2)
                d, _s = b.random_document(n_records=g.rng.randint(1, 6))
                doc = w.conts[d]
                fmts = ["json", "xml", "provn"]
            if scratch_far is not None and i % 4 == 2:
                # destinations and sources on another file system than the temporary files
                ctx.count("files-on-another-file-system")
                one_document(ctx, doc, fmts, scratch_far, fails, model_ops, pending, i)
            else:
                one_document(ctx, doc, fmts, scratch, fails, model_ops, pending, i)
            if i % 2 == 1 and not [f_ for f_ in fails if not f_.sig]:
                # the same document object again, after a change made below its surface (a record added to a bundle it already
                # holds, an attribute added to a record it already holds): every destination receives the document as it is now
                try:
                    bs = list(doc.bundles)
                    if bs:
                        bs[0].add_namespace("ex", "http://example.org/")
                        bs[0].entity("ex:später-%d" % i, {"ex:étiquette": "ajouté après"})
                    recs = list(doc.get_records())
                    if recs:
                        recs[0].add_attributes([("prov:label", "ajouté après %d" % i)])
                    changed = bool(bs or recs)
                except Exception:  # noqa
                    changed = False
                if changed:
                    ctx.count("same-object-after-a-change-below-the-surface")
                    one_document(ctx, doc, fmts, scratch, fails, model_ops, pending, "%s-again" % i)
        run_locale_probe(ctx, fails)
        if use_model:
            judge_model(ctx, model_ops, pending, fails)
    finally:
        shutil.rmtree(scratch, ignore_errors=True)
        if scratch_far is not None:
            shutil.rmtree(scratch_far, ignore_errors=True)
    return fails


def oracle_only(ctx):
    return [f for f in run(ctx, use_model=False) if f.kind == "oracle"]


def replay(ctx, case):
    """a recorded cell on a fixed non-ASCII document"""
    if case.get("locale"):
        sub = []
        run_locale_probe(ctx, sub)
        return [Failure(f.kind, case.get("signature"), f.desc, case) for f in sub]
    if case.get("recipe") == "read-then-write":
        scratch = tempfile.mkdtemp(prefix="c16-")
        try:
            e = read_then_write(case["fmt"], scratch)
        finally:
            shutil.rmtree(scratch, ignore_errors=True)
            Registry.load_serializers()
        return [Failure("oracle", case.get("signature"), "after a format-less prov.read(), writing %s raises %r" % (case["fmt"], e), case)] if e is not None else []
    g = Gen(case.get("seed", 1))
    doc = io_document(g)
    if not list(doc.bundles):
        b = doc.bundle("ex:bündel")
        b.entity("ex:dedans", {"ex:étiquette": "日本"})
    fails = []
    scratch = tempfile.mkdtemp(prefix="c16-")
    far = other_fs_dir()
    scratch_far = tempfile.mkdtemp(prefix="c16far-", dir=far) if far else None
    try:
        sub = []
        one_document(ctx, doc, [case["fmt"]], scratch, sub, [], [], "replay")
        if not sub and scratch_far is not None:
            one_document(ctx, doc, [case["fmt"]], scratch_far, sub, [], [], "replay")
        for f in sub:
            c = f.replay
            if c.get("recipe") or c.get("fmt") != case["fmt"]:
                continue        # not this cell: found again, with its own replay, by the main run
            if all(c.get(k) == case[k] for k in ("dest", "src", "mode") if k in case):
                fails.append(Failure(f.kind, case.get("signature") or f.sig, f.desc, case))
    finally:
        shutil.rmtree(scratch, ignore_errors=True)
        if scratch_far is not None:
            shutil.rmtree(scratch_far, ignore_errors=True)
    return fails

"""C11 — reading foreign PROV-JSON / PROV-XML is stable under re-serialisation."""
import json

from prov import Error as ProvError
from prov.model import ProvDocument

from ..gen import Gen
from ..runner import Failure
from .. import proto, specread, foreign_json

META = {
    "level": "proof",
    "rule": "PROV-JSON texts from a specification-driven generator (every literal spelling, wrapped singletons, multi-entity "
            "memberships, record arrays, bundle prefix blocks, default namespaces) and single-point mutations (value kind, wrap/unwrap "
            "array, reorder keys, consistent prefix rename, prefix declaration moved into the bundle) of the 398 corpus files; for each "
            "text: load (library error or document d), d -> text -> d' must equal d (strict), and d must equal what the Lean specification "
            "reader recovers from the text (nothing dropped or invented). Non-trivial = accepted text with >= 2 records; distinct by content hash.",
    "assumptions": ["A-JSONTEXT", "the specification reader is a hand transcription of the PROV-JSON submission"],
    "explanation": "Correspondence of the library reader with the Lean specification reader on foreign texts + re-serialisation stability; "
                   "theorems in Props/C11.",
}


def judge(ctx, text, spec, origin, fails):
    """text: PROV-JSON; spec: abstract document by the Lean spec reader (None = not well-formed for the spec reader)"""
    case = {"text": text, "origin": origin}
    try:
        d = ProvDocument.deserialize(content=text, format="json")
        err = None
    except Exception as e:  # noqa
        d = None
        err = e
    if err is not None:
        ctx.count("load-error:" + type(err).__name__)
        if spec is not None and not isinstance(spec, tuple) and not isinstance(err, ProvError):
            fails.append(Failure("oracle", None, "well-formed PROV-JSON makes the reader crash with %s: %s" % (type(err).__name__, str(err)[:100]), case))
        return
    ctx.count("loaded")
    got = proto.strict_doc(d)
    # (1) stable under re-serialisation
    try:
        d2 = ProvDocument.deserialize(content=d.serialize(format="json"), format="json")
        if proto.strict_doc(d2) != got:
            fails.append(Failure("oracle", sig_for(d), "loaded document changes when written and loaded again", case))
    except Exception as e:  # noqa
        fails.append(Failure("oracle", sig_for(d), "loaded document cannot be written and loaded again: %r" % (e,), case))
    # (2) nothing dropped, nothing invented
    if spec is not None and not isinstance(spec, tuple):
        spec, got = relax_mixed(spec, got)
        if spec != got:
            why = ""
            for k in sorted(set(spec) | set(got)):
                a, b = spec.get(k) or [], got.get(k) or []
                if a != b:
                    why = "bundle %r: the text states %s, the library loaded %s" % (k, [x for x in a if x not in b][:1], [x for x in b if x not in a][:1])
                    break
            fails.append(Failure("oracle", bundle_key_sig(text), "the loaded document differs from what the text states: " + why[:900], case))
    elif isinstance(spec, tuple):
        ctx.count("spec-reader-fatal")
    else:
        ctx.count("spec-reader-rejects")


def _num(v):
    from fractions import Fraction
    if v[0] == "int":
        return Fraction(int(v[1]))
    if v[0] == "bool":
        return Fraction(1 if v[1] else 0)
    if v[0] == "float":
        return Fraction(float(v[1]))
    return None


def relax_mixed(spec, got):
    """Python set semantics (excluded by the property): when the text gives one attribute several numeric values that
    compare equal but differ in kind (1 / true / 1.0) only one survives; for exactly those attributes numeric values
    are compared by value, not by kind"""
    mixed = set()
    for recs in spec.values():
        for s_ in recs:
            r = json.loads(s_)
            classes = {}
            for a, v in r["attrs"]:
                n = _num(v)
                if n is not None:
                    classes.setdefault((a, n), set()).add(v[0])
            for (a, n), kinds in classes.items():
                if len(kinds) > 1:
                    mixed.add(a)
    if not mixed:
        return spec, got

    def fix(doc):
        out = {}
        for k, recs in doc.items():
            new = []
            for s_ in recs:
                r = json.loads(s_)
                attrs = []
                for a, v in r["attrs"]:
                    n = _num(v) if a in mixed else None
                    item = [a, ["num", str(n)]] if n is not None else [a, v]
                    if item not in attrs:
                        attrs.append(item)
                r["attrs"] = sorted(attrs, key=proto.skey)
                new.append(proto.skey(r))
            out[k] = sorted(new)
        return out
    return fix(spec), fix(got)


def bundle_key_sig(text):
    """known class: a bundle whose own prefix block re-binds the prefix used in the bundle's key"""
    try:
        t = json.loads(text)
    except ValueError:
        return None
    dp = t.get("prefix") or {}
    for key, b in (t.get("bundle") or {}).items():
        if isinstance(b, dict) and ":" in key:
            p = key.split(":", 1)[0]
            bp = b.get("prefix") or {}
            if p in bp and bp[p] != dp.get(p):
                return "C11:name-not-resolvable-in-scope"
    return None


def xml_expressible(d):
    """can this document be written as PROV-XML at all (attribute-name local parts must be NCNames)?"""
    import re
    nc = re.compile(r"^[A-Za-z_][A-Za-z0-9_.\-]*$")
    for c in [d] + list(d.bundles):
        for r in c.records:
            for (a, v) in r.attributes:
                if not nc.match(a.localpart):
                    return False
                if a.uri == "http://www.w3.org/ns/prov#label" and not (isinstance(v, str) or getattr(v, "langtag", None)):
                    return False
    return True


def judge_xml(ctx, text, spec, origin, fails):
    """text: PROV-XML; spec: abstract document by the Lean PROV-XML specification reader"""
    case = {"text": text, "origin": origin, "format": "xml"}
    try:
        d = ProvDocument.deserialize(content=text, format="xml")
        err = None
    except Exception as e:  # noqa
        d = None
        err = e
    if err is not None:
        ctx.count("xml-load-error:" + type(err).__name__)
        if spec is not None and not isinstance(spec, tuple) and not isinstance(err, ProvError):
            fails.append(Failure("oracle", None, "well-formed PROV-XML makes the reader crash with %s: %s" % (type(err).__name__, str(err)[:100]), case))
        return
    ctx.count("xml-loaded")
    got = proto.strict_doc(d)
    if xml_expressible(d):
        for ft in (False, True):
            try:
                d2 = ProvDocument.deserialize(content=d.serialize(format="xml", force_types=ft), format="xml")
                if proto.strict_doc(d2) != got:
                    fails.append(Failure("oracle", sig_for(d), "loaded document changes when written as XML (force_types=%s) and loaded again" % ft, case))
                    break
            except Exception as e:  # noqa
                fails.append(Failure("oracle", sig_for(d), "loaded document cannot be written as XML and loaded again: %r" % (e,), case))
                break
    if spec is not None and not isinstance(spec, tuple):
        spec, got = relax_mixed(spec, got)
        if spec != got:
            why = ""
            for k in sorted(set(spec) | set(got)):
                a, b = spec.get(k) or [], got.get(k) or []
                if a != b:
                    why = "bundle %r: the text states %s, the library loaded %s" % (k, [x for x in a if x not in b][:1], [x for x in b if x not in a][:1])
                    break
            fails.append(Failure("oracle", None, "the loaded document differs from what the XML text states: " + why[:900], case))
    elif isinstance(spec, tuple):
        ctx.count("xml-spec-reader-fatal")
    else:
        ctx.count("xml-spec-reader-rejects")


def cross_format(ctx, text, fails):
    """JSON text -> d -> XML -> d' must have the same content as d when d is XML-expressible"""
    try:
        d = ProvDocument.deserialize(content=text, format="json")
    except Exception:
        return
    if not xml_expressible(d):
        ctx.count("cross:not-xml-expressible")
        return
    want = proto.strict_doc(d)
    try:
        d2 = ProvDocument.deserialize(content=d.serialize(format="xml"), format="xml")
    except Exception as e:  # noqa
        fails.append(Failure("oracle", sig_for(d), "JSON -> document -> XML -> load raised %r" % (e,), {"text": text, "origin": "cross", "format": "json", "cross": True}))
        return
    ctx.count("cross:checked")
    if proto.strict_doc(d2) != want:
        fails.append(Failure("oracle", sig_for(d), "JSON -> document -> XML -> document changes the content", {"text": text, "origin": "cross", "format": "json", "cross": True}))


def sig_for(d):
    from .c01 import unresolvable
    return "C11:name-not-resolvable-in-scope" if unresolvable(d) else None


def run(ctx):
    g = Gen(ctx.seed * 1000003 + 11)
    fg = foreign_json.ForeignGen(g)
    fails = []
    texts = []
    for _ in range(ctx.n(300, 3000)):
        t = json.dumps(fg.document(), ensure_ascii=False)
        texts.append((t, "generated"))
    files = foreign_json.corpus_files()
    n_mut = ctx.n(150, len(files) * len(foreign_json.MUTATIONS))
    for i in range(n_mut):
        if ctx.tier == "thorough":
            f = files[i % len(files)]
            how = foreign_json.MUTATIONS[(i // len(files)) % len(foreign_json.MUTATIONS)]
        else:
            f = g.choice(files)
            how = g.choice(foreign_json.MUTATIONS)
        try:
            tree = json.load(open(f, encoding="utf-8"))
        except Exception:
            continue
        mt, applied = foreign_json.mutate(g, tree, how)
        ctx.count("mutation:%s:%s" % (how, "applied" if applied else "n/a"))
        if applied:
            texts.append((json.dumps(mt, ensure_ascii=False), "%s+%s" % (f.rsplit("/", 1)[-1], how)))
    specs = []
    for i in range(0, len(texts), 200):
        specs.extend(specread.spec_read_json_texts([t for (t, _o) in texts[i:i + 200]]))
    # reader channel: the Lean model of the library's decoder on the same foreign texts
    from ..world import World
    from ..common import corr_failures
    worlds = []
    for (t, origin) in texts:
        if g.chance(0.5):
            w = World()
            h, err = w.dec_json(t)
            if h is not None:
                w.obs(h)
            worlds.append(w)
    for i in range(0, len(worlds), 100):
        fails.extend(corr_failures(ctx, worlds[i:i + 100]))
    for (t, origin), spec in zip(texts, specs):
        ctx.evaluations += 1
        before = len(fails)
        judge(ctx, t, spec, origin, fails)
        if g.chance(0.5):
            cross_format(ctx, t, fails)
        if spec is not None and not isinstance(spec, tuple) and sum(len(v) for v in spec.values()) >= 2:
            ctx.nontrivial(t)
        ctx.sample({"origin": origin, "text": t[:300]})
    # ---- PROV-XML half
    from .. import foreign_xml
    xg = foreign_xml.ForeignXmlGen(g)
    xtexts = [(xg.document(), "generated-xml") for _ in range(ctx.n(200, 2000))]
    xfiles = foreign_xml.corpus_files()
    for i in range(ctx.n(60, len(xfiles) * len(foreign_xml.MUTATIONS))):
        if ctx.tier == "thorough":
            f = xfiles[i % len(xfiles)]
            how = foreign_xml.MUTATIONS[(i // len(xfiles)) % len(foreign_xml.MUTATIONS)]
        else:
            f = g.choice(xfiles)
            how = g.choice(foreign_xml.MUTATIONS)
        mt, applied = foreign_xml.mutate(g, open(f, "rb").read().decode("utf-8"), how)
        ctx.count("xml-mutation:%s:%s" % (how, "applied" if applied else "n/a"))
        if applied:
            xtexts.append((mt, "%s+%s" % (f.rsplit("/", 1)[-1], how)))
    xspecs = []
    for i in range(0, len(xtexts), 100):
        xspecs.extend(specread.spec_read_xml_texts([t for (t, _o) in xtexts[i:i + 100]]))
    xworlds = []
    for (t, origin), spec in zip(xtexts, xspecs):
        ctx.evaluations += 1
        judge_xml(ctx, t, spec, origin, fails)
        if spec is not None and not isinstance(spec, tuple) and sum(len(v) for v in spec.values()) >= 2:
            ctx.nontrivial(t)
        if g.chance(0.5):
            w = World()
            h, err = w.dec_xml(t)
            if h is not None:
                w.obs(h)
            xworlds.append(w)
    for i in range(0, len(xworlds), 100):
        fails.extend(corr_failures(ctx, xworlds[i:i + 100]))
    return fails


def oracle_only(ctx):
    return [f for f in run(ctx) if f.kind == "oracle"]


def replay(ctx, case):
    fails = []
    if case.get("format") == "xml":
        spec = specread.spec_read_xml_texts([case["text"]])[0]
        judge_xml(ctx, case["text"], spec, case.get("origin", "replay"), fails)
    elif case.get("cross"):
        cross_format(ctx, case["text"], fails)
    else:
        spec = specread.spec_read_json_texts([case["text"]])[0]
        judge(ctx, case["text"], spec, case.get("origin", "replay"), fails)
    return fails

"""C05 — records stay in normal form."""
import copy
import datetime
import json

from prov.identifier import Identifier, QualifiedName, Namespace
from prov.model import Literal, ProvException
from prov.constants import PROV

from ..world import World
from ..gen import Gen, FORMALS, REF_ATTRS, TIME_ATTRS, ELEMENT_KINDS
from ..docgen import DocBuilder
from ..runner import Failure
from ..common import batched, generic_replay
from .. import proto

XSDU = "http://www.w3.org/2001/XMLSchema#"
PROVU = "http://www.w3.org/ns/prov#"

META = {
    "level": "proof",
    "rule": "random construction sequences over all 18 kinds through new_record / typed factories / element convenience methods / "
            "add_attributes / set_time / add_asserted_type with every argument representation; after the sequence every record of "
            "every scope is checked for normal form, a second value is offered to a filled formal slot (refusal / no-op), and typed "
            "literals are compared with direct values. Non-trivial = the case exercised at least one coercion, refusal or literal "
            "conversion; distinct by content hash.",
    "assumptions": [
        "A-LEX: float(lexical) is supplied by the harness; dateutil agrees with the model's ISO parser on isoformat() strings (sampled)",
        "not claimed (property text): membership records created with several prov:entity values in one call",
    ],
    "explanation": "Theorems c05_addAttributes_preserves_normal (any representation, any failure point), c05_second_value_refused, "
                   "c05_same_value_noop, c05_entry_path_{int,string,anyURI,boolean}, c05_setTime_value, c05_addAssertedType_normal.",
}


def native_parse(lit):
    """independent of the library: does this Literal have a natively supported datatype and a valid lexical form?"""
    t = lit.datatype
    if t is None:
        return True, "no-datatype"
    if not t.uri.startswith(XSDU):
        return False, None
    l = t.uri[len(XSDU):]
    v = lit.value
    try:
        if l in ("int", "long"):
            int(v)
            return True, l
        if l == "double":
            float(v)
            return True, l
        if l == "boolean":
            return (v.lower() in ("true", "false", "0", "1")), l
        if l in ("string", "anyURI"):
            return True, l
        if l == "dateTime":
            import dateutil.parser
            dateutil.parser.parse(v)
            return True, l
    except (ValueError, OverflowError):
        return False, None
    return False, None


def check_normal(rec):
    """list of normal-form problems of one real record"""
    probs = []
    byname = {}
    for (a, v) in rec.attributes:
        byname.setdefault(a.uri, []).append(v)
    kind = rec.get_type().localpart
    for uri, vals in byname.items():
        if uri.startswith(PROVU) and uri[len(PROVU):] in REF_ATTRS | TIME_ATTRS:
            l = uri[len(PROVU):]
            if len(vals) > 1 and not (kind == "Membership"):
                probs.append("formal attribute prov:%s holds %d values" % (l, len(vals)))
            for v in vals:
                if l in REF_ATTRS and not isinstance(v, QualifiedName):
                    probs.append("reference attribute prov:%s holds %r" % (l, type(v).__name__))
                if l in TIME_ATTRS and not isinstance(v, datetime.datetime):
                    probs.append("time attribute prov:%s holds %r" % (l, type(v).__name__))
        else:
            for v in vals:
                if isinstance(v, Literal) and v.langtag is None:
                    ok, what = native_parse(v)
                    if ok:
                        probs.append("attribute <%s> keeps convertible literal %s (%s)" % (uri, v, what))
    return probs


def different_value(g, v):
    if isinstance(v, QualifiedName):
        return QualifiedName(v.namespace, v.localpart + "_other")
    if isinstance(v, datetime.datetime):
        if g.chance(0.4):
            # the same clock reading under another UTC offset (or none) is another instant
            tzs = [None, datetime.timezone.utc, datetime.timezone(datetime.timedelta(hours=5))]
            off = lambda z: None if z is None else z.utcoffset(None)     # (tzinfo objects of different libraries compare unequal)
            return v.replace(tzinfo=g.choice([z for z in tzs if off(z) != v.utcoffset()]))
        return v + datetime.timedelta(days=1)
    return None


def make_case(ctx, g):
    w = World()
    fails = []
    b = DocBuilder(g, w, malformed=0.08, reclock=0.2, foreign_formal=0.08)
    d, scopes = b.random_document(n_records=g.rng.randint(1, 7))
    flags = set()
    all_recs = [(c, h) for c in scopes for h in b.recs[c]]
    # follow-up mutations on existing records
    for _ in range(g.rng.randint(0, 5)):
        if not all_recs:
            break
        c, h = g.choice(all_recs)
        rec = w.recs[h]
        kind = rec.get_type().localpart
        k = g.rng.random()
        if k < 0.35:
            w.add_attrs(h, b.other_attrs(c, g.rng.randint(1, 2)))
        elif k < 0.55 and kind == "Activity":
            st = b.time() if g.chance(0.7) else None
            en = b.time() if g.chance(0.5) else None
            if isinstance(st, str) or isinstance(en, str):
                flags.add("set_time-str")
            _ = (list(rec.attributes), hash(rec))        # the record has been read before it is changed
            w.set_time(h, st, en)
            # every view of the record tells the same times afterwards: the flat list, the formal slots, the accessors
            T0, T1 = PROVU + "startTime", PROVU + "endTime"
            flat = sorted((a.uri, str(v)) for (a, v) in rec.attributes if a.uri in (T0, T1))
            slots = sorted((a.uri, str(v)) for (a, v) in rec.formal_attributes if a.uri in (T0, T1) and v is not None)
            acc = sorted((u, str(v)) for (u, v) in ((T0, rec.get_startTime()), (T1, rec.get_endTime())) if v is not None)
            if not (flat == slots == acc):
                fails.append(Failure("oracle", None, "after set_time the views of the activity disagree: attributes %s, formal_attributes %s, "
                                     "get_startTime/get_endTime %s" % (flat, slots, acc), {"ops": list(w.ops)}))
        elif k < 0.75:
            v = g.value(b.scope_namespaces(c), ["qn", "qn", "lit", "str", "int", "uri"])
            if isinstance(v, Literal):
                flags.add("add_type-literal")
            w.add_type(h, v)
        else:
            # offer a second value to a formal slot
            formal = [(a, v) for (a, v) in rec.formal_attributes if v is not None]
            if formal:
                a, v = g.choice(formal)
                if a.localpart == "collection":
                    a = "prov:collection"   # a name *object* prov:collection switches on the membership compatibility path (not claimed)
                before = proto.canon_record(rec)
                if g.chance(0.5):
                    nv = different_value(g, v)
                    err = w.add_attrs(h, [(a, nv)])
                    flags.add("second-value")
                    if not isinstance(err, ProvException):
                        fails.append(Failure("oracle", None, "second different value for %s accepted (err=%r)" % (a, err),
                                             {"ops": list(w.ops)}))
                    elif proto.canon_record(rec) != before:
                        fails.append(Failure("oracle", None, "refused second value changed the record", {"ops": list(w.ops)}))
                else:
                    rep = v
                    if g.chance(0.5):
                        if isinstance(v, QualifiedName):
                            back = rec.bundle.valid_qualified_name(str(v))
                            own = {n.prefix: n.uri for n in rec.bundle.get_registered_namespaces()}
                            if back is not None and back.uri == v.uri:   # the print form still denotes v here (C03)
                                rep = str(v)
                            elif ":" in str(v) and own.get(str(v).split(":", 1)[0], None) is not None and \
                                    own[str(v).split(":", 1)[0]] + str(v).split(":", 1)[1] == v.uri:
                                # ... or the container *itself* declares that prefix for that namespace: then 'prefix:local', cut at
                                # the first colon, is this very name whatever the resolver says (a local part may contain colons)
                                rep = str(v)
                        elif isinstance(v, datetime.datetime):
                            rep = v.isoformat()
                    if g.chance(0.5):
                        # the repeated value leads further pairs of the same call: they are handled as if given alone
                        extras = b.other_attrs(c, g.rng.randint(1, 2))
                        if g.chance(0.3):
                            others = [(a2, v2) for (a2, v2) in formal if a2 != a and a2.localpart != "collection"]
                            if others:
                                a2, v2 = g.choice(others)
                                extras.append((a2, different_value(g, v2) if g.chance(0.5) else v2))
                        twin = copy.deepcopy(rec)
                        try:
                            twin.add_attributes(list(extras))
                            err2 = None
                        except Exception as e:   # noqa: BLE001
                            err2 = e
                        err = w.add_attrs(h, [(a, rep)] + list(extras))
                        flags.add("same-value-then-more")
                        # (compared by URI: the repeated pair may itself register its name's namespace, which shifts the numbering of
                        #  the prefixes generated afterwards -- print forms are C03's subject, content is this property's)
                        if type(err) is not type(err2) or proto.strict_record(rec) != proto.strict_record(twin):
                            fails.append(Failure("oracle", None, "pairs after a repeated value of %s are not handled as when given alone "
                                                 "(err=%r, alone=%r)" % (a, err, err2), {"ops": list(w.ops)}))
                    else:
                        err = w.add_attrs(h, [(a, rep)])
                        flags.add("same-value")
                        if err is not None or proto.canon_record(rec) != before:
                            fails.append(Failure("oracle", None, "re-adding the same value for %s is not a no-op (err=%r)" % (a, err),
                                                 {"ops": list(w.ops)}))
        w.obs_rec(h)
    # one constructing call that states a formal attribute twice — as the positional argument and among the other attributes —
    # with different values: refused, and no record arrives (stated twice with the same value: accepted, one value)
    if g.chance(0.3) and scopes:
        from ..docgen import KIND_TO_FACTORY, NO_ID_KINDS
        c = g.choice(scopes)
        kind = g.choice([k for k in FORMALS if FORMALS[k] and k != "Membership"])
        b.o["malformed"], keep_mal = 0.0, b.o["malformed"]
        args = b.formal_args(c, kind, mask_p=0.9)
        b.o["malformed"] = keep_mal
        idx = [i for i, a_ in enumerate(args) if a_ is not None]
        if idx:
            i = g.choice(idx)
            l = FORMALS[kind][i]
            same = g.chance(0.3)
            if same:
                v2 = args[i]
            elif l in TIME_ATTRS:
                v2 = datetime.datetime(1851, g.rng.randint(1, 12), g.rng.randint(1, 28), g.rng.randint(0, 23), 30, 15)
            else:
                v2 = QualifiedName(Namespace("cf", "http://conflict.example/ns#"), "other%d" % g.rng.randint(0, 9))
            other = b.other_attrs(c, g.rng.randint(0, 1)) + [(PROV[l] if g.chance(0.6) else "prov:" + l, v2)]
            ident = b.ident(c) if (kind in ELEMENT_KINDS or g.chance(0.5)) else None
            n_before = len(w.conts[c].records)
            if g.chance(0.6) and kind in KIND_TO_FACTORY and kind not in NO_ID_KINDS:    # (those factories take no attributes)
                h2, err = w.factory(c, g.choice(KIND_TO_FACTORY[kind]), ident, args, other)
                how = "factory"
            else:
                attrs = [(PROV[l_], a_) for l_, a_ in zip(FORMALS[kind], args)] + other
                h2, err = w.new_record(c, kind, ident, attrs)
                how = "new_record"
            flags.add("stated-twice-in-one-call:" + ("same" if same else "different"))
            n_after = len(w.conts[c].records)
            if not same:
                if err is None:      # (another pair of the call may be refused first, for a reason of its own)
                    fails.append(Failure("oracle", None, "%s(%s): prov:%s given as argument and, with another value, among the other "
                                         "attributes of the same call was accepted" % (how, kind, l), {"ops": list(w.ops)}))
                elif n_after != n_before:
                    fails.append(Failure("oracle", None, "%s(%s): the refused call left a record behind" % (how, kind), {"ops": list(w.ops)}))
            elif err is None and h2 is not None:
                vals = w.recs[h2].get_attribute(PROV[l])
                if len(vals) != 1:
                    fails.append(Failure("oracle", None, "%s(%s): prov:%s stated twice with one value holds %d values" % (how, kind, l, len(vals)),
                                         {"ops": list(w.ops)}))
    # one end time, three entry paths: as the endTime argument of activity(), as an attribute pair of new_record, through
    # set_time -- next to a zone-aware start time. What is stored is what the text says, on every path (a text without offset
    # is a time without offset, whatever the start time carries)
    if g.chance(0.15) and scopes:
        import datetime as _dt
        c = g.choice(scopes)
        EXN = Namespace("ex", "http://example.org/")
        k_ = g.rng.randint(0, 99)
        start = _dt.datetime(2012, 3, 4, 9, 0, 0, tzinfo=_dt.timezone(_dt.timedelta(minutes=g.choice([60, -300, 330, 0]))))
        end = _dt.datetime(2012, 3, 4, 17, g.rng.randint(0, 59), 0)
        if g.chance(0.3):
            end = end.replace(tzinfo=_dt.timezone(_dt.timedelta(minutes=g.choice([0, 120, -210]))))
        etext = end.isoformat()
        h1, e1_ = w.factory(c, "activity", QualifiedName(EXN, "tp1_%d" % k_), [start, etext], [])
        h2, e2_ = w.new_record(c, "Activity", QualifiedName(EXN, "tp2_%d" % k_), [(PROV["startTime"], start), (PROV["endTime"], etext)])
        h3, e3_ = w.new_record(c, "Activity", QualifiedName(EXN, "tp3_%d" % k_), [])
        if h3 is not None:
            w.set_time(h3, start, etext)
        flags.add("end-time-text-beside-aware-start")
        for how_, h_ in (("activity()", h1), ("new_record", h2), ("set_time", h3)):
            if h_ is None:
                fails.append(Failure("oracle", None, "%s refused start %s / end %r" % (how_, start.isoformat(), etext), {"ops": list(w.ops)}))
                continue
            got_ = list(w.recs[h_].get_attribute(PROV["endTime"]))
            if len(got_) != 1 or not isinstance(got_[0], _dt.datetime) or got_[0].isoformat() != etext:
                fails.append(Failure("oracle", None, "%s: end time given as %r beside start %s is stored as %r" % (
                    how_, etext, start.isoformat(), [x.isoformat() if isinstance(x, _dt.datetime) else x for x in got_]), {"ops": list(w.ops)}))
    # a relation that refers to relations: the generation / usage arguments of a derivation given as the records themselves,
    # as their identifiers, as 'prefix:local' text -- the derivation holds the same two names whichever way
    if g.chance(0.15) and scopes:
        c = g.choice(scopes)
        EXN = Namespace("ex", "http://example.org/")
        k_ = g.rng.randint(0, 99)
        gen_id, use_id = QualifiedName(EXN, "gen%d" % k_), QualifiedName(EXN, "use%d" % k_)
        e2, e1, a_ = QualifiedName(EXN, "e2_%d" % k_), QualifiedName(EXN, "e1_%d" % k_), QualifiedName(EXN, "act%d" % k_)
        hg, eg = w.new_record(c, "Generation", gen_id, [(PROV["entity"], e2), (PROV["activity"], a_)])
        hu, eu = w.new_record(c, "Usage", use_id, [(PROV["activity"], a_), (PROV["entity"], e1)])
        if hg is not None and hu is not None:
            form = g.choice(["record", "qname", "text"])
            garg = {"record": w.recs[hg], "qname": gen_id, "text": None}[form]
            uarg = {"record": w.recs[hu], "qname": use_id, "text": None}[form]
            if form == "text":
                sg, su = str(w.recs[hg].identifier), str(w.recs[hu].identifier)
                back = w.conts[c].valid_qualified_name(sg)
                if back is not None and back.uri == gen_id.uri:       # the print form still denotes the name here (C03)
                    garg, uarg = sg, su
                else:
                    garg, uarg, form = gen_id, use_id, "qname"
            if g.chance(0.5):
                hd, ed = w.factory(c, "derivation", None, [e2, e1, a_, garg, uarg], [])
            else:
                hd, ed = w.new_record(c, "Derivation", None, [(PROV["generatedEntity"], e2), (PROV["usedEntity"], e1), (PROV["activity"], a_),
                                                             (PROV["generation"], garg), (PROV["usage"], uarg)])
            flags.add("relation-refers-to-relation:" + form)
            if hd is None:
                fails.append(Failure("oracle", None, "a derivation whose generation / usage arguments are given as %s was refused (%r)" % (form, ed),
                                     {"ops": list(w.ops)}))
            else:
                got_g = w.recs[hd].get_attribute(PROV["generation"])
                got_u = w.recs[hd].get_attribute(PROV["usage"])
                ok_ = (len(got_g) == 1 and len(got_u) == 1 and all(isinstance(x, QualifiedName) for x in list(got_g) + list(got_u))
                       and list(got_g)[0].uri == gen_id.uri and list(got_u)[0].uri == use_id.uri)
                if not ok_:
                    fails.append(Failure("oracle", None, "generation / usage given as %s are stored as %r / %r" % (form, got_g, got_u),
                                         {"ops": list(w.ops)}))
    # entry-path independence: typed literal vs direct value
    if g.chance(0.5) and scopes:
        c = g.choice(scopes)
        pairs = [(5, Literal("5", QualifiedName(Namespace("xsd", XSDU), "int"))),
                 (10 ** 20, Literal(str(10 ** 20), QualifiedName(Namespace("xsd", XSDU), "long"))),
                 (True, Literal("true", QualifiedName(Namespace("xsd", XSDU), "boolean"))),
                 (False, Literal("0", QualifiedName(Namespace("xsd", XSDU), "boolean"))),
                 (0.5, Literal("0.5", QualifiedName(Namespace("xsd", XSDU), "double"))),
                 # other lexical forms of the same numbers (xsd:double needs no digit on either side of the point; integers may
                 # carry a sign and leading zeros)
                 (0.5, Literal(".5", QualifiedName(Namespace("xsd", XSDU), "double"))),
                 (5.0, Literal("5.", QualifiedName(Namespace("xsd", XSDU), "double"))),
                 (-25.0, Literal("-.25E2", QualifiedName(Namespace("xsd", XSDU), "double"))),
                 (1000.0, Literal("1e3", QualifiedName(Namespace("xsd", XSDU), "double"))),
                 (7, Literal("007", QualifiedName(Namespace("xsd", XSDU), "int"))),
                 (5, Literal("+5", QualifiedName(Namespace("xsd", XSDU), "long"))),
                 ("text", Literal("text", QualifiedName(Namespace("xsd", XSDU), "string"))),
                 ("plain", Literal("plain")),
                 ("Cafe\u0301 \u212b", Literal("Cafe\u0301 \u212b", QualifiedName(Namespace("xsd", XSDU), "string"))),
                 (" padded\t", Literal(" padded\t")),
                 (Identifier("http://x/y"), Literal("http://x/y", QualifiedName(Namespace("xsd", XSDU), "anyURI")))]
        # a URI is the characters it is written with: empty fragment or query, upper-case scheme, percent-escapes, IRIs
        u = g.choice(["http://example.org/ns#", "http://example.org/q?", "HTTP://Example.org/A", "urn:example:thing#",
                      "http://example.org/%7Euser/a%20b", "http://example.org/caf\u00e9#", "mailto:someone@example.org", "http://x/y#frag"])
        pairs.append((Identifier(u), Literal(u, QualifiedName(Namespace("xsd", XSDU), "anyURI"))))
        t = g.dt()
        pairs.append((t, Literal(t.isoformat(), QualifiedName(Namespace("xsd", XSDU), "dateTime"))))
        # integers no binary double can hold: the value must arrive digit for digit
        big = g.choice([2 ** 53 + 1, 2 ** 63 - 1, -(2 ** 63) - 1, 10 ** 30 + 7, g.rng.getrandbits(90) | 1, -(g.rng.getrandbits(70) | 1)])
        pairs.append((big, Literal(str(big), QualifiedName(Namespace("xsd", XSDU), g.choice(["long", "int"])))))
        pairs.append((big, Literal(big, QualifiedName(Namespace("xsd", XSDU), "long"))))
        direct, lit = g.choice(pairs)
        name = PROV["value"]
        h1, e1 = w.new_record(c, "Entity", QualifiedName(Namespace("ex", "http://example.org/"), "pd"), [(name, direct)])
        h2, e2 = w.new_record(c, "Entity", QualifiedName(Namespace("ex", "http://example.org/"), "pl"), [(name, lit)])
        flags.add("entry-path")
        if h1 and h2:
            a1 = sorted(json.dumps(proto.strict_value(v)) for (_a, v) in w.recs[h1].attributes)
            a2 = sorted(json.dumps(proto.strict_value(v)) for (_a, v) in w.recs[h2].attributes)
            if a1 != a2:
                fails.append(Failure("oracle", None, "typed literal %s stored as %s, direct value as %s" % (lit, a2, a1),
                                     {"ops": list(w.ops)}))
        else:
            fails.append(Failure("oracle", None, "entry path pair raised %r / %r" % (e1, e2), {"ops": list(w.ops)}))
    # normal form of every record of every scope
    for c in scopes:
        for i, rec in enumerate(w.conts[c].records):
            for p in check_normal(rec):
                fails.append(Failure("oracle", None, "record %d of scope %d (%s): %s" % (i, c, rec.get_type().localpart, p),
                                     {"ops": list(w.ops), "scope": c, "index": i}))
    w.obs(d)
    errs = [o.get("err") for o in w.outs if isinstance(o, dict) and o.get("err")]
    for e in errs:
        ctx.count("err:" + e)
        flags.add("refusal")
    for f in flags:
        ctx.count(f)
    ctx.evaluations += 1
    if flags:
        ctx.nontrivial(w.ops)
    ctx.sample({"ops": w.ops[:10], "n_ops": len(w.ops)})
    return w, fails


def run(ctx):
    g = Gen(ctx.seed * 1000003 + 5)
    return batched(ctx, ctx.n(800, 8000), lambda: make_case(ctx, g))


def oracle_only(ctx):
    g = Gen(ctx.seed * 1000003 + 5)
    return [f for f in batched(ctx, ctx.n(800, 8000), lambda: make_case(ctx, g), use_model=False) if f.kind == "oracle"]


def _recheck(w, case):
    fails = []
    for c, obj in w.conts.items():
        for i, rec in enumerate(obj.records):
            for p in check_normal(rec):
                fails.append(Failure("oracle", case.get("signature"), "record %d of scope %d: %s" % (i, c, p), case))
    exp = case.get("expect_last")
    if exp is not None and w.outs[-1] != exp:
        fails.append(Failure("oracle", case.get("signature"), "last op answered %s, expected %s" % (w.outs[-1], exp), case))
    return fails


def replay(ctx, case):
    return generic_replay(ctx, case, _recheck)

"""C17 — writing to a file path is exact and all-or-nothing."""
import io
import json
import os
import shutil
import tempfile

from prov.model import ProvDocument
import prov.model as pm

from ..gen import Gen
from ..docgen import DocBuilder
from ..world import World, run_model
from ..runner import Failure

META = {
    "level": "proof",
    "rule": "documents x formats {json, xml, provn, rdf} x local file names (relative, nested, spaces, non-ASCII, '#', '?', ';', ':') "
            "x {destination absent, present} x a failure injected at every successive write call of the temporary stream, at its "
            "close and at the final move (plus the fault-free run), and, with nothing patched, under an operating-system file size limit (RLIMIT_FSIZE: the kernel takes only the first k bytes); after each run the directory listing and every file's bytes are "
            "compared with the all-or-nothing expectation and with the Lean step machine. Non-trivial = a run with an injected fault "
            "or a name containing URL syntax characters; distinct by (name, format, fault, present).",
    "assumptions": ["A-EXT: os.rename within one filesystem is atomic and mkstemp returns a fresh name; durability (fsync) and "
                    "file modes are outside the model; the cross-device copy fallback of shutil.move is not atomic (not claimed)"],
    "explanation": "Theorems c17_exact, c17_exact_plain (destination analysis) and c17_all_or_nothing (for every fault point).",
}

NAMES = ["out.json", "a#b.json", "q?x.json", "s;p.json", "c:d.json", "with space.json", "ünï-世界.json", "sub/dir/deep.json",
         "./rel.json", "%41.json", "a&b=c.json", "trailing#", "x.prov?",
         # names that are not in Unicode normal form C (a file name is the characters it is written with)
         "cafe\u0301.json", "\u212bngstrom.json", "\u1112\u1161\u11ab.json"]


OLD = b"OLD CONTENT " * 20000        # longer than any document written here: a destination that is not truncated shows


class Boom(OSError):
    """injected I/O failure (an OSError, like ENOSPC or EFBIG)"""


class BoomInterrupt(KeyboardInterrupt):
    """injected failure that is not an Exception: the user interrupts the program while the file is being written"""


class BoomExit(SystemExit):
    """injected failure that is not an Exception: sys.exit() from a signal handler while the file is being written"""


class BoomValue(ValueError):
    """injected failure of the serialiser (not an I/O error)"""


BOOMS = {"os": Boom, "interrupt": BoomInterrupt, "exit": BoomExit, "value": BoomValue}
BOOM_CLASSES = tuple(BOOMS.values())


def boom(plan, code, msg):
    cls = BOOMS[plan.get("kind") or "os"]
    return cls(code, msg) if cls is Boom else cls(msg)


class FaultyStream:
    """stands in for the buffered temporary stream: writes are kept in a buffer and reach the file when the stream is closed, as
    with a BufferedWriter holding a small document; raises at the k-th write call, or at close, where the flush fails half way
    (part of the data is on disk, the rest is lost, and close() reports it)"""

    def __init__(self, real, plan):
        self._real = real
        self._plan = plan
        self._buf = []

    def write(self, data):
        self._plan["calls"] += 1
        if self._plan["fault"] is not None and self._plan["calls"] == self._plan["fault"]:
            raise boom(self._plan, 28, "injected: write %d" % self._plan["calls"])
        self._buf.append(bytes(data))
        return len(data)

    def flush(self):
        pass

    def close(self):
        if not self._real.closed:
            self._plan["calls_close"] += 1
            data = b"".join(self._buf)
            self._buf = []
            if self._plan["fault"] is not None and self._plan["fault"] == self._plan["n_writes"] + 1 and self._plan["calls_close"] == 1:
                self._real.write(data[:len(data) // 2])
                self._real.close()
                raise boom(self._plan, 28, "injected: flush at close")
            self._real.write(data)
        return self._real.close()

    def __enter__(self):
        return self

    def __exit__(self, *exc_info):
        self.close()
        return False

    def __getattr__(self, name):
        return getattr(self._real, name)


def snapshot(root):
    out = {}
    for dirpath, _dirs, files in os.walk(root):
        for f in files:
            p = os.path.join(dirpath, f)
            out[os.path.relpath(p, root)] = open(p, "rb").read()
    return out


def run_once(doc, fmt, workdir, tmpdir, name, present, fault, n_writes, kind="os"):
    """one serialize(destination=name) in a fresh directory; returns (before, after, tmp leftovers, exception)"""
    for d in (workdir, tmpdir):
        shutil.rmtree(d, ignore_errors=True)
        os.makedirs(d)
    os.makedirs(os.path.join(workdir, "sub", "dir"), exist_ok=True)
    open(os.path.join(workdir, "bystander.txt"), "wb").write(b"bystander")
    if present:
        open(os.path.join(workdir, name), "wb").write(OLD)
    before = snapshot(workdir)
    plan = {"calls": 0, "calls_close": 0, "fault": fault, "n_writes": n_writes, "kind": kind}
    real_fdopen = os.fdopen
    real_move = shutil.move
    real_tempdir = tempfile.tempdir

    def fdopen(fd, mode="r", *a, **k):
        return FaultyStream(real_fdopen(fd, mode, *a, **k), plan)

    import builtins as _bi

    def open_(file, mode="r", *a, **k):
        # the same injection point reached by another spelling: open(fd, "wb") instead of os.fdopen(fd, "wb")
        if isinstance(file, int) and "w" in mode:
            return FaultyStream(_bi.open(file, mode, *a, **k), plan)
        return _bi.open(file, mode, *a, **k)

    def move(src, dst, *a, **k):
        if fault is not None and fault == n_writes + 2:
            raise boom(plan, 18, "injected: move")
        return real_move(src, dst, *a, **k)

    exc = None
    cwd = os.getcwd()
    try:
        os.chdir(workdir)
        tempfile.tempdir = tmpdir
        pm.os.fdopen = fdopen
        pm.shutil.move = move
        pm.open = open_                 # a module-level name shadows the builtin for the code of prov.model only
        try:
            doc.serialize(name, format=fmt)
        except BOOM_CLASSES as e:
            exc = e
        except Exception as e:  # noqa
            exc = e
    finally:
        os.fdopen = real_fdopen
        shutil.move = real_move
        tempfile.tempdir = real_tempdir
        os.chdir(cwd)
        try:
            del pm.open
        except AttributeError:
            pass
    if exc is not None:
        # "and nowhere else", a moment later: once the caller lets go of the exception, nothing the failed call left behind may
        # still own a file descriptor. A file opened now receives the lowest free descriptor number; if a stream of the failed
        # call is still alive and believes that number is its own, its finaliser writes into / closes this file.
        import gc
        spath = os.path.join(os.path.dirname(workdir), "sentinel.bin")
        sent = open(spath, "wb", buffering=0)
        exc.__traceback__ = None
        gc.collect()
        try:
            sent.write(b"sentinel")
            sent.close()
            intact = open(spath, "rb").read() == b"sentinel"
        except OSError:
            intact = False
        try:
            os.remove(spath)
        except OSError:
            pass
        exc.stale_descriptor = not intact
        # … and the failed call left nothing behind in the document either: the next write of the same document, with nothing
        # in its way, puts the same bytes in place as a write made to a binary stream
        exc.followup = None
        if fmt != "rdf":
            fdir = os.path.join(os.path.dirname(workdir), "followup")
            shutil.rmtree(fdir, ignore_errors=True)
            os.makedirs(fdir)
            try:
                buf = io.BytesIO()
                doc.serialize(buf, format=fmt)
                fpath = os.path.join(fdir, "after.out")
                doc.serialize(fpath, format=fmt)
                got = open(fpath, "rb").read()
                if got != buf.getvalue():
                    exc.followup = "%d bytes where the stream received %d" % (len(got), len(buf.getvalue()))
            except Exception as e2:  # noqa
                exc.followup = "raised %r" % (e2,)
            finally:
                shutil.rmtree(fdir, ignore_errors=True)
    return before, snapshot(workdir), sorted(os.listdir(tmpdir)), exc, plan["calls"]


def run_fsize(doc, fmt, workdir, tmpdir, name, present, limit):
    """the same write with nothing patched, under a real operating-system limit: RLIMIT_FSIZE makes the kernel accept only the
    first `limit` bytes of any file (a short write, then EFBIG), as a full disk or a quota would"""
    import resource
    import signal
    for d in (workdir, tmpdir):
        shutil.rmtree(d, ignore_errors=True)
        os.makedirs(d)
    os.makedirs(os.path.join(workdir, "sub", "dir"), exist_ok=True)
    open(os.path.join(workdir, "bystander.txt"), "wb").write(b"bystander")
    if present:
        open(os.path.join(workdir, name), "wb").write(OLD)
    before = snapshot(workdir)
    real_tempdir = tempfile.tempdir
    cwd = os.getcwd()
    exc = None
    old_handler = signal.signal(signal.SIGXFSZ, signal.SIG_IGN)
    soft, hard = resource.getrlimit(resource.RLIMIT_FSIZE)
    try:
        os.chdir(workdir)
        tempfile.tempdir = tmpdir
        resource.setrlimit(resource.RLIMIT_FSIZE, (limit, hard))
        try:
            doc.serialize(name, format=fmt)
        except Exception as e:  # noqa
            exc = e
    finally:
        resource.setrlimit(resource.RLIMIT_FSIZE, (soft, hard))
        signal.signal(signal.SIGXFSZ, old_handler)
        tempfile.tempdir = real_tempdir
        os.chdir(cwd)
    return before, snapshot(workdir), sorted(os.listdir(tmpdir)), exc


def run_symlink(doc, fmt, base, absolute_target):
    """the destination is a symbolic link (relative or absolute target) in a sub-directory, and the working directory holds an
    unrelated file with the name the link points to: returns (bytes now readable under the destination name, bystanders before,
    bystanders after, exception)"""
    root = os.path.join(base, "links")
    shutil.rmtree(root, ignore_errors=True)
    os.makedirs(os.path.join(root, "out"))
    with open(os.path.join(root, "data.out"), "wb") as f:
        f.write(b"unrelated file in the working directory")
    with open(os.path.join(root, "out", "data.out"), "wb") as f:
        f.write(OLD)
    os.symlink(os.path.join(root, "out", "data.out") if absolute_target else "data.out", os.path.join(root, "out", "latest.out"))
    cwd = os.getcwd()
    os.chdir(root)
    exc = None
    try:
        before = {k: v for k, v in snapshot(root).items()}
        try:
            doc.serialize(os.path.join("out", "latest.out"), format=fmt)
        except Exception as e:  # noqa
            exc = e
        try:
            with open(os.path.join(root, "out", "latest.out"), "rb") as f:
                got = f.read()
        except OSError:
            got = None
        after = snapshot(root)
    finally:
        os.chdir(cwd)
        shutil.rmtree(root, ignore_errors=True)
    return got, before, after, exc


def run_updir(doc, fmt, base, absolute):
    """the destination name climbs out of a directory that is a symbolic link: `work/latest/../out.x` with
    `work/latest -> ../store/current` names `store/out.x` (the operating system follows the link before it goes up), not
    `work/out.x`. Returns (bytes under the real destination, bytes under the lexically collapsed name, exception)"""
    root = os.path.join(base, "updir")
    shutil.rmtree(root, ignore_errors=True)
    os.makedirs(os.path.join(root, "store", "current"))
    os.makedirs(os.path.join(root, "work"))
    os.symlink(os.path.join("..", "store", "current"), os.path.join(root, "work", "latest"))
    name = os.path.join("work", "latest", "..", "out." + fmt)
    if absolute:
        name = os.path.join(root, name)
    cwd = os.getcwd()
    os.chdir(root)
    exc = None
    try:
        try:
            doc.serialize(name, format=fmt)
        except Exception as e:  # noqa
            exc = e
        def rd(p_):
            try:
                with open(p_, "rb") as f:
                    return f.read()
            except OSError:
                return None
        real = rd(os.path.join(root, "store", "out." + fmt))
        lexical = rd(os.path.join(root, "work", "out." + fmt))
    finally:
        os.chdir(cwd)
        shutil.rmtree(root, ignore_errors=True)
    return real, lexical, exc


def run(ctx, use_model=True):
    g = Gen(ctx.seed * 1000003 + 17)
    fails = []
    base = tempfile.mkdtemp(prefix="c17-", dir=os.environ.get("VERIF_SCRATCH", None))
    workdir, tmpdir = os.path.join(base, "work"), os.path.join(base, "tmp")
    model_ops = [{"op": "reset"}]
    expectations = []
    try:
        n_docs = ctx.n(6, 30)
        for _ in range(n_docs):
            w = World()
            b = DocBuilder(g, w, malformed=0.0, xml=True)
            d, _s = b.random_document(n_records=g.rng.randint(1, 5))
            doc = w.conts[d]
            for fmt in (["json", "xml", "provn", "rdf"] if ctx.tier == "thorough" else g.rng.sample(["json", "xml", "provn", "rdf"], 2)):
                try:
                    expected_bytes = None
                    buf = io.BytesIO()
                    doc.serialize(buf, format=fmt)
                    expected_bytes = buf.getvalue()
                except Exception:
                    ctx.count("format-not-applicable:" + fmt)
                    continue
                # the destination name is a symbolic link: whatever is written is what the *name given* then reads as, and no file
                # that merely shares a name with the link's target is touched
                for absolute_target in (False, True):
                    got, before, after, exc = run_symlink(doc, fmt, base, absolute_target)
                    ctx.evaluations += 1
                    ctx.count("destination-is-symlink:%s" % ("absolute" if absolute_target else "relative"))
                    case = {"name": "out/latest.out -> data.out", "format": fmt, "symlink": True, "absolute_target": absolute_target}
                    if exc is not None:
                        fails.append(Failure("oracle", None, "writing to a symbolic link raised %r" % (exc,), case))
                    elif (fmt != "rdf" and got != expected_bytes) or got is None or (fmt == "rdf" and len(got) == 0 and len(expected_bytes) > 0):
                        fails.append(Failure("oracle", None, "the destination name (a symbolic link) does not read as the complete "
                                             "serialisation afterwards (%s bytes vs %s)" % (None if got is None else len(got), len(expected_bytes)), case))
                    if after.get("data.out") != before.get("data.out"):
                        fails.append(Failure("oracle", None, "a file in the working directory that only shares its name with the link's "
                                             "target was written", case))
                    extra = [k for k in after if k not in before]
                    if extra:
                        fails.append(Failure("oracle", None, "written somewhere else: %r" % (extra,), case))
                for absolute in (False, True):
                    real, lexical, exc = run_updir(doc, fmt, base, absolute)
                    ctx.evaluations += 1
                    ctx.count("destination-climbs-out-of-a-symlinked-directory")
                    case = {"name": "work/latest/../out.%s with work/latest -> ../store/current" % fmt, "format": fmt, "updir": True, "absolute": absolute}
                    if exc is not None:
                        fails.append(Failure("oracle", None, "writing to a name that climbs out of a symlinked directory raised %r" % (exc,), case))
                    elif real is None or (fmt != "rdf" and real != expected_bytes):
                        fails.append(Failure("oracle", None, "the named file (store/out.%s) does not hold the complete serialisation (%s)" % (
                            fmt, "absent" if real is None else "%d bytes" % len(real)), case))
                    if lexical is not None:
                        fails.append(Failure("oracle", None, "written somewhere else: work/out.%s, the name with '..' collapsed as text" % fmt, case))
                names = NAMES if ctx.tier == "thorough" else g.rng.sample(NAMES, 4)
                for name in names:
                    for present in (False, True):
                        # dry run to count the write calls
                        _b, _a, _t, exc0, n_writes = run_once(doc, fmt, workdir, tmpdir, name, present, None, 10 ** 9)
                        if n_writes == 0 and exc0 is None and _a.get(os.path.normpath(name)) is not None:
                            # the file was written but not through the stream this harness wraps (os.fdopen in prov.model): faults
                            # cannot be injected any more. That is a broken tie, not a failure of the property.
                            fails.append(Failure("corr", None, "fault injection: serialize(path) no longer writes through os.fdopen/shutil.move as "
                                                 "modelled; no fault point can be exercised", {"name": name, "format": fmt}))
                            return fails
                        # the serializer itself fails (before, or in the middle of, writing): the named file is as it was
                        for trig in (("json", {"allow_nan": False}, "nan"), ("xml", {}, "ctrl"), ("rdf", {"rdf_format": "no-such-syntax"}, None)):
                            if trig[0] != fmt:
                                continue
                            bad = ProvDocument()
                            bad.add_namespace("ex", "http://example.org/")
                            bad.update(doc)
                            if trig[2] == "nan":
                                bad.entity("ex:not-a-number", {"ex:v": float("nan")})
                            elif trig[2] == "ctrl":
                                bad.entity("ex:control", {"ex:v": "bell \x07 and nul \x00"})
                            for d_ in (workdir, tmpdir):
                                shutil.rmtree(d_, ignore_errors=True)
                                os.makedirs(d_)
                            os.makedirs(os.path.join(workdir, "sub", "dir"), exist_ok=True)
                            if present:
                                open(os.path.join(workdir, name), "wb").write(OLD)
                            before3 = snapshot(workdir)
                            cwd = os.getcwd()
                            real_tempdir = tempfile.tempdir
                            exc3 = None
                            try:
                                os.chdir(workdir)
                                tempfile.tempdir = tmpdir
                                try:
                                    bad.serialize(name, format=fmt, **trig[1])
                                except Exception as e:  # noqa
                                    exc3 = e
                            finally:
                                tempfile.tempdir = real_tempdir
                                os.chdir(cwd)
                            if exc3 is None:
                                ctx.count("serializer-did-not-fail:" + fmt)
                                continue
                            after3 = snapshot(workdir)
                            left3 = sorted(os.listdir(tmpdir))
                            ctx.evaluations += 1
                            ctx.count("serializer-raises:" + fmt)
                            case3 = {"name": name, "format": fmt, "present": present, "serializer_fails": trig[2] or "rdf_format"}
                            ctx.nontrivial(case3)
                            key3 = os.path.normpath(name)
                            if after3.get(key3) != before3.get(key3):
                                got3 = after3.get(key3)
                                fails.append(Failure("oracle", None, "the serializer raised %s, yet the destination is neither its previous content nor "
                                                     "absent (%s)" % (type(exc3).__name__, "absent" if got3 is None else "%d bytes" % len(got3)), case3))
                            if left3:
                                fails.append(Failure("oracle", None, "temporary file left behind after a serializer failure: %r" % (left3,), case3))
                        if not present:
                            # history: the same document saved to the same name again after somebody else has replaced (or
                            # removed) the file: every call writes the complete serialisation
                            for other in (b"SOMEBODY ELSE WROTE THIS", None):
                                for d_ in (workdir, tmpdir):
                                    shutil.rmtree(d_, ignore_errors=True)
                                    os.makedirs(d_)
                                os.makedirs(os.path.join(workdir, "sub", "dir"), exist_ok=True)
                                cwd = os.getcwd()
                                real_tempdir = tempfile.tempdir
                                exc2 = None
                                try:
                                    os.chdir(workdir)
                                    tempfile.tempdir = tmpdir
                                    try:
                                        doc.serialize(name, format=fmt)
                                        if other is None:
                                            os.remove(name)
                                        else:
                                            open(name, "wb").write(other)
                                        doc.serialize(name, format=fmt)
                                    except Exception as e:  # noqa
                                        exc2 = e
                                finally:
                                    tempfile.tempdir = real_tempdir
                                    os.chdir(cwd)
                                got2 = snapshot(workdir).get(os.path.normpath(name))
                                ctx.evaluations += 1
                                ctx.count("saved-again-after-replacement")
                                case2 = {"name": name, "format": fmt, "history": "save, %s, save again" % ("file removed" if other is None else "file overwritten by someone else")}
                                ctx.nontrivial(case2)
                                if exc2 is not None:
                                    fails.append(Failure("oracle", None, "saving again raised %r" % (exc2,), case2))
                                elif got2 is None or got2 == other or (fmt != "rdf" and got2 != expected_bytes):
                                    fails.append(Failure("oracle", None, "after the second serialize() the named file does not hold the complete "
                                                         "serialisation (%s)" % ("absent" if got2 is None else "%d bytes, starts %r" % (len(got2), got2[:24])), case2))
                        # operating-system level: the file system takes only the first `limit` bytes
                        size = len(expected_bytes)
                        limits = sorted({0, 1, size // 3, size // 2, size - 1}) if ctx.tier == "thorough" else sorted({0, size // 2})
                        for limit in [x for x in limits if 0 <= x < size]:
                            before, after, leftovers, exc = run_fsize(doc, fmt, workdir, tmpdir, name, present, limit)
                            ctx.evaluations += 1
                            ctx.count("os-file-size-limit")
                            case = {"name": name, "format": fmt, "present": present, "fsize_limit": limit, "size": size}
                            ctx.nontrivial(case)
                            key = os.path.normpath(name)
                            got, old = after.get(key), before.get(key)
                            if exc is None:
                                fails.append(Failure("oracle", None, "the file system accepted only %d of %d bytes and serialize() reported nothing" % (limit, size), case))
                            if got != old:
                                fails.append(Failure("oracle", None, "with room for %d of %d bytes the destination is neither its previous content nor absent (%s bytes)" % (
                                    limit, size, None if got is None else len(got)), case))
                            if leftovers:
                                fails.append(Failure("oracle", None, "temporary file left behind: %r" % (leftovers,), case))
                            for k, v in before.items():
                                if k != key and after.get(k) != v:
                                    fails.append(Failure("oracle", None, "bystander file %r changed" % k, case))
                        faults = [None] + list(range(1, n_writes + 3))
                        if ctx.tier != "thorough" and len(faults) > 6:
                            faults = [None, 1, n_writes, n_writes + 1, n_writes + 2] + g.rng.sample(range(2, n_writes), min(2, max(0, n_writes - 2)))
                        for fault in faults:
                            # what fails: an I/O error, an error of the serialiser, or something that is not an Exception at all
                            # (the user's Ctrl-C, sys.exit() from a signal handler) arriving while the file is being written
                            kind = "os" if fault is None else g.choice(["os", "os", "interrupt", "exit", "value"])
                            before, after, leftovers, exc, _n = run_once(doc, fmt, workdir, tmpdir, name, present, fault, n_writes, kind)
                            ctx.evaluations += 1
                            if fault is not None:
                                ctx.count("failure-kind:" + kind)
                            case = {"name": name, "format": fmt, "present": present, "fault": fault, "n_writes": n_writes, "kind": kind}
                            if fault is not None or set(name) & set("#?;:%&"):
                                ctx.nontrivial(case)
                            key = os.path.normpath(name)
                            # everything but the destination is untouched
                            for k, v in before.items():
                                if k != key and after.get(k) != v:
                                    fails.append(Failure("oracle", None, "bystander file %r changed" % k, case))
                            extra = [k for k in after if k not in before and k != key]
                            if extra:
                                fails.append(Failure("oracle", None, "written somewhere else: %r (destination %r)" % (extra, name), case))
                            if leftovers:
                                fails.append(Failure("oracle", None, "temporary file left behind: %r" % (leftovers,), case))
                            got = after.get(key)
                            old = before.get(key)
                            if fault is None:
                                if exc is not None:
                                    fails.append(Failure("oracle", None, "fault-free write raised %r" % (exc,), case))
                                elif fmt != "rdf" and got != expected_bytes:
                                    fails.append(Failure("oracle", None, "destination does not hold the complete serialisation (%s bytes vs %s)" % (
                                        None if got is None else len(got), len(expected_bytes)), case))
                                elif got is None or (fmt == "rdf" and len(got) == 0 and len(expected_bytes) > 0):
                                    fails.append(Failure("oracle", None, "destination missing or empty after a successful write", case))
                            else:
                                if getattr(exc, "stale_descriptor", False):
                                    fails.append(Failure("oracle", None, "after a failure at step %s the call left a stream behind that still "
                                                         "uses a file descriptor it has given back: a file opened afterwards was written to / "
                                                         "closed by it" % (fault,), case))
                                if getattr(exc, "followup", None):
                                    fails.append(Failure("oracle", None, "after a failure at step %s the next, unobstructed write of the same "
                                                         "document to a file gives %s" % (fault, exc.followup), case))
                                if not isinstance(exc, BOOMS[kind]):
                                    fails.append(Failure("oracle", None, "injected failure at step %s was swallowed (%r)" % (fault, exc), case))
                                if got != old:
                                    fails.append(Failure("oracle", None, "after a failure at step %s of %s the destination is neither its previous content nor absent (%s bytes)" % (
                                        fault, n_writes + 2, None if got is None else len(got)), case))
                            model_ops.append({"op": "write_path", "n": n_writes, "fault": fault, "dest_exists": present})
                            expectations.append((case, {"ok": exc is None, "dest": ("absent" if got is None else ("old" if got == OLD else "new")),
                                                        "tmp_left": bool(leftovers), "other_intact": after.get("bystander.txt") == b"bystander"}))
                            ctx.sample(case)
        # destination analysis channel: model's destPath vs what really happens to the name
        for name in NAMES + ["file:///tmp/x.json", "//host/x.json", "http://host/x.json", "FILE:rel.json", "c+d.e-f:x", "1a:b"]:
            model_ops.append({"op": "dest_path", "s": name})
        if not use_model:
            return fails
        outs = run_model(model_ops)[1:]
        ctx.model_ops += len(outs)
        for (case, exp), got in zip(expectations, outs):
            if got != exp:
                fails.append(Failure("corr", None, "step machine predicts %s, the implementation did %s" % (got, exp), case))
        from urllib.parse import urlparse
        for name, got in zip(NAMES + ["file:///tmp/x.json", "//host/x.json", "http://host/x.json", "FILE:rel.json", "c+d.e-f:x", "1a:b"],
                             outs[len(expectations):]):
            scheme, netloc, path = urlparse(name)[:3]
            want = None if netloc != "" else (path if scheme == "file" else name)
            if got.get("path") != want:
                fails.append(Failure("corr", None, "destPath(%r) = %r but urlparse-based analysis gives %r" % (name, got.get("path"), want), {"name": name}))
    finally:
        shutil.rmtree(base, ignore_errors=True)
    return fails


def oracle_only(ctx):
    return [f for f in run(ctx, use_model=False) if f.kind == "oracle"]


def replay(ctx, case):
    g = Gen(0)
    w = World()
    b = DocBuilder(g, w, malformed=0.0, xml=True)
    d, _s = b.random_document(n_records=3)
    doc = w.conts[d]
    base = tempfile.mkdtemp(prefix="c17-")
    fails = []
    try:
        workdir, tmpdir = os.path.join(base, "work"), os.path.join(base, "tmp")
        if case.get("updir"):
            real, lexical, exc = run_updir(doc, case["format"], base, case.get("absolute", False))
            if exc is not None or real is None:
                fails.append(Failure("oracle", case.get("signature"), "the named file was not written (%r)" % (exc,), case))
            if lexical is not None:
                fails.append(Failure("oracle", case.get("signature"), "written under the name with '..' collapsed as text", case))
            return fails
        if "serializer_fails" in case:
            bad = ProvDocument()
            bad.add_namespace("ex", "http://example.org/")
            bad.update(doc)
            kw = {}
            if case["serializer_fails"] == "nan":
                bad.entity("ex:not-a-number", {"ex:v": float("nan")}); kw = {"allow_nan": False}
            elif case["serializer_fails"] == "ctrl":
                bad.entity("ex:control", {"ex:v": "bell \x07 and nul \x00"})
            else:
                kw = {"rdf_format": "no-such-syntax"}
            os.makedirs(os.path.join(workdir, "sub", "dir"), exist_ok=True)
            os.makedirs(tmpdir, exist_ok=True)
            if case["present"]:
                open(os.path.join(workdir, case["name"]), "wb").write(OLD)
            before3 = snapshot(workdir)
            cwd = os.getcwd()
            real_tempdir = tempfile.tempdir
            try:
                os.chdir(workdir)
                tempfile.tempdir = tmpdir
                try:
                    bad.serialize(case["name"], format=case["format"], **kw)
                except Exception:  # noqa
                    pass
            finally:
                tempfile.tempdir = real_tempdir
                os.chdir(cwd)
            key3 = os.path.normpath(case["name"])
            if snapshot(workdir).get(key3) != before3.get(key3):
                fails.append(Failure("oracle", case.get("signature"), "destination changed although the serializer raised", case))
            return fails
        if "history" in case:
            os.makedirs(os.path.join(workdir, "sub", "dir"), exist_ok=True)
            os.makedirs(tmpdir, exist_ok=True)
            cwd = os.getcwd()
            real_tempdir = tempfile.tempdir
            buf = io.BytesIO()
            doc.serialize(buf, format=case["format"])
            try:
                os.chdir(workdir)
                tempfile.tempdir = tmpdir
                doc.serialize(case["name"], format=case["format"])
                if "removed" in case["history"]:
                    os.remove(case["name"])
                else:
                    open(case["name"], "wb").write(b"SOMEBODY ELSE WROTE THIS")
                doc.serialize(case["name"], format=case["format"])
            finally:
                tempfile.tempdir = real_tempdir
                os.chdir(cwd)
            got2 = snapshot(workdir).get(os.path.normpath(case["name"]))
            if got2 is None or got2 == b"SOMEBODY ELSE WROTE THIS" or (case["format"] != "rdf" and got2 != buf.getvalue()):
                fails.append(Failure("oracle", case.get("signature"), "the second serialize() did not write the file", case))
            return fails
        if "fsize_limit" in case:
            # the document of the original run is not kept: take room for half of this document's bytes
            buf = io.BytesIO()
            doc.serialize(buf, format=case["format"])
            limit = min(case["fsize_limit"], len(buf.getvalue()) // 2)
            before, after, leftovers, exc = run_fsize(doc, case["format"], workdir, tmpdir, case["name"], case["present"], limit)
            key = os.path.normpath(case["name"])
            if exc is None:
                fails.append(Failure("oracle", case.get("signature"), "short write not reported", case))
            if after.get(key) != before.get(key):
                fails.append(Failure("oracle", case.get("signature"), "destination changed by a failed write", case))
            if leftovers:
                fails.append(Failure("oracle", case.get("signature"), "temporary file left behind", case))
            return fails
        before, after, leftovers, exc, n = run_once(doc, case["format"], workdir, tmpdir, case["name"], case["present"], case["fault"], case["n_writes"], case.get("kind", "os"))
        key = os.path.normpath(case["name"])
        if leftovers:
            fails.append(Failure("oracle", case.get("signature"), "temporary file left behind", case))
        if case["fault"] is not None and exc is None:
            # the write went through: the injection point (the stream serialize() opens on its temporary file, the final move)
            # was not reached in this tree. That is a broken tie between harness and code, not a failure of the property.
            fails.append(Failure("corr", None, "fault injection: the failure planned at step %s was never raised; serialize(path) no "
                                 "longer writes through the stream / move this harness wraps" % (case["fault"],), case))
            return fails
        if case["fault"] is not None and after.get(key) != before.get(key):
            fails.append(Failure("oracle", case.get("signature"), "destination changed by a failed write", case))
        if getattr(exc, "stale_descriptor", False):
            fails.append(Failure("oracle", case.get("signature"), "a stream of the failed call still uses a descriptor it gave back", case))
        if getattr(exc, "followup", None):
            fails.append(Failure("oracle", case.get("signature"), "the next write after the failed one gives " + exc.followup, case))
        if case["fault"] is None and key not in after:
            fails.append(Failure("oracle", case.get("signature"), "nothing written to the named file", case))
        if [k for k in after if k not in before and k != key]:
            fails.append(Failure("oracle", case.get("signature"), "written somewhere else", case))
    finally:
        shutil.rmtree(base, ignore_errors=True)
    return fails

"""C07 — PROV-O (RDF) round trip preserves the unified content of expressible documents."""
import collections
import datetime
import json
import logging
import warnings

from prov.constants import (PROV, PROV_ENTITY, PROV_ACTIVITY, PROV_AGENT, PROV_ATTRIBUTE_LITERALS, PROV_LABEL, PROV_LOCATION, PROV_ROLE,
                            PROV_TYPE, PROV_VALUE)
from prov.identifier import Identifier, QualifiedName, Namespace
from prov.model import Literal, ProvDocument, PROV_REC_CLS

from ..gen import Gen
from ..world import World
from ..common import corr_failures, distrust_known_by_world
from ..proto import strict_doc
from ..runner import Failure

META = {
    "level": "proof",
    "rule": "documents generated clause by clause from the property's quantifier (all namespaces on the document under non-empty "
            "prefixes, non-empty bundles, one kind per identifier, both endpoints, no mention, no PROV class as prov:type of a relation, "
            "plain-only kinds without extras when anonymous, no identified+anonymous relation of one kind on one subject; values: "
            "str, int, bool, datetime, URI, qualified name, language-tagged string incl. empty and non-ASCII; attribute names that "
            "contain 'activity', 'entity', 'agent', 'qualified', 'plan', 'time', 'location', 'asInBundle' as substrings; small name pools so that "
            "subjects and identifiers collide) x three channels: writer (quads of the real encode_document vs the model's), reader "
            "(the real decode_document and the model's on the same rdflib graph in rdflib's iteration order), end-to-end (TriG text "
            "written, parsed, decoded; strict URI-level content compared as sets with unified()). Non-trivial = a document with a relation; "
            "distinct by op sequence.",
    "assumptions": ["A-EXT: rdflib (TriG writer and parser, literal value conversion, iteration order of a graph) is outside the model; its "
                    "conversions are observed per literal and passed to the model as hints; dateutil.parser for xsd:dateTime likewise",
                    "floats, foreign datatypes and names that need rdflib's compute_qname are outside the model (counted, not compared)"],
    "explanation": "Theorems in Prov/Props/C07.lean (predicate renaming inverse per kind, qualified/unqualified exclusivity, value mapping).",
}

REL_WIDE = ["Mention"]
REL = ["Generation", "Usage", "Communication", "Start", "End", "Invalidation", "Derivation", "Attribution", "Association", "Delegation",
       "Influence", "Specialization", "Alternate", "Membership"]
PLAIN_ONLY = {"Attribution", "Communication", "Delegation", "Influence", "Specialization", "Alternate", "Membership"}
STR = ["a", "hello world", "café 世界", 'say "hi"', "line1\nline2", "", "5", "true", "a<b&c", " lead", "tab\there"]
NSS = [("ex", "http://example.org/"), ("dn", "http://other/ns#"), ("ex2", "http://a/b/"), ("u", "urn:x:"), ("act", "http://example.org/activity/"),
       ("doi", "https://doi.org/")]
ATTR_LOCALS = ["attr", "activityLevel", "entityCount", "agentCode", "qualifiedBy", "plan", "time2", "role", "asInBundleX", "location", "used2"]
KNOWN = {
    "identified-alternate": "C07:identified-alternate",
    "element-typed-other-base": "C07:element-typed-with-another-base-class",
    "plain-and-qualified-same-subject": "C07:plain-and-qualified-association-same-activity",
}


class RdfBuilder:
    def __init__(self, g, w, in_domain=True):
        self.g, self.w, self.in_domain = g, w, in_domain
        self.kinds_of_id = {}
        self.formals_of_id = {}
        self.used_subj = {}      # container -> (kind, subject) -> {"id", "anon"}: kept across chapters of one history

    def build(self):
        g, w = self.g, self.w
        r = g.rng
        d = w.new_doc()
        self.nss = []
        chosen = r.sample(NSS, r.randint(1, 3))
        if len(chosen) > 1 and r.random() < 0.3:
            # the same prefixes and the same URIs, paired the other way round: what a prefix or a URI was called in an earlier
            # document of this process says nothing about this one
            chosen = list(zip([p for (p, _u) in chosen], [u for (_p, u) in chosen[1:] + chosen[:1]]))
        for p, u in chosen:
            w.add_ns(d, p, u)
        self.nss = list(w.conts[d].get_registered_namespaces())
        self.fill(d, r.randint(1, 8))
        for _ in range(r.choice([0, 0, 1, 2])):
            bid = self.name()
            if bid.uri in self.kinds_of_id:
                continue
            self.kinds_of_id[bid.uri] = "bundle"
            b, _e = w.bundle(d, bid)
            if b is None:
                continue
            self.fill(b, r.randint(1, 5))
            if not w.conts[b].get_records():
                w.new_record(b, "Entity", self.name_of_kind("Entity"), [])
        return d

    def name(self):
        r = self.g.rng
        return QualifiedName(r.choice(self.nss), r.choice(["e", "a", "ag", "x", "e", "a", "ag", "x", "r%20v"]) + str(r.randint(0, 4)))   # (a percent-escape is part of the name)

    def name_of_kind(self, kind):
        for _ in range(20):
            n = self.name()
            if self.kinds_of_id.setdefault(n.uri, kind) == kind:
                return n
        return None

    def value(self):
        r = self.g.rng
        k = r.random()
        if k < 0.3:
            return r.choice(STR)
        if k < 0.42:
            return Literal(r.choice(STR), langtag=r.choice(["en", "fr", "en-GB", "zh-Hant", "pt-BR"]))
        if k < 0.55:
            return r.choice([r.randint(-100, 100), r.randint(-100, 100), 0, 2 ** 31, -2 ** 31 - 1, 2 ** 40, 2 ** 63 - 1, 2 ** 63 + 11,
                             -2 ** 63 - 5, 10 ** 30])
        if k < 0.65:
            return r.choice([True, False])
        if k < 0.75:
            return self.zone(datetime.datetime(r.choice([1970, 2012, 2024, 2024, 1, 7, 50, 79, 999, 9999]), r.randint(1, 12), r.randint(1, 28), r.randint(0, 23),
                                               r.randint(0, 59), r.randint(0, 59), r.choice([0, 0, 250000, 5000, 42])))
        if k < 0.9:
            if r.random() < 0.25:
                # a name Turtle cannot abbreviate (its local part has a slash): written as a full IRI; when nothing else of that
                # namespace is written in abbreviated form the text carries no @prefix line for it
                if r.random() < 0.35:
                    # … in a namespace nothing else in the document uses: certainly no @prefix line
                    return QualifiedName(Namespace("lone", "http://lonely.example/ns/"), r.choice(["p/q%d", "10.1000/x%d"]) % r.randint(0, 4))
                return QualifiedName(r.choice(self.nss), r.choice(["10.5281/zenodo.%d", "a/b%d", "p/q/r%d"]) % r.randint(0, 4))
            return self.name()
        if r.random() < 0.3:
            # a URI is the characters it is written with: an empty fragment or query, an upper-case scheme, a one-slash file: URI
            return Identifier(r.choice(["http://example.org/vocab/ns#", "http://example.org/search?", "HTTP://Example.org/A",
                                        "file:/x/y", "urn:example:thing#", "http://example.org/a%20b?x=%2F"]))
        return Identifier("http://example.org/id/" + str(r.randint(0, 9)))

    def zone(self, t):
        """naive, UTC, or at an offset: whole and fractional hours, east and west"""
        r = self.g.rng
        k = r.random()
        if k < 0.45:
            return t
        if k < 0.6:
            return t.replace(tzinfo=datetime.timezone.utc)
        return t.replace(tzinfo=datetime.timezone(datetime.timedelta(minutes=r.choice([60, -300, 330, 765, -90, -210, -570, 345]))))

    def extras(self, relation):
        r = self.g.rng
        out = []
        for _ in range(r.choice([0, 0, 1, 2, 3])):
            key = r.choice([QualifiedName(r.choice(self.nss), r.choice(ATTR_LOCALS)), PROV_LABEL, PROV_LOCATION, PROV_ROLE, PROV_TYPE, PROV_VALUE])
            v = self.value()
            if key == PROV_LABEL and not isinstance(v, (str, Literal)):
                v = r.choice(STR)
            if key == PROV_TYPE and isinstance(v, QualifiedName) and v.namespace.uri == PROV.uri:
                continue
            out.append((key, v))
        if not relation and self.g.chance(0.1):
            out.append((PROV_TYPE, PROV[r.choice(["Person", "Organization", "SoftwareAgent", "Plan", "Collection", "Bundle"])]))
        return out

    def fill(self, c, n):
        g, w = self.g, self.w
        r = g.rng
        used_subj = self.used_subj.setdefault(c, collections.defaultdict(set))
        for _ in range(n):
            if r.random() < 0.4:
                kind = r.choice(["Entity", "Activity", "Agent"])
                ident = self.name_of_kind(kind)
                if ident is None:
                    continue
                ex = self.extras(False)
                # a subtype label is only in the space when it belongs to this kind (else the kind is ambiguous in RDF)
                base = {"Person": "Agent", "Organization": "Agent", "SoftwareAgent": "Agent", "Plan": "Entity", "Collection": "Entity", "Bundle": "Entity"}
                if self.in_domain:
                  ex = [(k, v) for (k, v) in ex if not (k == PROV_TYPE and isinstance(v, QualifiedName) and v.namespace.uri == PROV.uri
                                                     and base.get(v.localpart) != kind)]
                elif r.random() < 0.15:
                    ex.append((PROV_TYPE, PROV[r.choice(["Agent", "Entity", "Activity", "Person", "Plan"])]))
                attrs = []
                if kind == "Activity":
                    if r.random() < 0.4:
                        attrs.append(("prov:startTime", self.zone(datetime.datetime(r.choice([2012, 2012, 50, 7]), 1, 1, r.randint(0, 23)))))
                    if r.random() < 0.4:
                        attrs.append(("prov:endTime", self.zone(datetime.datetime(2013, 1, 1, r.randint(0, 23)))))
                w.new_record(c, kind, ident, attrs + ex)
            else:
                kind = r.choice(REL if self.in_domain else REL + REL_WIDE)
                formals = [f for f in PROV_REC_CLS[PROV[kind]].FORMAL_ATTRIBUTES]
                ident = self.name_of_kind(kind) if r.random() < 0.5 else None
                args = []
                if ident is not None and ident.uri in self.formals_of_id:
                    args = self.formals_of_id[ident.uri]      # the same relation stated again (unified merges the attributes)
                else:
                    for i, f in enumerate(formals):
                        if i < 2:
                            args.append((f, self.name()))
                        elif f in PROV_ATTRIBUTE_LITERALS:
                            if r.random() < 0.4:
                                args.append((f, self.zone(datetime.datetime(r.choice([2014, 2014, 79, 1]), r.randint(1, 12), 1, r.randint(0, 23)))))
                        elif r.random() < 0.4:
                            args.append((f, self.name()))
                ex = self.extras(True)
                if not self.in_domain:
                    # outside the property's space (correspondence only): mentions, PROV classes as prov:type of relations,
                    # a missing second argument, attributes on anonymous plain-only kinds
                    if r.random() < 0.2:
                        ex.append((PROV_TYPE, PROV[r.choice(["Revision", "Quotation", "PrimarySource", "Person", "Usage", "Entity"])]))
                    if r.random() < 0.1 and len(args) > 1:
                        args = [args[0]] + args[2:]
                elif ident is None and kind in PLAIN_ONLY:
                    ex = []
                    args = args[:2]
                if ident is not None:
                    self.formals_of_id[ident.uri] = args
                subj = args[0][1].uri
                tag = "id" if ident is not None else "anon"
                if self.in_domain and used_subj[(kind, subj)] - {tag}:
                    continue
                used_subj[(kind, subj)].add(tag)
                w.new_record(c, kind, ident, list(args) + ex)


def sset(doc):
    return {k: sorted(set(v)) for k, v in strict_doc(doc).items() if v or k == ""}


def kind_clashes(doc):
    """(container key, record kind, identifier URI, attribute URI, numeric value) for which the records that unified() merges hold
    two ==-equal values of different Python kinds (0 and False, 1 and True and 1.0): they are one member of the merged value
    *set*, and which kind the member keeps is decided by the order in which the values arrive (A-SET), on both sides"""
    from fractions import Fraction
    out = set()
    conts = [("", doc)] + ([(b.identifier.uri if b.identifier is not None else "<None>", b) for b in doc.bundles] if doc.is_document() else [])
    for ck, c in conts:
        seen = {}
        for r in c.get_records():
            if r.identifier is None:
                rid = id(r)
            else:
                rid = r.identifier.uri
            for (a, v) in r.attributes:
                if isinstance(v, (bool, int, float)):
                    key = (ck, r.get_type().localpart, rid, a.uri, Fraction(v))
                    seen.setdefault(key, set()).add(type(v).__name__)
        for key, kinds in seen.items():
            if len(kinds) > 1:
                out.add((key[0], key[1], key[2], key[3], str(key[4])))
    return out


def collapse_clashes(ck, rec_json, clashes):
    """the strict record with the kind of such members erased"""
    from fractions import Fraction
    r = json.loads(rec_json)
    attrs = []
    for (u, v) in r["attrs"]:
        if v[0] in ("bool", "int", "float"):
            num = Fraction(int(v[1])) if v[0] == "bool" else Fraction(v[1]) if v[0] == "int" else Fraction(float(v[1]))
            if (ck, r["kind"], r["id"], u, str(num)) in clashes:
                v = ["num", str(num)]
        attrs.append([u, v])
    r["attrs"] = sorted(attrs, key=lambda x: json.dumps(x, sort_keys=True))
    return json.dumps(r, sort_keys=True)


def assoc_hazard_activities(doc):
    """activities (per container) that carry both a plain anonymous wasAssociatedWith and one that is written with a qualified node"""
    out = set()
    conts = [doc] + (list(doc.bundles) if doc.is_document() else [])
    for c in conts:
        plain, qual = set(), set()
        for r in c.get_records():
            if r.get_type() == PROV["Association"]:
                fa = r.formal_attributes
                act = fa[0][1]
                # written with a qualified node: an identifier, a plan or attributes (the reader diverts every direct triple of
                # the activity into the qualified node it met last, whether that node is a blank node or the identifier)
                needs_node = r.identifier is not None or any(v is not None for (_a, v) in fa[2:]) or len(r.extra_attributes) > 0
                (qual if needs_node else plain).add(act.uri if act is not None else None)
        out |= (plain & qual)
    return out


def classify(doc, lost, gained, scenario):
    """signature of a known finding when every difference is explained by it, else None"""
    recs = [json.loads(x) for x in lost + gained]
    alt = [x for x in recs if x["kind"] == "Alternate" and x["id"] is not None]
    rest = [x for x in recs if x not in alt]
    if not rest:
        return KNOWN["identified-alternate"] if alt else None
    if scenario == KNOWN["element-typed-other-base"]:
        # the entity typed prov:Agent came back as an agent typed prov:Entity under the same identifier, nothing else
        ids = {x["id"] for x in rest}
        if len(ids) == 1 and {x["kind"] for x in rest} <= {"Entity", "Agent"}:
            return scenario
    hazard = assoc_hazard_activities(doc)
    if hazard and {x["kind"] for x in rest} == {"Association"}:
        acts = {v[1] for x in rest for (k, v) in x["attrs"] if k.endswith("#activity")}
        if acts <= hazard:
            return KNOWN["plain-and-qualified-same-subject"]
    return None


def e2e(ctx, w, d, fails, case, scenario=None):
    doc = w.conts[d]
    try:
        uni = doc.unified()
    except Exception:  # noqa
        ctx.count("unified-refused")
        return
    logging.disable(logging.CRITICAL)
    try:
        with warnings.catch_warnings():
            warnings.simplefilter("ignore")
            try:
                text = doc.serialize(format="rdf")
            except Exception as e:  # noqa
                fails.append(Failure("oracle", None, "writing an expressible document as RDF raised %r" % (e,), case))
                return
            h, err = w.dec_rdf(text=text)
    finally:
        logging.disable(logging.NOTSET)
    if err is not None:
        fails.append(Failure("oracle", None, "reading back the TriG text raised %r" % (err,), case))
        return
    back = w.conts[h]
    w.obs(h)
    a, b = sset(uni), sset(back)
    if a != b:
        clashes = kind_clashes(doc)
        if clashes:
            # ==-equal values of different kinds merged into one set member: compare with that member's kind erased
            a = {k: sorted(set(collapse_clashes(k, x, clashes) for x in v)) for k, v in a.items()}
            b = {k: sorted(set(collapse_clashes(k, x, clashes) for x in v)) for k, v in b.items()}
            ctx.count("kind-clash-in-merged-set")
    if a != b:
        lost, gained = [], []
        for k in set(a) | set(b):
            lost += sorted(set(a.get(k, [])) - set(b.get(k, [])))
            gained += sorted(set(b.get(k, [])) - set(a.get(k, [])))
        sig = classify(doc, lost, gained, scenario)
        f = Failure("oracle", sig, "RDF round trip differs from unified(): lost %s / gained %s" % (
            [x[:160] for x in lost[:2]], [x[:160] for x in gained[:2]]), case)
        f.world = w
        fails.append(f)


BIG_TEXTS = ["日本語の要約 — 来歴の記録", "Tiếng Việt: nguồn gốc dữ liệu", "Ελληνικά: προέλευση", "русский: происхождение",
             "emoji 🧪🔬 outside the BMP", "naïve café — ﬁ ligature"]


def big_document(seed):
    """a large (tens of kilobytes of TriG), PROV-O-expressible document dense in multi-byte characters: every block boundary of
    whatever size a writer or reader may use falls inside non-ASCII text somewhere"""
    import random
    r = random.Random(seed)
    doc = ProvDocument()
    doc.add_namespace("ex", "http://example.org/")
    n = r.randint(40, 90)
    for i in range(n):
        pad = "é" * r.randint(0, 7)
        attrs = [("prov:label", Literal(pad + r.choice(BIG_TEXTS) + " %d" % i, langtag=r.choice(["ja", "vi", "el", "ru", "en"]))),
                 ("ex:abstract", (r.choice(BIG_TEXTS) + " ") * r.randint(1, 12) + pad),
                 ("ex:n", i)]
        doc.entity("ex:e%d" % i, attrs)
        if i % 3 == 0:
            doc.activity("ex:a%d" % i, other_attributes=[("ex:title", pad + r.choice(BIG_TEXTS))])
            doc.wasGeneratedBy("ex:e%d" % i, "ex:a%d" % i, identifier="ex:g%d" % i, other_attributes=[("ex:note", r.choice(BIG_TEXTS) + pad)])
    b = doc.bundle("ex:bundle")
    for i in range(r.randint(3, 10)):
        b.entity("ex:be%d" % i, [("ex:abstract", (r.choice(BIG_TEXTS) + "·") * r.randint(1, 20))])
    return doc


def check_big(ctx, seed, fails):
    doc = big_document(seed)
    case = {"big_seed": seed}
    logging.disable(logging.CRITICAL)
    try:
        with warnings.catch_warnings():
            warnings.simplefilter("ignore")
            try:
                text = doc.serialize(format="rdf")
                back = ProvDocument.deserialize(content=text, format="rdf")
            except Exception as e:  # noqa
                fails.append(Failure("oracle", None, "large non-ASCII document: RDF round trip raised %r" % (e,), case))
                return
    finally:
        logging.disable(logging.NOTSET)
    ctx.count("big-document")
    ctx.count("big-document-kilobytes", len(text.encode("utf-8")) // 1024)
    a, b = sset(doc.unified()), sset(back)
    if a != b:
        lost, gained = [], []
        for k in set(a) | set(b):
            lost += sorted(set(a.get(k, [])) - set(b.get(k, [])))
            gained += sorted(set(b.get(k, [])) - set(a.get(k, [])))
        fails.append(Failure("oracle", None, "large non-ASCII document: RDF round trip differs from unified(): lost %s / gained %s" % (
            [x[:200] for x in lost[:2]], [x[:200] for x in gained[:2]]), case))


def make_case(ctx, g, in_domain=True):
    w = World()
    b = RdfBuilder(g, w, in_domain=in_domain)
    d = b.build()
    scenario = None
    if in_domain and g.chance(0.06):
        # inputs inside the stated space that are known findings: kept in the stream so that they stay visible
        r = g.rng
        if r.random() < 0.5:
            ident = b.name_of_kind("Entity")
            if ident is not None:
                w.new_record(d, "Entity", ident, [(PROV_TYPE, PROV["Agent"])])
                scenario = KNOWN["element-typed-other-base"]
        else:
            a, ag1, ag2 = b.name(), b.name(), b.name()
            if not any(rec.get_type() == PROV["Association"] and rec.formal_attributes[0][1] == a for rec in w.conts[d].get_records()) and ag1 != ag2:
                w.new_record(d, "Association", None, [("prov:activity", a), ("prov:agent", ag1)])
                w.new_record(d, "Association", None, [("prov:activity", a), ("prov:agent", ag2), ("prov:plan", b.name())])
                scenario = KNOWN["plain-and-qualified-same-subject"]
    if g.chance(0.2):
        # second chapter: written once, more records added in place, and only then written for the record
        try:
            with warnings.catch_warnings():
                warnings.simplefilter("ignore")
                w.conts[d].serialize(format="rdf")
        except Exception:  # noqa
            pass
        b.fill(d, g.rng.randint(1, 2))
        ctx.count("changed-after-first-export")
    w.enc_rdf(d)
    return w, d, scenario


def run(ctx, use_model=True):
    g = Gen(ctx.seed * 1000003 + 7)
    fails = []
    total = ctx.n(250, 2500)
    worlds = []
    for i in range(total):
        if i % 50 == 7:
            check_big(ctx, g.rng.randrange(10 ** 9), fails)
            ctx.evaluations += 1
        wide = (i % 4 == 3)
        w, d, scenario = make_case(ctx, g, in_domain=not wide)
        case = {"ops": list(w.ops), "scenario": scenario}
        if wide:
            # outside the property's space: correspondence of writer and reader only
            ctx.count("wide-document")
            try:
                with warnings.catch_warnings():
                    warnings.simplefilter("ignore")
                    logging.disable(logging.CRITICAL)
                    try:
                        text = w.conts[d].serialize(format="rdf")
                    finally:
                        logging.disable(logging.NOTSET)
                h, _err = w.dec_rdf(text=text)
                if h is not None:
                    w.obs(h)
            except Exception:  # noqa  (the writer may refuse documents outside the space)
                ctx.count("wide-writer-raised")
        else:
            e2e(ctx, w, d, fails, case, scenario)
        ctx.evaluations += 1
        doc = w.conts[d]
        if any(r.is_relation() for r in doc.get_records()) or any(r.is_relation() for bb in doc.bundles for r in bb.get_records()):
            ctx.nontrivial(w.ops)
        for r in list(doc.get_records()) + [r for bb in doc.bundles for r in bb.get_records()]:
            ctx.count("kind:%s:%s" % (r.get_type().localpart, "id" if r.identifier else "anon"))
        ctx.sample({"n_ops": len(w.ops)})
        worlds.append(w)
        if len(worlds) >= 50:
            fails.extend(corr_failures(ctx, worlds, use_model=use_model))
            worlds = []
    fails.extend(corr_failures(ctx, worlds, use_model=use_model))
    distrust_known_by_world(fails)
    if use_model:
        fails.extend(corpus_channel(ctx, g))
    return fails


def corpus_channel(ctx, g):
    """reader channel on PROV-O written by other tools: the repository's RDF test corpus (ProvToolbox output), each file through the real
    decode_document and the model's in rdflib's iteration order; outcome (document content or error class) must agree"""
    import glob
    import os
    import prov
    files = sorted(glob.glob(os.path.join(os.path.dirname(prov.__file__), "tests", "rdf", "*.t*")))
    if ctx.tier != "thorough":
        files = g.rng.sample(files, min(40, len(files)))
    worlds = []
    for f in files:
        w = World()
        try:
            h, err = w.dec_rdf(text=open(f, encoding="utf-8").read(), rdf_format="trig" if f.endswith(".trig") else "turtle")
        except Exception:  # noqa  rdflib could not parse the file
            ctx.count("corpus-unparsable")
            continue
        if h is not None:
            w.obs(h)
        ctx.count("corpus:" + ("read" if err is None else "refused"))
        worlds.append(w)
    out = []
    for i in range(0, len(worlds), 50):
        out.extend(corr_failures(ctx, worlds[i:i + 50]))
    return out


def oracle_only(ctx):
    return [f for f in run(ctx, use_model=False) if f.kind == "oracle"]


def replay(ctx, case):
    from .replay_ops import replay_ops
    if "big_seed" in case:
        fails = []
        check_big(ctx, case["big_seed"], fails)
        return fails
    ops = [o for o in case["ops"] if o["op"] not in ("enc_rdf", "dec_rdf", "obs")]
    w = replay_ops(ops)
    d = next(c for c, o in w.conts.items() if o.is_document())
    fails = []
    e2e(ctx, w, d, fails, case, case.get("scenario"))
    return fails

"""C12 — derived documents and copied records share no mutable state with their sources."""
import io
import json

from prov.identifier import Identifier, QualifiedName, Namespace
from prov.model import ProvDocument, ProvBundle

from prov.constants import PROV
from ..world import World
from ..gen import Gen
from ..docgen import DocBuilder, all_containers
from ..runner import Failure
from ..common import batched, generic_replay
from .. import proto

META = {
    "level": "proof",
    "rule": "derive -> mutate one side -> observe both sides: deriving operations copy / add_record / constructor from records / update / "
            "add_bundle(document) / unified / flattened(with bundles) / JSON, XML and RDF deserialisation; mutators add attributes, "
            "records, namespaces, default namespace, bundles, set_time, add_asserted_type. Observation = strict content + registered "
            "namespaces + default namespace of every scope. Non-trivial = the mutation changed the mutated side; distinct by content hash.",
    "assumptions": ["aliasing below record granularity is not expressible in the model; it is exposed by the non-interference oracle and by "
                    "correspondence (the model predicts independence)"],
    "explanation": "Heap model: every deriving operation allocates fresh manager/container/record cells (theorems in Props/C12); the "
                   "oracle is independent of the model.",
}

DERIVE = ["copy", "add_record", "constructor", "update", "add_bundle_doc", "add_bundle_empty_doc", "unified", "unified_bundle", "unified_twice", "flattened",
          "json", "xml", "rdf"]
MUTATE = ["add_attrs", "add_record", "add_ns", "set_default", "add_bundle", "set_time", "add_type", "conv", "add_attrs_new_ns", "via_lookup"]


def observe(obj):
    """strict content + declarations of a container (and its bundles) or of a record"""
    if isinstance(obj, ProvBundle):
        o = proto.canon_cont(obj)
        # ... and the text it prints as: a value object shared with a copy and re-spelled there (another prefix for the same
        # URI) leaves the URIs alone and still changes what the source writes
        try:
            text = obj.get_provn()
        except Exception as e:  # noqa
            text = "raises %s" % type(e).__name__
        return json.dumps([proto.uri_projection_full(o), text], sort_keys=True)
    try:
        text = obj.get_provn()
    except Exception as e:  # noqa
        text = "raises %s" % type(e).__name__
    return json.dumps([proto.strict_record(obj), text], sort_keys=True)


def observe_uri(obj):
    """the URI-level part only (what a deep copy, whose objects are all its own, is compared by)"""
    if isinstance(obj, ProvBundle):
        return json.dumps(proto.uri_projection_full(proto.canon_cont(obj)), sort_keys=True)
    return json.dumps(proto.strict_record(obj), sort_keys=True)


def existing_or_new_name(g, rec):
    """an attribute name the record already uses (a second value goes into the *same* value set), else a new one"""
    from prov.constants import PROV_ATTRIBUTES
    names = [a for (a, _v) in rec.attributes if a not in PROV_ATTRIBUTES]
    if names and g.chance(0.7):
        return g.choice(names)
    return QualifiedName(Namespace("mut", "http://mutation/"), "p")


def mutate(g, w, b, c, rec_handles):
    """apply one mutator to container c (or one of its records); returns description"""
    r = g.rng
    obj = w.conts[c]
    m = r.choice(MUTATE)
    recs = obj.records
    if m in ("add_attrs", "set_time", "add_type", "conv", "add_attrs_new_ns", "via_lookup") and not recs:
        m = "add_record"
    if m == "via_lookup":
        # the record is reached the way a caller reaches it, by its identifier: what get_record() hands out belongs to this
        # container, so a change made through it is a change to this container and to nothing else
        named = [x.identifier for x in recs if x.identifier is not None]
        if not named:
            return mutate_fallback(g, w, c)
        found = w.get_record(c, r.choice(named))
        target = found[r.randrange(len(found))] if found else None
        if target is None:
            return mutate_fallback(g, w, c)
        pair = (existing_or_new_name(g, target), "looked-up-%d" % r.randint(0, 99))
        own = [i for i, x in enumerate(recs) if x is target]
        if own:
            w.add_attrs(w.rec_at(c, own[0]), [pair])
        else:
            # not one of the container's own records: the model has no such object; the implementation is run alone and the
            # independence oracle judges what the change reached
            target.add_attributes([pair])
        return m
    if m == "add_attrs_new_ns":
        # through a record, with a name from a namespace nobody has registered yet: whoever owns the record gains it
        h = w.rec_at(c, r.randrange(len(recs)))
        w.add_attrs(h, [(QualifiedName(Namespace("newns%d" % r.randint(0, 9), "http://mutation/new%d/" % r.randint(0, 99)), "p"), "mutated")])
        return m
    if m == "conv":
        # a convenience method of an element creates a relation in the container the element belongs to
        from ..docgen import CONV
        elems = [i for i, x in enumerate(recs) if x.get_type().localpart in CONV]
        if not elems:
            return mutate_fallback(g, w, c)
        i = r.choice(elems)
        h = w.rec_at(c, i)
        mname, _k = r.choice(CONV[recs[i].get_type().localpart])
        w.conv(h, mname, [QualifiedName(Namespace("mut", "http://mutation/"), "other%d" % r.randint(0, 9))], None)
        return m
    if m == "add_attrs":
        h = w.rec_at(c, r.randrange(len(recs)))
        w.add_attrs(h, [(existing_or_new_name(g, w.recs[h]), "mutated-%d" % r.randint(0, 99))])
    elif m == "set_time":
        acts = [i for i, x in enumerate(recs) if x.get_type().localpart == "Activity"]
        if not acts:
            return mutate_fallback(g, w, c)
        w.set_time(w.rec_at(c, r.choice(acts)), g.dt(), None)
    elif m == "add_type":
        w.add_type(w.rec_at(c, r.randrange(len(recs))), QualifiedName(Namespace("mut", "http://mutation/"), "T%d" % r.randint(0, 9)))
    elif m == "add_record":
        return mutate_fallback(g, w, c)
    elif m == "add_ns":
        k = r.random()
        regs = sorted(obj.get_registered_namespaces(), key=lambda n: n.prefix)
        if regs and k < 0.3:
            # a prefix the container already uses, for another URI: the clash is recorded in the manager's rename table
            w.add_ns(c, r.choice(regs).prefix, "http://mutation/clash%d/" % r.randint(0, 9))
        elif regs and k < 0.6:
            # a second prefix for a URI the container already knows
            w.add_ns(c, "alias%d" % r.randint(0, 9), r.choice(regs).uri)
        else:
            w.add_ns(c, "mut%d" % r.randint(0, 9), "http://mutation/ns%d/" % r.randint(0, 99))
    elif m == "set_default":
        cur = obj.get_default_namespace()
        w.set_default(c, cur.uri if cur is not None and g.chance(0.3) else "http://mutation/default/")
    elif m == "add_bundle":
        if not obj.is_document():
            return mutate_fallback(g, w, c)
        w.bundle(c, QualifiedName(Namespace("mut", "http://mutation/"), "bundle%d" % r.randint(0, 999)))
    return m


def mutate_fallback(g, w, c):
    w.new_record(c, "Entity", QualifiedName(Namespace("mut", "http://mutation/"), "e%d" % g.rng.randint(0, 999)), [])
    return "add_record"


def derive(g, w, b, d, how):
    """returns (list of (source container handles), derived handle or record pair) or None"""
    r = g.rng
    dobj = w.conts[d]
    if how == "copy":
        conts = [c for c in all_containers(w, [d]) if w.conts[c].records]
        if not conts:
            return None
        c = r.choice(conts)
        h = w.rec_at(c, r.randrange(len(w.conts[c].records)))
        nh, err = w.copy(h)
        if nh is None:
            return None
        return ("rec", c, h, nh)
    if how == "add_record":
        conts = [c for c in all_containers(w, [d]) if w.conts[c].records]
        if not conts:
            return None
        c = r.choice(conts)
        h = w.rec_at(c, r.randrange(len(w.conts[c].records)))
        if g.chance(0.3):
            # into the container the record already belongs to: the result is still a new, independent record
            nh, err = w.add_record(c, h)
            if nh is None:
                return None
            return ("rec", c, h, nh)
        t = w.new_doc()
        b._init_scope(t)
        nh, err = w.add_record(t, h)
        if nh is None:
            return None
        return ("cont", d, t)
    if how == "constructor":
        n = len(dobj.records)
        if not n:
            return None
        hs = [w.rec_at(d, i) for i in range(n)]
        t, err = w.new_doc_from(hs, bundle=g.chance(0.3))
        return ("cont", d, t) if t else None
    if how == "update":
        t = w.new_doc()
        b._init_scope(t)
        if g.chance(0.5):
            b.setup_scope(t)
        if list(dobj.bundles) and g.chance(0.5):
            # the receiving document already has a bundle under an identifier one of the source's bundles uses: update() merges
            # the source's bundle into that one, and the source's bundle stays as it was
            for bo in list(dobj.bundles):
                if g.chance(0.6):
                    tb, _e = w.bundle(t, bo.identifier)
                    if tb is not None:
                        w.new_record(tb, "Entity", QualifiedName(Namespace("own", "http://receiver.example/"), "kept%d" % r.randint(0, 9)), [])
        err = w.update(t, d)
        return ("cont", d, t) if err is None else None
    if how == "add_bundle_doc":
        if list(dobj.bundles):
            return None
        t = w.new_doc()
        b._init_scope(t)
        err = w.add_bundle(t, d, QualifiedName(Namespace("ex", "http://example.org/"), "attached"))
        return ("cont", d, t) if err is None else None
    if how == "add_bundle_empty_doc":
        # a document that so far only declares namespaces (no record of its own) is added as a bundle: a copy, like any other
        src = w.new_doc()
        b._init_scope(src)
        b.setup_scope(src)
        t = w.new_doc()
        b._init_scope(t)
        err = w.add_bundle(t, src, QualifiedName(Namespace("ex", "http://example.org/"), "attached"))
        return ("cont", src, t) if err is None else None
    if how == "unified":
        t, err = w.unified(d)
        return ("cont", d, t) if t else None
    if how == "unified_twice":
        # the source is itself the result of unified(): unifying it again returns a document of its own once more
        t1, err = w.unified(d)
        if not t1:
            return None
        t2, err = w.unified(t1)
        return ("cont", t1, t2) if t2 else None
    if how == "unified_bundle":
        bs = all_containers(w, [d])[1:]
        if not bs:
            return None
        t, err = w.unified(r.choice(bs))
        return ("cont", d, t) if t else None
    if how == "flattened":
        if not list(dobj.bundles):
            return None
        t, err = w.flattened(d)
        return ("cont", d, t) if t else None
    if how in ("json", "xml", "rdf"):
        try:
            text = dobj.serialize(format=how)
            t_obj = ProvDocument.deserialize(content=text, format=how)
        except Exception:
            return None
        return ("foreign", d, t_obj)
    return None


def make_case(ctx, g):
    w = World()
    fails = []
    b = DocBuilder(g, w, repeat_id=0.25, malformed=0.0)
    d, scopes = b.random_document(n_records=g.rng.randint(1, 5))
    how = g.choice(DERIVE)
    if how in ("unified", "unified_bundle", "unified_twice", "flattened", "update", "constructor") and g.chance(0.5):
        # make sure something is really merged: the same identifier once more, same kind, one more attribute
        for c in all_containers(w, [d]):
            els = [x for x in w.conts[c].records if x.is_element()]
            if els and g.chance(0.7):
                x = g.choice(els)
                w.new_record(c, x.get_type().localpart, x.identifier,
                             [(QualifiedName(Namespace("ex", "http://example.org/"), "again"), g.rng.randint(0, 9))])
                ctx.count("duplicate-injected")
    if how == "unified" and g.chance(0.25):
        # a bundle that cannot be unified (two statements of one activity that disagree on its start time): unified() of the
        # document is refused as a whole; it does not return a document that still holds the source's bundle
        import datetime as _dt
        bundles_ = all_containers(w, [d])[1:]
        if bundles_:
            c_ = g.choice(bundles_)
            q_ = QualifiedName(Namespace("ex", "http://example.org/"), "clash%d" % g.rng.randint(0, 9))
            w.new_record(c_, "Activity", q_, [(PROV["startTime"], _dt.datetime(2020, 1, 1, 8, 0, 0))])
            w.new_record(c_, "Activity", q_, [(PROV["startTime"], _dt.datetime(2020, 1, 2, 9, 30, 0))])
            ctx.count("bundle-that-cannot-be-unified")
    src_before = observe(w.conts[d])
    res = derive(g, w, b, d, how)
    ctx.evaluations += 1
    if res is not None and res[0] == "cont" and res[1] == d and observe(w.conts[d]) != src_before:
        # independence begins with the deriving call: it reads its source and writes only what it returns (or the receiver)
        fails.append(Failure("oracle", None, "%s changed its source" % how, {"ops": list(w.ops), "derive": how, "mutated": "none", "watch": d}))
    if res is None:
        ctx.count("derive-not-applicable:" + how)
        return w, fails
    ctx.count("derive:" + how)
    import copy as _copy
    ctrl = {}
    if res[0] == "cont":
        # controls: each side as it is now, cut loose from everything by a deep copy
        ctrl = {res[1]: _copy.deepcopy(w.conts[res[1]]), res[2]: _copy.deepcopy(w.conts[res[2]])}
    mutated_sides = set()
    snapshot_alarm = False
    for _round in range(g.rng.randint(1, 3)):
        side = g.choice(["source", "derived"])
        mutated_sides.add(side)
        if res[0] == "rec":
            _tag, c, h, nh = res
            src_obj, der_obj = w.recs[h], w.recs[nh]
            before = (observe(src_obj), observe(der_obj), observe(w.conts[c]))
            target = h if side == "source" else nh
            w.add_attrs(target, [(existing_or_new_name(g, w.recs[target]), "mutated")])
            m = "add_attrs"
            after = (observe(src_obj), observe(der_obj), observe(w.conts[c]))
            other_before, other_after = (before[1], after[1]) if side == "source" else (before[0], after[0])
            changed = before != after
        else:
            _tag, s, t = res
            sobj = w.conts[s]
            tobj = t if res[0] == "foreign" else w.conts[t]
            before = (observe(sobj), observe(tobj))
            if res[0] == "foreign":
                # the derived side is not tracked by the model: mutate the source only (through the world) or the
                # foreign document directly
                if side == "source":
                    m = mutate(g, w, b, s, None)
                else:
                    tobj.add_namespace("mut", "http://mutation/")
                    tobj.entity(QualifiedName(Namespace("mut", "http://mutation/"), "e"))
                    m = "direct"
            else:
                tgt = s if side == "source" else t
                cands = all_containers(w, [tgt])
                m = mutate(g, w, b, g.choice(cands), None)
            after = (observe(sobj), observe(tobj))
            other_before, other_after = (before[1], after[1]) if side == "source" else (before[0], after[0])
            changed = before != after
        if changed:
            ctx.nontrivial(w.ops)
        if other_before != other_after:
            snapshot_alarm = True
            fails.append(Failure("oracle", None, "after %s, mutating the %s (%s) changed the other side" % (how, side, m),
                                 {"ops": list(w.ops), "derive": how, "mutated": side}))
    if res[0] == "cont":
        # what a snapshot cannot show: does either side now *behave* differently? Both are asked to resolve names under the other's
        # prefixes and to register the other's namespaces; the model, in which the two sides share nothing, predicts every answer
        _tag, s, t = res
        said = []           # every (prefix, uri) somebody has tried to register in this history, accepted as given or not
        for op in w.ops:
            if op["op"] == "add_ns" and (op["p"], op["u"]) not in said:
                said.append((op["p"], op["u"]))
        # which URI a prefix ends up with when two namespaces with one prefix reach a container through one *set* of values is
        # decided by Python's set order (hash of a class object: differs from process to process), not by the model's insertion
        # order: prefixes that this history binds to more than one URI, and generated ones (ex_1, dn_2), are asked of the
        # implementation and its control only; all others also go through the model
        import re as _re
        bound = {}

        def _scan(x):
            if isinstance(x, dict):
                for k in ("q", "v", "t"):
                    y = x.get(k)
                    if isinstance(y, list) and len(y) == 3 and all(isinstance(z, str) for z in y):
                        bound.setdefault(y[0], set()).add(y[1])
                for y in x.values():
                    _scan(y)
            elif isinstance(x, list):
                for y in x:
                    _scan(y)
        for op in w.ops:
            _scan(op)
            if op["op"] == "add_ns":
                bound.setdefault(op["p"], set()).add(op["u"])

        def ambiguous(pfx):
            return len(bound.get(pfx, ())) > 1 or _re.search(r"_\d+$", pfx) is not None or pfx in ("dn",)
        untouched = None
        if len(mutated_sides) == 1 and not snapshot_alarm:
            untouched = t if "source" in mutated_sides else s
        for (asked, other) in ((s, t), (t, s)):
            nss = [(n.prefix, n.uri) for n in sorted(w.conts[other].get_registered_namespaces(), key=lambda n: n.prefix)]
            pool = said[-6:] + [x for x in nss if x not in said][:3]
            twin = ctrl.get(asked) if asked == untouched else None
            diffs = []
            for (pfx, _u) in pool:
                if ambiguous(pfx):
                    q = w.conts[asked].valid_qualified_name("%s:probe" % pfx)
                    ctx.count("probe-outside-model")
                else:
                    q = w.vqn(asked, "%s:probe" % pfx)
                if twin is not None:
                    q2 = twin.valid_qualified_name("%s:probe" % pfx)
                    if proto.canon_q(q) != proto.canon_q(q2):
                        diffs.append("'%s:probe' resolves to %s, in the copy to %s" % (pfx, proto.canon_q(q), proto.canon_q(q2)))
            for (pfx, u) in g.rng.sample(pool, min(2, len(pool))):
                if ambiguous(pfx):
                    if twin is None:
                        continue
                    # outside the model: asked of throw-away copies of the container and of its control, so that neither changes
                    n = _copy.deepcopy(w.conts[asked]).add_namespace(Namespace(pfx, u))
                    n2 = _copy.deepcopy(twin).add_namespace(Namespace(pfx, u))
                    ctx.count("probe-outside-model")
                    if (n.prefix, n.uri) != (n2.prefix, n2.uri):
                        diffs.append("add_namespace(%r, %r) answers %s:%s, in the copy %s:%s" % (pfx, u, n.prefix, n.uri, n2.prefix, n2.uri))
                    continue
                n = w.add_ns(asked, pfx, u)
                ctx.count("behaviour-probe")
                if twin is not None:
                    n2 = twin.add_namespace(Namespace(pfx, u))
                    if (n.prefix, n.uri) != (n2.prefix, n2.uri):
                        diffs.append("add_namespace(%r, %r) answers %s:%s, in the copy %s:%s" % (pfx, u, n.prefix, n.uri, n2.prefix, n2.uri))
            if twin is not None:
                ctx.count("twin-compared")
                if not diffs and observe_uri(w.conts[asked]) != observe_uri(twin):
                    diffs.append("content / declarations differ from the copy after the same probes")
                if diffs:
                    fails.append(Failure("oracle", None, "after %s, the %s side was left alone while the other was mutated, yet it no longer behaves like a "
                                         "deep copy of itself taken before: %s" % (how, "derived" if asked == t else "source", "; ".join(diffs[:3])),
                                         {"ops": list(w.ops), "derive": how, "mutated": sorted(mutated_sides)[0]}))
    for c in list(w.conts):
        if w.conts[c].is_document():
            w.obs(c)
    ctx.sample({"derive": how, "ops": w.ops[-4:], "n_ops": len(w.ops)})
    return w, fails


def run(ctx):
    g = Gen(ctx.seed * 1000003 + 12)
    return batched(ctx, ctx.n(500, 5000), lambda: make_case(ctx, g))


def oracle_only(ctx):
    g = Gen(ctx.seed * 1000003 + 12)
    return [f for f in batched(ctx, ctx.n(500, 5000), lambda: make_case(ctx, g), use_model=False) if f.kind == "oracle"]


def replay(ctx, case):
    """replay ops; the oracle is re-evaluated on the last op: every container other than the mutated one must be unchanged"""
    from .replay_ops import replay_ops
    from ..world import run_model, diff_outputs
    ops = case["ops"]
    w = replay_ops(ops[:-1])
    before = {c: observe(o) for c, o in w.conts.items()}
    w2 = replay_ops(ops)
    fails = []
    watch = case.get("watch")
    if watch is not None:
        # containers are allocated in the same order in both worlds
        b0 = observe(w.conts[watch])
        b1 = observe(w2.conts[watch])
        if b0 != b1:
            fails.append(Failure("oracle", case.get("signature"), "container %d changed when another object was mutated" % watch, case))
    try:
        mo = run_model(w2.ops)
        df = diff_outputs(w2.ops, w2.outs, mo)
        if df:
            fails.append(Failure("corr", None, "op %d: %s" % df, case))
    except Exception as e:  # noqa
        ctx.notes.append("replay: model unavailable: %r" % (e,))
    return fails

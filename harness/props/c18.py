"""C18 — identifier lookup and typed listing agree with the record list."""
import json

from prov.identifier import Identifier, QualifiedName, Namespace
from prov.model import ProvDocument, ProvBundle

from ..world import World, CLS
from ..gen import Gen, KINDS, ELEMENT_KINDS
from ..docgen import DocBuilder, derive_step, all_containers
from ..runner import Failure
from ..common import batched, generic_replay
from .. import proto

META = {
    "level": "proof",
    "rule": "containers produced by random sequences of every record-adding operation (factories, new_record, add_record, update, "
            "add_bundle, constructor records, unified, flattened); for every identifier present (and absent ones) get_record is "
            "called in each spelling (QualifiedName same/other prefix, 'prefix:local', bare local, full URI) and compared with a scan of "
            "the record list; get_records(cls) for every class against a kind table; records mutated and re-read. Non-trivial = container "
            "with >= 2 records and >= 1 repeated or cross-prefix identifier; distinct by content hash.",
    "assumptions": ["A-SET", "x given as 'prefix:local' or bare local denotes what valid_qualified_name resolves it to in that container (C03)"],
    "explanation": "Theorems c18_idmap_append, c18_coherent_add, c18_newRecord_coherent, c18_addRecords_coherent, c18_get_record.",
}

CLS_KINDS = {"all": set(KINDS), "element": set(ELEMENT_KINDS), "relation": set(KINDS) - set(ELEMENT_KINDS)}
for k in KINDS:
    CLS_KINDS[k] = {k}
CLS_KINDS["Specialization"] = {"Specialization", "Mention"}


# local parts that contain a namespace URI again (a URL carried in a query string)
NESTED_LOCALS = ["r?u=http://a/z", "http://other/x", "vocab", ""]      # (the empty local part: the namespace URI itself is the name)


KNOWN_CAPTURE = "C18:bundle-captures-delegated-name"


def declared_uri(cont, s):
    """URI of 'prefix:local' by the declarations alone: the container's own, else its document's (None: not decided here)"""
    if not isinstance(s, str) or ":" not in s:
        return None
    p, l = s.split(":", 1)
    for scope in [cont] + ([cont.document] if (cont.is_bundle() and cont.document is not None) else []):
        for n in scope.get_registered_namespaces():
            if n.prefix == p:
                return n.uri + l
    return None


def expected_indices(cont, uri):
    return [i for i, r in enumerate(cont.records) if r.identifier is not None and r.identifier.uri == uri]


def check_container(ctx, g, w, c, fails, flags):
    cont = w.conts[c]
    recs = cont.records
    ids = []
    seen = set()
    for r in recs:
        if r.identifier is not None and r.identifier.uri not in seen:
            seen.add(r.identifier.uri)
            ids.append(r.identifier)
    if len(recs) >= 2 and len(ids) < len([r for r in recs if r.identifier is not None]):
        flags.add("repeated-id")
    probes = list(ids)
    g.rng.shuffle(probes)
    probes = probes[:4]
    for q in probes:
        spellings = [("qn", QualifiedName(Namespace(q.namespace.prefix, q.namespace.uri), q.localpart), q.uri),
                     ("qn-other-prefix", QualifiedName(Namespace("zz" + (q.namespace.prefix or "d"), q.namespace.uri), q.localpart), q.uri),
                     ("uri", q.uri, q.uri),
                     ("uri-object", Identifier(q.uri), q.uri)]
        s = str(q)
        if s:
            res = cont.valid_qualified_name(s)
            spellings.append(("print", s, res.uri if res is not None else None))
        kind, x, uri = g.choice(spellings) if g.chance(0.5) else spellings[g.rng.randrange(len(spellings))]
        for kind, x, uri in spellings if g.chance(0.4) else [(kind, x, uri)]:
            captured = None
            if kind in ("uri", "uri-object") and ":" not in str(x if kind == "uri" else x.uri):
                continue
            if kind == "print":
                # what the print form denotes is a property of the manager's state *now*: an earlier lookup with a QualifiedName
                # object may have registered its namespace in this container (strings are resolved without side effects)
                res = cont.valid_qualified_name(x)
                uri = res.uri if res is not None else None
                # … and, independently of the library's resolver: a prefix the container itself declares denotes that namespace
                # (else the one its document declares)
                ind = declared_uri(cont, x)
                if ind is not None and ind != uri:
                    if cont.is_bundle() and cont.document is not None and x.split(":", 1)[0] not in {n.prefix for n in cont.get_registered_namespaces()}:
                        # the prefix is declared by the document only; the bundle answers from its own table of prefixes it has
                        # seen for URIs registered under another prefix (root cause of known finding C03-1)
                        captured = KNOWN_CAPTURE
                    fails.append(Failure("oracle", captured, "%r is read as %s although the container declares that prefix as %s" % (
                        x, uri, ind), {"ops": list(w.ops)}))
                    uri = ind
            if kind == "print":
                # which prefix a copied namespace received can depend on the order in which Python iterates a set of attribute
                # values (admissible prefix-level divergence between model and implementation, see diff_outputs): the
                # container is observed first, so that such a history is recognised there and not at the print-form lookup
                w.obs(c)
                if cont.is_bundle() and cont.document is not None:
                    for h_, o_ in list(w.conts.items()):
                        if o_ is cont.document:
                            w.obs(h_)        # a bundle answers for prefixes of its document too
                            break
            got = w.get_record(c, x)
            exp = expected_indices(w.conts[c], uri) if uri is not None else []
            got_idx = w.outs[-1]["recs"]
            ctx.count("spelling:" + kind)
            if got_idx != exp:
                sig = captured
                fails.append(Failure("oracle", sig, "get_record(%r) [%s spelling of %s] returned records %s, the record list has %s" % (
                    x, kind, q.uri, got_idx, exp), {"ops": list(w.ops), "expect_recs": exp}))
    # absent identifiers
    for x in [QualifiedName(Namespace("ex", "http://example.org/"), "absent-id"), "ex:absent-id", "http://nowhere/absent"]:
        if g.chance(0.3):
            w.get_record(c, x)
            got_idx = w.outs[-1]["recs"]
            q = w.conts[c].valid_qualified_name(x)
            exp = expected_indices(w.conts[c], q.uri) if q is not None else []
            if got_idx != exp:
                fails.append(Failure("oracle", None, "get_record(%r) for an absent identifier returned %s" % (x, got_idx),
                                     {"ops": list(w.ops), "expect_recs": exp}))
    # typed listing
    for cls in g.rng.sample(sorted(CLS_KINDS), 3):
        w.get_records(c, cls)
        got_idx = w.outs[-1]["recs"]
        exp = [i for i, r in enumerate(w.conts[c].records) if r.get_type().localpart in CLS_KINDS[cls]]
        if got_idx != exp:
            fails.append(Failure("oracle", None, "get_records(%s) returned %s, expected %s" % (cls, got_idx, exp),
                                 {"ops": list(w.ops), "expect_recs": exp}))
    # records is an independent copy
    lst = cont.records
    n = len(lst)
    lst.append(None)
    lst.reverse()
    again = cont.records
    if len(again) != n or any(a is not b for a, b in zip(again, recs)):
        fails.append(Failure("oracle", None, "mutating the list returned by .records changed the container", {"ops": list(w.ops)}))
    # ... and so is what get_records() hands out: a caller that sorts or empties it does not change what the container lists
    lst = cont.get_records()
    if isinstance(lst, list):
        lst.append(None)
        lst.reverse()
        del lst[:max(1, len(lst) // 2)]
    again = cont.records
    if len(again) != n or any(a is not b for a, b in zip(again, recs)):
        fails.append(Failure("oracle", None, "mutating the list returned by get_records() changed the container's record list "
                             "(the identifier index still answers for the old one)", {"ops": list(w.ops), "mutate_get_records": c}))
    if g.chance(0.1) and not any(r.identifier is not None and r.identifier.uri == "http://example.org/late-arrival" for r in recs):
        # a typed listing answers for the moment it was asked: a record that arrives afterwards is not in it
        from prov.model import ProvEntity
        listing = cont.get_records(ProvEntity)
        before = [r for r in recs if isinstance(r, ProvEntity)]
        w.new_record(c, "Entity", QualifiedName(Namespace("ex", "http://example.org/"), "late-arrival"), [])
        got = list(listing)
        if len(got) != len(before) or any(a is not b for a, b in zip(got, before)):
            fails.append(Failure("oracle", None, "get_records(ProvEntity) asked before a record arrived lists %d record(s) when read "
                                 "afterwards; %d entities were there when it was asked" % (len(got), len(before)), {"ops": list(w.ops)}))
        flags.add("listing-read-after-arrival")


def adoption_scenario(ctx, g, w, fails, flags):
    """a bundle without a default namespace answers for a bare name through its document, then adopts another default namespace
    from records that arrive (update / add_record): the bare name now denotes something else, and lookups must follow"""
    d = w.new_doc()
    w.add_ns(d, "ex", "http://example.org/")
    w.set_default(d, "http://d1/")
    bh, _e = w.bundle(d, "ex:b%d" % g.rng.randint(0, 9))
    if bh is None:
        return None
    loc = g.choice(["e", "x", "a1"])
    w.new_record(bh, g.choice(["Entity", "Agent"]), loc, [])
    for x in g.rng.sample([loc, "http://d1/" + loc, "absent"], 2):
        w.get_record(bh, x)
    o = w.new_doc()
    w.set_default(o, "http://default2/")
    w.new_record(o, "Entity", loc, [])
    if g.chance(0.5):
        w.update(bh, o)
    else:
        w.add_record(bh, w.rec_at(o, 0))
    flags.add("default-adopted-after-lookup")
    for x in ("http://d1/" + loc, "http://default2/" + loc):
        w.get_record(bh, x)
    # the bundle's own default namespace is now the adopted one: that is what a bare name denotes (C03: the manager's own
    # default comes before the parent's), whatever it denoted when it was first asked
    bobj = w.conts[bh]
    dflt = bobj.get_default_namespace()
    if dflt is not None and dflt.uri == "http://default2/":
        w.get_record(bh, loc)
        got_idx = w.outs[-1]["recs"]
        exp = expected_indices(bobj, "http://default2/" + loc)
        if got_idx != exp:
            fails.append(Failure("oracle", None, "get_record(%r) in a bundle whose default namespace is now http://default2/ returned records %s, "
                                 "the record list has %s under http://default2/%s" % (loc, got_idx, exp, loc),
                                 {"ops": list(w.ops), "expect_recs": exp}))
    check_container(ctx, g, w, bh, fails, flags)
    w.obs(d)
    return d


def make_case(ctx, g):
    w = World()
    fails = []
    flags = set()
    if g.chance(0.08):
        adoption_scenario(ctx, g, w, fails, flags)
    b = DocBuilder(g, w, repeat_id=0.35, malformed=0.02, foreign_formal=0.08)
    docs = []
    roots_extra = []
    for _ in range(g.rng.randint(1, 2)):
        d, _scopes = b.random_document(n_records=g.rng.randint(1, 6))
        if g.chance(0.15) and b.lookalike(d):
            flags.add("lookalike-names")
        if g.chance(0.15) and b.many_defaults(d):
            flags.add("several-default-namespaces")
            # records that arrive through flattened() are found under the URI they had where they came from
            src_uris = []
            for cobj in [w.conts[d]] + list(w.conts[d].bundles):
                src_uris += [r.identifier.uri for r in cobj.records if r.identifier is not None]
            fh, _e = w.flattened(d)
            if fh is not None and fh != d:
                for u in sorted(set(src_uris))[:6]:
                    if ":" not in u:
                        continue
                    w.get_record(fh, u)
                    got_n = len(w.outs[-1]["recs"] or [])
                    if got_n != src_uris.count(u):
                        fails.append(Failure("oracle", None, "flattened(): get_record(%r) finds %d record(s); the document and its bundles "
                                             "hold %d under that URI" % (u, got_n, src_uris.count(u)), {"ops": list(w.ops)}))
                roots_extra.append(fh)
        docs.append(d)
    roots = list(docs) + roots_extra
    for _ in range(g.rng.randint(0, 4)):
        h = derive_step(g, w, b, docs)
        if h is not None:
            roots.append(h)
            flags.add("derived")
            if w.conts[h].is_document() and g.chance(0.5):
                docs.append(h)
                b._init_scope(h)
    for c in all_containers(w, roots):
        check_container(ctx, g, w, c, fails, flags)
    if g.chance(0.25) and b.mutate_in_place(roots):
        # second chapter: records arrive / are extended after lookups have already been answered
        flags.add("changed-after-first-lookups")
        for c in all_containers(w, roots):
            check_container(ctx, g, w, c, fails, flags)
    for d in roots:
        w.obs(d)
    ctx.evaluations += 1
    for f in flags:
        ctx.count(f)
    if flags:
        ctx.nontrivial(w.ops)
    ctx.sample({"ops": w.ops[:8], "n_ops": len(w.ops)})
    return w, fails


def run(ctx):
    g = Gen(ctx.seed * 1000003 + 18, extra_locals=NESTED_LOCALS)
    return batched(ctx, ctx.n(500, 5000), lambda: make_case(ctx, g))


def oracle_only(ctx):
    g = Gen(ctx.seed * 1000003 + 18, extra_locals=NESTED_LOCALS)
    return [f for f in batched(ctx, ctx.n(500, 5000), lambda: make_case(ctx, g), use_model=False) if f.kind == "oracle"]


def _recheck(w, case):
    exp = case.get("expect_recs")
    fails = []
    if exp is not None and w.outs[-1].get("recs") != exp:
        fails.append(Failure("oracle", case.get("signature"), "lookup returned %s, the record list has %s" % (w.outs[-1].get("recs"), exp), case))
    return fails


def replay(ctx, case):
    return generic_replay(ctx, case, _recheck)

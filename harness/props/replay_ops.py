"""Re-execute a recorded op list on the real implementation through a World."""
import datetime

from prov.identifier import Identifier, QualifiedName, Namespace
from prov.model import Literal

from ..world import World


import json


def tagged_to_plain(t):
    """driver encoding -> plain python JSON (key order kept by dict insertion order)"""
    if t is None or isinstance(t, (bool, str)):
        return t
    if "s" in t:
        return t["s"]
    if "i" in t:
        return int(t["i"])
    if "f" in t:
        return float(t["f"]["r"])
    if "a" in t:
        return [tagged_to_plain(x) for x in t["a"]]
    if "o" in t:
        return {k: tagged_to_plain(v) for (k, v) in t["o"]}
    raise TypeError(repr(t))


def tree_to_xml(t):
    """rebuild XML text from a dumped infoset tree"""
    from lxml import etree

    def build(n, parent=None):
        nsmap = {k: v for k, v in n["ns"]}
        tag = "{%s}%s" % (n["u"], n["l"]) if n["u"] else n["l"]
        el = etree.Element(tag, nsmap=nsmap) if parent is None else etree.SubElement(parent, tag, nsmap=nsmap)
        for (u, l, v) in n["a"]:
            el.set("{%s}%s" % (u, l) if u else l, v)
        if n["t"] is not None:
            el.text = n["t"]
        for c in n["c"]:
            build(c, el)
        return el
    return etree.tostring(build(t), xml_declaration=True, encoding="UTF-8").decode("utf-8")


def dec_name(j):
    if j is None:
        return None
    if "s" in j:
        return j["s"]
    p, u, l = j["q"]
    if _CUR[0] is not None:
        return _CUR[0].qname(p, u, l)
    return QualifiedName(Namespace(p, u), l)


_CUR = [None]      # the world being replayed (names are made the way that world's caller made them)


def dec_value(w, j):
    if j is None:
        return None
    if "rec" in j:
        return w.recs[j["rec"]]
    k = j["k"]
    if k == "str":
        return j["v"]
    if k == "int":
        return int(j["v"])
    if k == "bool":
        return j["v"]
    if k == "float":
        return float(j["r"])
    if k == "dt":
        y, mo, d, h, mi, s, us, tz = j["v"]
        tzinfo = None if tz is None else datetime.timezone(datetime.timedelta(minutes=tz))
        return datetime.datetime(y, mo, d, h, mi, s, us, tzinfo=tzinfo)
    if k == "uri":
        return Identifier(j["v"])
    if k == "qn":
        p, u, l = j["v"]
        return QualifiedName(Namespace(p, u), l)
    if k == "lit":
        t = j.get("t")
        return Literal(j["v"], QualifiedName(Namespace(t[0], t[1]), t[2]) if t else None, j.get("l"))
    raise ValueError(k)


def dec_attrs(w, js):
    return [(dec_name(a["n"]), dec_value(w, a["v"])) for a in js]


def replay_ops(ops, w=None):
    """handles in the recorded ops are reused: the World allocates them in the same order; with `w`, the ops continue that world"""
    if w is None:
        w = World(own_ns=bool(ops and ops[0].get("op") == "reset" and ops[0].get("own_ns")))
    _CUR[0] = w
    for op in ops:
        o = op["op"]
        if o == "reset":
            continue
        elif o == "new_doc":
            w.new_doc()
        elif o == "new_from":
            w.new_doc_from(op["recs"], op.get("bundle", False), dec_name(op["id"]) if op.get("id") else None)
        elif o == "factory":
            w.factory(op["c"], op["f"], dec_name(op["id"]), [dec_value(w, a) for a in op["args"]],
                      dec_attrs(w, op["other"]) if op["other"] else None)
        elif o == "conv":
            w.conv(op["r"], op["m"], [dec_value(w, a) for a in op["args"]], dec_attrs(w, op["other"]) if op["other"] else None)
        elif o == "add_ns":
            w.add_ns(op["c"], op["p"], op["u"])
        elif o == "set_default":
            w.set_default(op["c"], op["u"])
        elif o == "vqn":
            w.vqn(op["c"], dec_name(op["x"]))
        elif o == "bundle":
            w.bundle(op["d"], dec_name(op["id"]))
        elif o == "new_record":
            w.new_record(op["c"], op["kind"], dec_name(op["id"]), dec_attrs(w, op["attrs"]))
        elif o == "add_attrs":
            w.add_attrs(op["r"], dec_attrs(w, op["attrs"]))
        elif o == "set_time":
            w.set_time(op["r"], dec_value(w, op["st"]), dec_value(w, op["en"]))
        elif o == "add_type":
            w.add_type(op["r"], dec_value(w, op["v"]))
        elif o == "add_record":
            w.add_record(op["c"], op["r"])
        elif o == "copy":
            w.copy(op["r"])
        elif o == "get_record":
            w.get_record(op["c"], dec_name(op["x"]))
        elif o == "get_records":
            w.get_records(op["c"], op["cls"])
        elif o == "rec_at":
            w.rec_at(op["c"], op["i"])
        elif o == "bundle_at":
            w.bundle_at(op["c"], op["i"])
        elif o == "unified":
            w.unified(op["c"])
        elif o == "flattened":
            w.flattened(op["c"])
        elif o == "update":
            w.update(op["c"], op["o"])
        elif o == "add_bundle":
            w.add_bundle(op["d"], op["b"], dec_name(op["id"]))
        elif o == "eq":
            w.eq(op["a"], op["b"])
        elif o == "rec_eq":
            w.rec_eq(op["a"], op["b"])
        elif o == "rec_hash":
            w.rec_hash(op["a"], op["b"])
        elif o == "enc_json":
            w.enc_json(op["c"])
        elif o == "dec_json":
            from .. import jsontree
            w.dec_json(json.dumps(tagged_to_plain(op["tree"])))
        elif o == "to_dot":
            w.to_dot(op["c"], show_nary=op["nary"], use_labels=op["labels"], show_element_attributes=op["eattrs"],
                     show_relation_attributes=op["rattrs"])
        elif o == "graph_roundtrip":
            w.graph_roundtrip(op["c"])
        elif o == "provn":
            w.provn(op["c"])
        elif o == "provn_rec":
            w.provn_rec(op["r"])
        elif o == "enc_xml":
            w.enc_xml(op["c"], op.get("ft", False))
        elif o == "dec_xml":
            w.dec_xml(tree_to_xml(op["tree"]))
        elif o == "obs":
            w.obs(op["c"])
        elif o == "obs_rec":
            w.obs_rec(op["r"])
        elif o == "enc_rdf":
            w.enc_rdf(op["c"])
        elif o == "dec_rdf":
            # the op carries the parsed quads, not the text: write the (unique) document of the history again and read that
            import logging
            import warnings
            src = next((c for c, obj in w.conts.items() if obj.is_document()), None)
            logging.disable(logging.CRITICAL)
            try:
                with warnings.catch_warnings():
                    warnings.simplefilter("ignore")
                    h, _err = w.dec_rdf(text=w.conts[src].serialize(format="rdf"))
            finally:
                logging.disable(logging.NOTSET)
        else:
            raise ValueError("cannot replay op " + o)
    return w

"""C01 — PROV-JSON round trip preserves every document exactly."""
import json

from prov.identifier import Identifier, QualifiedName, Namespace
from prov.model import ProvDocument, ProvBundle, Literal

from ..world import World
from ..gen import Gen
from ..docgen import DocBuilder, all_containers
from ..runner import Failure
from ..common import batched, generic_replay
from .. import proto

META = {
    "level": "proof",
    "rule": "documents built through the public API (all 18 kinds, argument masks, identified/anonymous relations, repeated identifiers, "
            "0..2 bundles, clashing prefixes, defaults at both levels, every value kind); three channels per document: writer (tree of the "
            "real PROV-JSON text vs the model's encodeJson), reader (the same text to both decoders, observations compared), end-to-end "
            "(strict URI-level, kind-aware multiset comparison of the document with its reload) for json.dump options "
            "indent / sort_keys / ensure_ascii. Non-trivial = document with >= 2 records and at least one prefix clash, bundle, default "
            "namespace or repeated identifier; distinct by content hash.",
    "assumptions": ["A-JSONTEXT: json.dump/json.load round-trip a JSON tree for every option up to key order",
                    "A-LEX: float repr, int str and isoformat lexical mappings round-trip (sampled)"],
    "explanation": "Theorems in Props/C01 (per-value round trip under Resolvable); encodeJson/decodeJson mirror the code and are compared "
                   "with it in both directions.",
}

OPTION_SETS = [{}, {"indent": 2}, {"sort_keys": True}, {"ensure_ascii": False}, {"indent": 1, "sort_keys": True, "ensure_ascii": False}]


def names_of_scope(cont):
    """(QualifiedName, role) pairs whose print form the writer emits inside this container's block"""
    out = []
    for r in cont.records:
        if r.identifier is not None:
            out.append((r.identifier, "record identifier"))
        for (a, v) in r.attributes:
            out.append((a, "attribute name"))
            if isinstance(v, QualifiedName):
                out.append((v, "qualified-name value"))
            elif isinstance(v, Literal) and isinstance(v.datatype, QualifiedName) and v.langtag is None:
                out.append((v.datatype, "literal datatype"))
    if cont.is_bundle() and cont.identifier is not None:
        out.append((cont.identifier, "bundle identifier"))
    return out


def unresolvable(doc):
    """names that, printed and read again in the scope where the reader will read them, do not denote the same URI
    (the C03 (c) findings, inherited) -- decided on the real objects with the non-mutating string path"""
    if undeclared_prefix_names(doc):
        # a name under a prefix nobody declares is not this finding (which is about prefixes that *are* declared, twice): no
        # construction history of the pinned code produces one, so whatever fails on such a document is not excused
        return []
    bad = []
    for cont in [doc] + list(doc.bundles):
        for q, role in names_of_scope(cont):
            # the print form is written down here, not asked of the library: prefix, colon, local part (the bare local part in a
            # default namespace). A library whose str() says anything else is not excused by this classification.
            s = (q.namespace.prefix + ":" + q.localpart) if q.namespace.prefix else q.localpart
            if str(q) != s:
                return []
            back = cont.valid_qualified_name(s) if s else None
            if back is None or back.uri != q.uri:
                bad.append((role, s, q.uri, back.uri if back is not None else None))
    return bad


def undeclared_prefix_names(doc):
    """names that carry a prefix neither their container nor its document declares at all: no construction history of the
    public interface leaves such a name behind (every route registers the namespace of a name it stores), so this is never the
    known capture finding"""
    bad = []
    for cont in [doc] + list(doc.bundles):
        declared = {n.prefix for n in cont.get_registered_namespaces()} | {"prov", "xsd", "xsi"}
        if cont is not doc:
            declared |= {n.prefix for n in doc.get_registered_namespaces()}
        for q, role in names_of_scope(cont):
            if q.namespace.prefix and q.namespace.prefix not in declared:
                bad.append((role, q.namespace.prefix, q.uri))
    return bad


def make_case(ctx, g):
    w = World()
    fails = []
    b = DocBuilder(g, w, malformed=0.0, repeat_id=0.25, refused=0.15, reinstant=0.15, builtin_names=0.05)
    d, scopes = b.random_document(n_records=g.rng.randint(1, 8))
    doc = w.conts[d]
    flags = set()
    if g.chance(0.15):
        # a typed literal whose datatype is xsd:QName is a typed literal (PROV-JSON's own marker for a qualified name is
        # prov:QUALIFIED_NAME): text that resolves, text with an unknown prefix, beside the qualified name it spells
        c = g.choice(scopes)
        nss = b.scope_namespaces(c)
        ns = g.choice(nss) if nss else Namespace("ex", "http://example.org/")
        xq = QualifiedName(Namespace("xsd", "http://www.w3.org/2001/XMLSchema#"), "QName")
        lex = g.choice(["%s:chart" % ns.prefix, "unknownpfx:chart", "chart"])
        attrs = [(w.qname(ns.prefix, ns.uri, "lit"), Literal(lex, xq))]
        if g.chance(0.4):
            attrs.append((w.qname(ns.prefix, ns.uri, "lit"), w.qname(ns.prefix, ns.uri, "chart")))
        w.new_record(c, "Entity", w.qname(ns.prefix, ns.uri, "qnlit%d" % g.rng.randint(0, 9)), attrs)
        flags.add("xsd:QName-literal")
    if g.chance(0.15):
        # part of the document arrives from another one (update() is a construction route like any other): records and whole
        # bundles of a document with namespaces of its own, possibly binding the same prefixes differently
        o, _so = b.random_document(n_records=g.rng.randint(1, 4))
        if w.update(d, o) is None:
            flags.add("arrived-by-update")
        # which prefix a copied namespace receives can depend on Python's iteration order over a set of attribute values (the
        # admissible prefix-level divergence): the document is observed here, so that such a history is recognised at the
        # observation and not at the text the writer emits afterwards
        w.obs(d)
    if len(scopes) > 1 or list(doc.bundles):
        flags.add("bundles")
    if any(c.get_default_namespace() is not None for c in [doc] + list(doc.bundles)):
        flags.add("default-ns")
    def exercise():
        nonlocal text
        # writer channel
        text = w.enc_json(d)
        # reader channel
        if text is not None:
            h, err = w.dec_json(text)
            if h is not None:
                w.obs(h)
        # end-to-end for every option set
        bad_names = None
        want = proto.strict_doc(doc)
        for opts in (OPTION_SETS if g.chance(0.4) else [g.choice(OPTION_SETS)]):
            ctx.count("opts:" + json.dumps(opts, sort_keys=True))
            try:
                t = doc.serialize(format="json", **opts)
                channel = g.choice(["content", "content", "bytes", "stream"])
                ctx.count("read-channel:" + channel)
                if channel == "content":
                    back = ProvDocument.deserialize(content=t, format="json")
                elif channel == "bytes":
                    back = ProvDocument.deserialize(content=t.encode("utf-8"), format="json")
                else:
                    import io as _io
                    buf = _io.BytesIO()
                    doc.serialize(buf, format="json", **opts)          # the text as a binary destination receives it (UTF-8)
                    buf.seek(0)
                    back = ProvDocument.deserialize(source=buf, format="json")
                got = proto.strict_doc(back)
                problem = None if got == want else "reloaded document differs"
            except Exception as e:  # noqa
                problem = "round trip raised %s: %s" % (type(e).__name__, str(e)[:120])
                got = None
            if problem:
                if bad_names is None:
                    bad_names = unresolvable(doc)
                sig = "C01:name-not-resolvable-in-scope" if bad_names else None
                detail = ""
                if got is not None:
                    for k in sorted(set(want) | set(got)):
                        a, b_ = want.get(k), got.get(k)
                        if a != b_:
                            detail = " bundle %r: missing %s / unexpected %s" % (
                                k, [x for x in (a or []) if x not in (b_ or [])][:1], [x for x in (b_ or []) if x not in (a or [])][:1])
                            break
                fails.append(Failure("oracle", sig, "json %s: %s%s%s" % (opts, problem, detail[:700],
                                                                         (" [unresolvable: %s]" % (bad_names[:2],)) if bad_names else ""),
                                     {"ops": list(w.ops), "opts": opts}))
                break

    text = None
    exercise()
    if not fails and g.chance(0.25) and b.mutate_in_place([d]):
        # second chapter: the document is changed in place and written / read again
        flags.add("changed-after-first-export")
        exercise()
    ctx.evaluations += 1
    for f in flags:
        ctx.count(f)
    if len(doc.records) >= 2 and flags:
        ctx.nontrivial(w.ops)
    ctx.sample({"n_ops": len(w.ops), "json": (text or "")[:300]})
    return w, fails


def run(ctx):
    g = Gen(ctx.seed * 1000003 + 1)
    return batched(ctx, ctx.n(500, 5000), lambda: make_case(ctx, g))


def oracle_only(ctx):
    g = Gen(ctx.seed * 1000003 + 1)
    return [f for f in batched(ctx, ctx.n(500, 5000), lambda: make_case(ctx, g), use_model=False) if f.kind == "oracle"]


def replay(ctx, case):
    from .replay_ops import replay_ops
    from ..world import run_model, diff_outputs
    w = replay_ops(case["ops"])
    d = next(c for c, o in w.conts.items() if o.is_document())
    doc = w.conts[d]
    fails = []
    want = proto.strict_doc(doc)
    try:
        back = ProvDocument.deserialize(content=doc.serialize(format="json", **case.get("opts", {})), format="json")
        ok = proto.strict_doc(back) == want
        why = "reloaded document differs"
    except Exception as e:  # noqa
        ok = False
        why = "round trip raised %r" % (e,)
    if not ok:
        sig = "C01:name-not-resolvable-in-scope" if unresolvable(doc) else None
        fails.append(Failure("oracle", sig, why, case))
    try:
        mo = run_model(w.ops)
        df = diff_outputs(w.ops, w.outs, mo)
        if df:
            fails.append(Failure("corr", None, "op %d: %s" % df, case))
    except Exception as e:  # noqa
        ctx.notes.append("replay: model unavailable: %r" % (e,))
    return fails

"""C08 — unified() merges exactly the records sharing an identifier, losing nothing."""
import json

from prov.identifier import Identifier, QualifiedName, Namespace
from prov.model import ProvException
from prov.constants import PROV

from ..world import World
from ..gen import Gen, KINDS, ELEMENT_KINDS, FORMALS, REF_ATTRS, TIME_ATTRS
from ..docgen import DocBuilder, all_containers
from ..runner import Failure
from ..common import batched, generic_replay
from .. import proto
from .c04 import vkey

PROVU = "http://www.w3.org/ns/prov#"
PROV_ATTR_URIS = {PROVU + l for l in (REF_ATTRS | TIME_ATTRS)}

META = {
    "level": "proof",
    "rule": "documents biased towards repeated identifiers (same identifier on 1..4 records of one kind with overlapping / disjoint / "
            "conflicting attributes, on records of different kinds, inside and outside bundles, through different prefixes); unified() "
            "of the document and of each bundle is compared with an independent specification (grouping by identifier URI and kind, "
            "union of attribute sets, first-occurrence order, ProvException iff two merged records disagree on a formal attribute), "
            "then idempotence and source immutability are checked. Non-trivial = at least one group of >= 2 records; distinct by content hash.",
    "assumptions": ["A-SET", "not claimed: identified membership records (collection compatibility path)"],
    "explanation": "Model functions groupByKind/mergeGroup/unifiedRecords/unifiedBundle/unifiedDoc mirror the (fixed) code; theorems in Props/C08.",
}


def spec_unified(cont):
    """independent spec: (list of strict records in order) or 'conflict' or None (unspecified)"""
    recs = cont.records
    groups = {}
    order = []
    for i, r in enumerate(recs):
        if r.identifier is None:
            order.append(("anon", i))
            continue
        key = (r.identifier.uri, r.get_type().uri)
        if key not in groups:
            groups[key] = []
            order.append(("group", key))
        groups[key].append(r)
    out = []
    nontrivial = False
    for tag, x in order:
        if tag == "anon":
            out.append(proto.strict_record(recs[x]))
            continue
        rs = groups[x]
        if len(rs) > 1:
            nontrivial = True
            if rs[0].get_type().localpart == "Membership":
                return None, True
        merged = {}
        first_for_attr = {}
        for r in rs:
            for (a, v) in r.attributes:
                if a.uri in PROV_ATTR_URIS:
                    if a.uri in first_for_attr and first_for_attr[a.uri] != vkey(v) and not (
                            first_for_attr[a.uri][0] in ("qn", "id") and vkey(v)[0] in ("qn", "id") and first_for_attr[a.uri][1] == vkey(v)[1]):
                        return "conflict", True
                    first_for_attr.setdefault(a.uri, vkey(v))
                k = (a.uri, vkey(v))
                if k not in merged:
                    merged[k] = [a.uri, proto.strict_value(v)]
        attrs = sorted(merged.values(), key=proto.skey)
        out.append({"kind": rs[0].get_type().localpart, "id": x[0], "attrs": attrs})
    return out, nontrivial


def _strip_ns(o):
    o = dict(o)
    o.pop("ns", None)
    o.pop("default", None)
    o["bundles"] = [[b[0], _strip_ns(b[1])] for b in o.get("bundles", [])]
    return o


def _ns_grew(a, b, top=True):
    ok = True
    if a["ns"] != b["ns"][:len(a["ns"])]:
        return False
    if a["default"] != b["default"] and a["default"] is not None:
        return False
    if top and (a["ns"] != b["ns"] or a["default"] != b["default"]):
        return False            # the known class only concerns bundles of the source
    for x, y in zip(a.get("bundles", []), b.get("bundles", [])):
        ok = ok and _ns_grew(x[1], y[1], False)
    return ok


def only_ns_gained(before, after, source_is_bundle=False):
    """signature of the known finding: content identical, only bundles of the source (or the source itself when it is a bundle)
    gained namespace declarations"""
    if _strip_ns(before) == _strip_ns(after) and _ns_grew(before, after, top=not source_is_bundle):
        return "C08:copy-registers-delegated-namespace-in-source-bundle"
    return None


def describe_change(before, after):
    out = []
    if _strip_ns(before) != _strip_ns(after):
        out.append("content differs")
    def walk(a, b, path):
        if a["ns"] != b["ns"] or a["default"] != b["default"]:
            out.append("%s namespaces %s/%s -> %s/%s" % (path, a["ns"], a["default"], b["ns"], b["default"]))
        for x, y in zip(a.get("bundles", []), b.get("bundles", [])):
            walk(x[1], y[1], path + "/bundle " + str(x[0][1] if x[0] else None))
    walk(before, after, "document")
    return "; ".join(out)[:500]


def strict_list(cont):
    return [proto.strict_record(r) for r in cont.records]


def check_unified(ctx, w, c, fails, flags):
    cont = w.conts[c]
    before = proto.canon_cont(cont)
    spec, nontrivial = spec_unified(cont)
    bundle_specs = {}
    if cont.is_document():
        for b in cont.bundles:
            s, nt = spec_unified(b)
            bundle_specs[b.identifier.uri] = s
            nontrivial = nontrivial or nt
    if nontrivial:
        flags.add("merge")
    u, err = w.unified(c)
    case = {"ops": list(w.ops)}
    after = proto.canon_cont(cont)
    if after != before:
        fails.append(Failure("oracle", only_ns_gained(before, after, source_is_bundle=not cont.is_document()), "unified() changed its source: " + describe_change(before, after), case))
    all_specs = [spec] + list(bundle_specs.values())
    if any(s is None for s in all_specs):
        ctx.count("unspecified-membership")
        return
    if any(s == "conflict" for s in all_specs):
        flags.add("conflict")
        if not isinstance(err, ProvException):
            fails.append(Failure("oracle", None, "records with one identifier disagree on a formal attribute but unified() answered %r" % (err,), case))
        return
    if err is not None:
        fails.append(Failure("oracle", None, "unified() raised %r although no two merged records conflict" % (err,), case))
        return
    uobj = w.conts[u]
    got = strict_list(uobj)
    if got != spec:
        fails.append(Failure("oracle", None, "unified() records differ from the specification: got %s expected %s" % (
            json.dumps(got)[:600], json.dumps(spec)[:600]), case))
    if cont.is_document():
        gb = {b.identifier.uri: strict_list(b) for b in uobj.bundles}
        if sorted(gb) != sorted(bundle_specs):
            fails.append(Failure("oracle", None, "unified() bundle identifiers %s != %s" % (sorted(gb), sorted(bundle_specs)), case))
        else:
            for k in gb:
                if gb[k] != bundle_specs[k]:
                    fails.append(Failure("oracle", None, "unified() bundle %s differs from the specification" % k, case))
    # idempotence (content and order)
    u2, err2 = w.unified(u)
    if err2 is not None:
        fails.append(Failure("oracle", None, "unified() of a unified container raised %r" % (err2,), {"ops": list(w.ops)}))
    elif proto.strict_doc(w.conts[u2]) != proto.strict_doc(uobj) or strict_list(w.conts[u2]) != got:
        fails.append(Failure("oracle", None, "unified() is not idempotent", {"ops": list(w.ops)}))
    w.obs(u)


def make_case(ctx, g):
    w = World()
    fails = []
    flags = set()
    b = DocBuilder(g, w, repeat_id=0.6, malformed=0.0, anon=0.3, multi=0.1, twins=0.2, redefault=0.25, defaults=0.5, reclock=0.3, resplit=0.15)
    d, scopes = b.random_document(n_records=g.rng.randint(2, 9))
    if g.chance(0.2) and b.cross_kind_cluster(g.choice(scopes)):
        flags.add("one-identifier-two-merged-kinds")
    if g.chance(0.3):
        # history: a bundle is asked for names that so far exist only in the document (a lookup must not change anything),
        # then gets a record of its own under such a name
        dobj = w.conts[d]
        named = [r for r in dobj.records if r.identifier is not None]
        for bh in all_containers(w, [d])[1:]:
            for r in g.rng.sample(named, min(2, len(named))):
                w.get_record(bh, g.choice([r.identifier, str(r.identifier), r.identifier.uri]))
                if g.chance(0.7):
                    w.new_record(bh, r.get_type().localpart, r.identifier, b.other_attrs(bh, n=1))
                flags.add("lookup-before-unified")
    if g.chance(0.3):
        # the same statement asserted twice: an exact duplicate of a record without identifier (add_record of the record into the
        # container it is in); unified() keeps both
        for c in all_containers(w, [d]):
            anon = [i for i, r in enumerate(w.conts[c].records) if r.identifier is None]
            if anon and g.chance(0.7):
                w.add_record(c, w.rec_at(c, g.choice(anon)))
                flags.add("duplicate-anonymous-record")
    if g.chance(0.12):
        # three statements under one identifier: the first is silent about an optional formal attribute, the two later ones
        # disagree on it (or agree): every member is weighed against what the others said, not against the first only
        import datetime as _dt
        c = g.choice(all_containers(w, [d]))
        EXN = Namespace("ex", "http://example.org/")
        k_ = g.rng.randint(0, 99)
        t1 = _dt.datetime(2021, 6, 6, 12, 30, g.rng.randint(0, 59))
        t2 = t1 if g.chance(0.3) else t1 + _dt.timedelta(hours=g.rng.randint(1, 50))
        which = g.choice(["generation", "activity", "usage"])
        if which == "generation":
            ident = QualifiedName(EXN, "g3_%d" % k_)
            base = [(PROV["entity"], QualifiedName(EXN, "e3_%d" % k_)), (PROV["activity"], QualifiedName(EXN, "a3_%d" % k_))]
            for extra in ([], [(PROV["time"], t1)], [(PROV["time"], t2)]):
                w.new_record(c, "Generation", ident, base + extra)
        elif which == "activity":
            ident = QualifiedName(EXN, "act3_%d" % k_)
            for extra in ([], [(PROV["startTime"], t1)], [(PROV["startTime"], t2)]):
                w.new_record(c, "Activity", ident, extra)
        else:
            ident = QualifiedName(EXN, "u3_%d" % k_)
            e1 = QualifiedName(EXN, "ue1_%d" % k_)
            e2 = e1 if t2 == t1 else QualifiedName(EXN, "ue2_%d" % k_)
            for extra in ([], [(PROV["entity"], e1)], [(PROV["entity"], e2)]):
                w.new_record(c, "Usage", ident, [(PROV["activity"], QualifiedName(EXN, "ua_%d" % k_))] + extra)
        flags.add("first-silent-later-two-%s" % ("agree" if t2 == t1 else "disagree"))
    targets = all_containers(w, [d]) if g.chance(0.5) else [d]
    if g.chance(0.4):
        # history: look-ups that find nothing (any number of them, for several unknown identifiers) come before unified()
        for c in all_containers(w, [d]):
            for i in range(g.rng.randint(0, 4)):
                w.get_record(c, g.choice(["ex:nothing%d" % i, "http://nowhere.example/x%d" % i,
                                          QualifiedName(Namespace("ex", "http://example.org/"), "absent%d" % i)]))
                flags.add("misses-before-unified")
    for c in targets:
        check_unified(ctx, w, c, fails, flags)
    if g.chance(0.4):
        # history: records extended *in place* after a first unified(), then unified() again (the answer must follow the
        # current content, not an earlier call)
        changed = False
        for c in all_containers(w, [d]):
            recs = w.conts[c].records
            for i, r in enumerate(recs):
                if r.identifier is None or not g.chance(0.5):
                    continue
                h = w.rec_at(c, i)
                k = g.rng.random()
                if k < 0.5:
                    w.add_attrs(h, b.other_attrs(c, n=1) or [("prov:label", "added later")])
                elif k < 0.75 or not FORMALS[r.get_type().localpart]:
                    w.add_type(h, g.value(None, ["qn", "str", "int"]))
                else:
                    # a formal attribute given later: may now conflict with a sibling of the same identifier
                    kind = r.get_type().localpart
                    f = g.choice(FORMALS[kind])
                    v = b.time() if f in TIME_ATTRS else b.ref(c)
                    w.add_attrs(h, [("prov:" + f, v)])
                changed = True
        if changed:
            flags.add("in-place-change-between-unified")
            for c in targets:
                check_unified(ctx, w, c, fails, flags)
    if g.chance(0.1):
        # a refused unified() leaves nothing behind for the next one: one document whose first group merges and whose second
        # group conflicts (the call is refused after work has been done), then another document that states one of the
        # first document's statements once, on its own
        import datetime as _dt
        EXN = Namespace("ex", "http://example.org/")
        k_ = g.rng.randint(0, 99)
        sh = QualifiedName(EXN, "shared%d" % k_)
        a1 = [(QualifiedName(EXN, "size"), g.rng.randint(1, 9))]
        a2 = [(QualifiedName(EXN, "colour"), g.choice(["red", "green"]))]
        d1 = w.new_doc(); b._init_scope(d1)
        w.new_record(d1, "Entity", sh, a1)
        w.new_record(d1, "Entity", sh, a2)
        cl = QualifiedName(EXN, "clash%d" % k_)
        w.new_record(d1, "Activity", cl, [(PROV["startTime"], _dt.datetime(2020, 1, 1, 8, 0, 0))])
        w.new_record(d1, "Activity", cl, [(PROV["startTime"], _dt.datetime(2020, 1, 2, 9, 30, 0))])
        check_unified(ctx, w, d1, fails, flags)
        d2 = w.new_doc(); b._init_scope(d2)
        w.new_record(d2, "Entity", sh, g.choice([a1, a2]))
        if g.chance(0.5):
            w.new_record(d2, "Entity", QualifiedName(EXN, "other%d" % k_), [])
        check_unified(ctx, w, d2, fails, flags)
        flags.add("unified-after-a-refused-unified")
    w.obs(d)
    ctx.evaluations += 1
    for f in flags:
        ctx.count(f)
    if "merge" in flags:
        ctx.nontrivial(w.ops)
    ctx.sample({"ops": w.ops[:6], "n_ops": len(w.ops)})
    return w, fails


def run(ctx):
    g = Gen(ctx.seed * 1000003 + 8)
    return batched(ctx, ctx.n(500, 5000), lambda: make_case(ctx, g))


def oracle_only(ctx):
    g = Gen(ctx.seed * 1000003 + 8)
    return [f for f in batched(ctx, ctx.n(500, 5000), lambda: make_case(ctx, g), use_model=False) if f.kind == "oracle"]


def replay(ctx, case):
    """replay: all ops but a trailing `unified`, then the specification check on that container"""
    from .replay_ops import replay_ops
    from ..world import run_model, diff_outputs
    ops = case["ops"]
    target = None
    if ops and ops[-1]["op"] == "unified":
        target = ops[-1]["c"]
        ops = ops[:-1]
    w = replay_ops(ops)
    fails = []
    if target is None:
        target = next(c for c, o in w.conts.items() if o.is_document())
    check_unified(ctx, w, target, fails, set())
    try:
        mo = run_model(w.ops)
        df = diff_outputs(w.ops, w.outs, mo)
        if df:
            fails.append(Failure("corr", None, "op %d: %s" % df, case))
    except Exception as e:  # noqa
        ctx.notes.append("replay: model unavailable: %r" % (e,))
    return fails

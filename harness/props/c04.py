"""C04 — document equality is an equivalence that coincides with content equivalence."""
import datetime
import json
from fractions import Fraction

from prov.identifier import Identifier, QualifiedName, Namespace
from prov.model import Literal, ProvDocument, ProvBundle
from prov.constants import PROV

from ..world import World
from ..gen import Gen, KINDS, ELEMENT_KINDS, FORMALS
from ..docgen import DocBuilder, all_containers
from ..runner import Failure
from ..common import batched, generic_replay
from .. import proto

META = {
    "level": "proof",
    "rule": "pairs (d, d') where d' is rebuilt from d through the public API with one content-preserving transformation "
            "(record permutation, prefix renaming, duplicate insertion, rebuild from records) or one content-changing edit (attribute "
            "value added, formal argument changed, identifier changed, record removed/added, record type swapped, bundle added/removed, "
            "bundle member added/removed); ==, != and hash compared in both argument orders with an independent content oracle. "
            "Non-trivial = pair with at least 2 records; distinct by content hash.",
    "assumptions": ["A-SET: Python set membership = __eq__ + __hash__ (1, True and 1.0 are one value)"],
    "explanation": "Theorems recEq_refl, c04_recEq_symm, c04_anon_vs_identified (record level, after the fix), and the greedy bundle "
                   "comparison loop mirrored in the model and compared with the implementation on every pair.",
}


def vkey(v):
    """independent value identity: Python == together with hash"""
    if isinstance(v, (bool, int, float)):
        return ("num", str(Fraction(v)))
    if isinstance(v, str):
        return ("str", v)
    if isinstance(v, datetime.datetime):
        if v.tzinfo is None:
            return ("dtn", v.isoformat())
        # the instant in integer microseconds (astimezone() overflows for years 1 and 9999)
        off = v.utcoffset()
        us = ((v.toordinal() * 86400 + v.hour * 3600 + v.minute * 60 + v.second) * 1000000 + v.microsecond
              - (off.days * 86400 + off.seconds) * 1000000 - off.microseconds)
        return ("dta", us)
    if isinstance(v, QualifiedName):
        return ("qn", v.uri)
    if isinstance(v, Identifier):
        return ("id", v.uri)
    if isinstance(v, Literal):
        return ("lit", v.value, v.datatype.uri if v.datatype is not None else None, v.langtag)
    return ("other", repr(v))


def rec_content(r):
    return (r.get_type().uri, r.identifier.uri if r.identifier is not None else None,
            frozenset((a.uri, vkey(v)) for (a, v) in r.attributes))


def cont_content(c):
    return frozenset(rec_content(r) for r in c.records)


def doc_content(d):
    out = {"": cont_content(d)}
    if d.is_document():
        for b in d.bundles:
            out[b.identifier.uri] = cont_content(b)
    return out


EDITS = ["none", "permute", "rename-prefix", "duplicate", "rebuild",
         "add-attr", "change-formal", "change-id", "remove-record", "add-record", "swap-type",
         "add-bundle", "remove-bundle", "add-member", "remove-member", "value-kind", "value-kind-both"]


def several_entities(d):
    """a membership record holding several prov:entity values (the PROV-JSON compatibility path of add_attributes)"""
    for c in [d] + (list(d.bundles) if d.is_document() else []):
        for r in c.records:
            if r.get_type().localpart == "Membership" and len(r.get_attribute(PROV["entity"])) > 1:
                return True
    return False


PRESERVING = {"none", "permute", "rename-prefix", "duplicate", "rebuild", "in-place edit after comparison"}


def rebuild(g, w, b, src, edit):
    """d' := copy of document src with one transformation, built through public operations"""
    r = g.rng
    sobj = w.conts[src]
    dst = w.new_doc()
    b._init_scope(dst)
    if edit == "rename-prefix":
        for n in sobj.get_registered_namespaces():
            w.add_ns(dst, "r" + n.prefix, n.uri)
    bundles = list(sobj.bundles)
    top = list(range(len(sobj.records)))
    if edit == "rebuild" and top:
        w.ops.pop(); w.outs.pop()      # drop the new_doc just emitted; build with the constructor instead
        del w.conts[dst]
        hs = [w.rec_at(src, i) for i in top]
        dst, _e = w.new_doc_from(hs)
        if dst is None:
            return None
        b._init_scope(dst)
        top = []
    if edit == "permute":
        r.shuffle(top)
    victim = r.choice(top) if top else None
    if edit == "remove-record" and victim is not None:
        top.remove(victim)
    for i in top:
        h = w.rec_at(src, i)
        rec = w.recs[h]
        if i == victim and edit in ("value-kind", "value-kind-both"):
            # the same URI as a value of the other kind (qualified name <-> xsd:anyURI): another value, hence another record;
            # "-both": the record holds both
            attrs = list(rec.attributes)
            cands = [(a, v) for (a, v) in rec.extra_attributes if isinstance(v, Identifier)]
            if cands:
                a0, v0 = r.choice(cands)
                if isinstance(v0, QualifiedName):
                    v1 = Identifier(v0.uri)
                else:
                    cut = max(v0.uri.rfind("/"), v0.uri.rfind("#"), v0.uri.rfind(":")) + 1
                    v1 = QualifiedName(Namespace("vk", v0.uri[:cut]), v0.uri[cut:])
                if edit == "value-kind":
                    attrs = [(a, (v1 if (a == a0 and v is v0) else v)) for (a, v) in attrs]
                else:
                    attrs.append((a0, v1))
            else:
                q0 = QualifiedName(Namespace("ex", "http://example.org/"), "thing")
                attrs.append((QualifiedName(Namespace("ex", "http://example.org/"), "ref"), q0))
                if edit == "value-kind-both":
                    attrs.append((QualifiedName(Namespace("ex", "http://example.org/"), "ref"), Identifier(q0.uri)))
            w.new_record(dst, rec.get_type().localpart, rec.identifier, attrs)
        elif i == victim and edit in ("change-id", "swap-type", "change-formal"):
            kind = rec.get_type().localpart
            ident = rec.identifier
            attrs = list(rec.attributes)
            if edit == "change-id":
                ident = QualifiedName(Namespace("ex", "http://example.org/"), "changed-id")
            elif edit == "swap-type":
                # another record class for the same statement; for relations one whose formal arguments line up by position
                # (incl. the one pair of classes where one subclasses the other: specializationOf / mentionOf)
                SWAP = {"Entity": "Agent", "Agent": "Activity", "Activity": "Entity", "Generation": "Usage", "Usage": "Invalidation",
                        "Invalidation": "Generation", "Specialization": "Mention", "Mention": "Specialization",
                        "Alternate": "Specialization", "Communication": "Influence", "Influence": "Attribution",
                        "Attribution": "Communication", "Start": "End", "End": "Start", "Association": "Delegation",
                        "Delegation": "Association", "Derivation": "Derivation", "Membership": "Alternate"}
                new_kind = SWAP.get(kind, kind)
                if new_kind != kind:
                    from prov.model import PROV_REC_CLS
                    f_old = list(PROV_REC_CLS[PROV[kind]].FORMAL_ATTRIBUTES)
                    f_new = list(PROV_REC_CLS[PROV[new_kind]].FORMAL_ATTRIBUTES)
                    ren = {a: (f_new[i] if i < len(f_new) else None) for i, a in enumerate(f_old)}
                    attrs = [((ren[a], v) if a in ren else (a, v)) for (a, v) in attrs]
                    attrs = [(a, v) for (a, v) in attrs if a is not None and not (a in f_new and not isinstance(v, (QualifiedName, datetime.datetime)))]
                    kind = new_kind
                if kind == rec.get_type().localpart:
                    attrs.append((PROV["label"], "type-swap-not-applicable"))
            else:
                fa = [(a, v) for (a, v) in rec.formal_attributes if isinstance(v, QualifiedName)]
                if fa:
                    a0, v0 = r.choice(fa)
                    attrs = [(a, (QualifiedName(v0.namespace, v0.localpart + "-x") if (a == a0 and v == v0) else v)) for (a, v) in attrs]
                else:
                    attrs.append((PROV["label"], "formal-change-not-applicable"))
            w.new_record(dst, kind, ident, attrs)
        else:
            w.add_record(dst, h)
            if i == victim and edit == "duplicate":
                w.add_record(dst, h)
    if edit == "add-attr" and w.conts[dst].records:
        i = r.randrange(len(w.conts[dst].records))
        w.add_attrs(w.rec_at(dst, i), [(QualifiedName(Namespace("ex", "http://example.org/"), "extra"), g.value(None, ["str", "int", "bool", "float"]))])
    if edit == "add-record":
        w.new_record(dst, "Entity", QualifiedName(Namespace("ex", "http://example.org/"), "added-record"), [])
    drop_b = r.randrange(len(bundles)) if (bundles and edit == "remove-bundle") else None
    for bi, bobj in enumerate(bundles):
        if bi == drop_b:
            continue
        bh = w.bundle_at(src, bi)
        nb, _e = w.bundle(dst, bobj.identifier)
        if nb is None:
            continue
        b._init_scope(nb)
        idxs = list(range(len(bobj.records)))
        if edit == "remove-member" and idxs and bi == 0:
            idxs.pop(r.randrange(len(idxs)))
        for i in idxs:
            w.add_record(nb, w.rec_at(bh, i))
        if edit == "add-member" and bi == 0:
            w.new_record(nb, "Entity", QualifiedName(Namespace("ex", "http://example.org/"), "added-member"), [])
    if edit == "add-bundle":
        w.bundle(dst, QualifiedName(Namespace("ex", "http://example.org/"), "added-bundle"))
    return dst


def read_accessors(rec):
    """every read-only accessor of a record; none of them may change what == and hash see"""
    from prov.constants import PROV_LABEL, PROV_VALUE
    _ = (rec.label, rec.value, rec.get_asserted_types(), rec.get_attribute(PROV_LABEL), rec.get_attribute(PROV_VALUE),
         rec.get_attribute("prov:location"), rec.args, rec.formal_attributes, rec.extra_attributes, rec.attributes,
         rec.identifier, rec.get_type(), rec.is_element(), rec.is_relation(), rec.get_provn(), str(rec), repr(rec))
    if hasattr(rec, "get_startTime"):
        _ = (rec.get_startTime(), rec.get_endTime())


def compare(ctx, w, a, b_, fails, label, g=None):
    oa, ob = w.conts[a], w.conts[b_]
    if g is not None and g.chance(0.5):
        # read-only uses of one side only, before the comparison
        side = oa if g.chance(0.5) else ob
        for rec in list(side.records) + [r for bb in (side.bundles if side.is_document() else []) for r in bb.records]:
            try:
                read_accessors(rec)
            except Exception:  # noqa  (an accessor that raises is judged elsewhere)
                ctx.count("accessor-raised")
        ctx.count("accessors-read-before-compare")
        # ... and read-only uses of the containers of that side: look-ups that find nothing (and ones that do), listings
        hside = a if side is oa else b_
        for c in [hside] + [w.bundle_at(hside, i) for i in range(len(list(side.bundles)) if side.is_document() else 0)]:
            cobj = w.conts[c]
            w.get_record(c, g.choice(["ex:nowhere%d" % g.rng.randint(0, 3), "http://nowhere.example/q"]))
            named = [r for r in cobj.records if r.identifier is not None]
            if named:
                w.get_record(c, g.choice(named).identifier)
            _ = (list(cobj.get_records()), cobj.get_registered_namespaces(), cobj.get_default_namespace(), cobj.is_document(),
                 cobj.has_bundles(), list(cobj.namespaces))
        ctx.count("containers-read-before-compare")
    exp = doc_content(oa) == doc_content(ob)
    e1 = w.eq(a, b_)
    e2 = w.eq(b_, a)
    n1 = oa != ob
    ctx.count("expected-equal" if exp else "expected-different")
    case = {"ops": list(w.ops), "expect_eq": exp}
    if e1 != exp or e2 != exp:
        fails.append(Failure("oracle", None, "[%s] d==d' is %s, d'==d is %s, but content equivalence is %s" % (label, e1, e2, exp), case))
    if label in PRESERVING and not (e1 and e2):
        # the property's own list of content-preserving transformations: d' must equal d whatever this harness reads as content
        sig = "C04:membership-several-entities" if (several_entities(oa) or several_entities(ob)) else None
        fails.append(Failure("oracle", sig, "[%s] a content-preserving transformation gave an unequal document (d==d' %s, d'==d %s; "
                             "content as read here: %s)" % (label, e1, e2, "same" if exp else "different"),
                             {"ops": list(w.ops), "expect_eq": True}))
    if n1 == e1:
        fails.append(Failure("oracle", None, "[%s] != (%s) does not negate == (%s)" % (label, n1, e1), case))
    for x in (oa, ob):
        if not (x == x):
            fails.append(Failure("oracle", None, "[%s] document not equal to itself" % label, case))
    # records: ==, != and hash
    ra, rb = oa.records, ob.records
    for i in range(min(len(ra), len(rb), 4)):
        x, y = ra[i], rb[i]
        cexp = rec_content(x) == rec_content(y)
        q1, q2 = (x == y), (y == x)
        if q1 != cexp or q2 != cexp:
            fails.append(Failure("oracle", None, "[%s] record %d: x==y %s, y==x %s, content equal %s" % (label, i, q1, q2, cexp), case))
        if q1 and hash(x) != hash(y):
            fails.append(Failure("oracle", None, "[%s] record %d: equal records hash differently" % (label, i), case))
        if (x != y) == q1:
            fails.append(Failure("oracle", None, "[%s] record %d: != does not negate ==" % (label, i), case))
        w.rec_eq(w.rec_at(a, i), w.rec_at(b_, i))
        w.rec_eq(w.rec_at(b_, i), w.rec_at(a, i))
        w.rec_hash(w.rec_at(a, i), w.rec_at(b_, i))


def make_case(ctx, g):
    w = World()
    fails = []
    b = DocBuilder(g, w, repeat_id=0.3, malformed=0.0, refused=0.15, value_kinds=["str", "int", "float", "bool", "dt", "uri", "qn", "lit", "int", "bool"])
    d, scopes = b.random_document(n_records=g.rng.randint(1, 6))
    edit = g.choice(EDITS)
    members = None
    if g.chance(0.15):
        # a membership holding several entities (the call form with prov:collection given as a QualifiedName key): the whole
        # member set takes part in ==
        EXN = Namespace("ex", "http://example.org/")
        pool = [QualifiedName(EXN, "m%d" % i) for i in range(5)]
        members = g.rng.sample(pool, g.rng.randint(2, 3))
        coll = QualifiedName(EXN, "coll")
        w.new_record(d, "Membership", None, [(PROV["collection"], coll)] + [(PROV["entity"], m) for m in members])
    d2 = rebuild(g, w, b, d, edit)
    ctx.count("edit:" + edit)
    if members is not None and d2 is not None and g.chance(0.7):
        # … and one more such record on both sides: same members in another order, or one member exchanged
        other = list(members)
        g.rng.shuffle(other)
        if g.chance(0.5):
            other[g.rng.randrange(len(other))] = g.choice([m for m in pool if m not in members])
        coll2 = QualifiedName(EXN, "coll2")
        w.new_record(d, "Membership", None, [(PROV["collection"], coll2)] + [(PROV["entity"], m) for m in members])
        w.new_record(d2, "Membership", None, [(PROV["collection"], coll2)] + [(PROV["entity"], m) for m in other])
        ctx.count("multi-member-membership")
    if d2 is not None:
        compare(ctx, w, d, d2, fails, edit, g)
        if g.chance(0.3):
            e3 = g.choice(EDITS[:5])
            d3 = rebuild(g, w, b, d2, e3)
            if d3 is not None:
                compare(ctx, w, d2, d3, fails, edit + "+" + e3, g)
                compare(ctx, w, d, d3, fails, edit + "+" + e3 + " (transitive)")
        # edit a record in place *after* it has been compared / hashed, then compare with a fresh rebuild
        if g.chance(0.5):
            conts = [c for c in all_containers(w, [d]) if w.conts[c].records]
            if conts:
                c = g.choice(conts)
                i = g.rng.randrange(len(w.conts[c].records))
                h = w.rec_at(c, i)
                rec = w.recs[h]
                hash(rec)
                k = g.rng.random()
                if k < 0.4:
                    w.add_type(h, QualifiedName(Namespace("ex", "http://example.org/"), "LateType"))
                elif k < 0.7 and rec.get_type().localpart == "Activity":
                    w.set_time(h, g.dt(), g.dt() if g.chance(0.5) else None)
                else:
                    w.add_attrs(h, [(QualifiedName(Namespace("ex", "http://example.org/"), "late"), g.value(None, ["str", "int"]))])
                if g.chance(0.5):
                    w.add_record(c, h)          # a repeated identical record must still collapse
                ctx.count("edit-after-hash")
                d4 = rebuild(g, w, b, d, "none")
                if d4 is not None:
                    compare(ctx, w, d, d4, fails, "in-place edit after comparison")
        # bundle-level ==
        bs = all_containers(w, [d])[1:]
        bs2 = all_containers(w, [d2])[1:]
        if bs and bs2:
            x, y = g.choice(bs), g.choice(bs2)
            exp = cont_content(w.conts[x]) == cont_content(w.conts[y])
            e1, e2 = w.eq(x, y), w.eq(y, x)
            if e1 != exp or e2 != exp:
                fails.append(Failure("oracle", None, "bundles: x==y %s, y==x %s, content equal %s" % (e1, e2, exp),
                                     {"ops": list(w.ops), "expect_eq": exp}))
    if g.chance(0.3) or edit == "rename-prefix":
        # (always after the records have been re-added under other prefixes: the copy's spelling must not reach the original)
        # "serialisation round trip" is on the property's list of content-preserving transformations: the document read back
        # from its own PROV-JSON text equals the document, from both sides
        f = roundtrip_equal(ctx, w.conts[d], {"ops": list(w.ops), "roundtrip": "json", "doc": d})
        if f is not None:
            fails.append(f)
    ctx.evaluations += 1
    if len(w.conts[d].records) >= 2:
        ctx.nontrivial(w.ops)
    ctx.sample({"edit": edit, "ops": w.ops[:6], "n_ops": len(w.ops)})
    return w, fails


def roundtrip_equal(ctx, doc, case):
    from .c01 import unresolvable, undeclared_prefix_names
    import logging
    import warnings
    logging.disable(logging.CRITICAL)
    try:
        with warnings.catch_warnings():
            warnings.simplefilter("ignore")
            text = doc.serialize(format="json")
            back = ProvDocument.deserialize(content=text, format="json")
    except Exception as e:  # noqa
        if ctx is not None:
            ctx.count("roundtrip-not-applicable")
        if unresolvable(doc) and not undeclared_prefix_names(doc):
            return None         # known finding C01-1 (root cause C03-1), judged by C01
        # every name of the document resolves where it is printed, and still its own PROV-JSON text cannot be read back: the
        # document is not what its construction history says (e.g. a value object re-spelled through a copy)
        return Failure("oracle", None, "[serialisation round trip] the document's own PROV-JSON text cannot be read back: %r" % (e,), case)
    finally:
        logging.disable(logging.NOTSET)
    if ctx is not None:
        ctx.count("roundtrip-json")
    e1, e2 = (doc == back), (back == doc)
    if e1 and e2 and not (doc != back):
        return None
    if unresolvable(doc) and not undeclared_prefix_names(doc):
        # known finding C01-1 (root cause C03-1): a name that does not read back to the same URI in the bundle where it is printed
        if ctx is not None:
            ctx.count("roundtrip-known-unresolvable-name")
        return None
    sig = "C04:membership-several-entities" if several_entities(doc) else None
    return Failure("oracle", sig, "[serialisation round trip] the document read back from its own PROV-JSON text is not equal to it "
                   "(d==d' %s, d'==d %s, d!=d' %s)" % (e1, e2, doc != back), case)


def run(ctx):
    g = Gen(ctx.seed * 1000003 + 4)
    return batched(ctx, ctx.n(600, 6000), lambda: make_case(ctx, g))


def oracle_only(ctx):
    g = Gen(ctx.seed * 1000003 + 4)
    return [f for f in batched(ctx, ctx.n(600, 6000), lambda: make_case(ctx, g), use_model=False) if f.kind == "oracle"]


def _recheck(w, case):
    fails = []
    if case.get("roundtrip"):
        f = roundtrip_equal(None, w.conts[case["doc"]], case)
        return [f] if f is not None else []
    exp = case.get("expect_eq")
    if exp is not None:
        last = [o for o in w.outs if isinstance(o, dict) and "eq" in o]
        ops = [o for o in w.ops if o["op"] == "eq"]
        if ops:
            a, b_ = ops[-1]["a"], ops[-1]["b"]
            e1 = w.conts[a] == w.conts[b_]
            e2 = w.conts[b_] == w.conts[a]
            if e1 != exp or e2 != exp:
                fails.append(Failure("oracle", case.get("signature"), "a==b %s, b==a %s, expected %s" % (e1, e2, exp), case))
    return fails


def replay(ctx, case):
    return generic_replay(ctx, case, _recheck)

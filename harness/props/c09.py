"""C09 — flattened(), update() and add_bundle() conserve records."""
import json
from collections import Counter

from prov.identifier import Identifier, QualifiedName, Namespace
from prov.model import ProvException, ProvDocument, ProvBundle

from ..world import World
from ..gen import Gen, REF_ATTRS, TIME_ATTRS
from ..docgen import DocBuilder, all_containers
from ..runner import Failure
from ..common import batched, generic_replay
from .. import proto

PROVU = "http://www.w3.org/ns/prov#"

META = {
    "level": "proof",
    "rule": "pairs of documents (shared bundle identifiers, clashing prefixes, different default namespaces at both levels, repeated "
            "identifiers) and random sequences of update / add_bundle / bundle() / flattened; after each call the strict (URI-level) "
            "record multisets of every bundle are compared with the conservation law, refusals must leave the target unchanged, `other` "
            "must stay unchanged. Non-trivial = the call moved at least one record between containers with different namespace "
            "declarations; distinct by content hash.",
    "assumptions": ["A-SET", "not claimed: membership records carrying several prov:entity values (compatibility path)"],
    "explanation": "Model functions flattened/updateDoc/updateBundle/addBundle/bundle mirror the code; theorems in Props/C09.",
}


def bag(c):
    return Counter(proto.strict_bag(c))


def doc_bags(d):
    out = {"": bag(d)}
    if d.is_document():
        for b in d.bundles:
            out[b.identifier.uri if b.identifier is not None else None] = bag(b)
    return out


def has_multi_formal(c):
    for cont in [c] + (list(c.bundles) if c.is_document() else []):
        for r in cont.records:
            seen = Counter(a.uri for (a, _v) in r.attributes if a.uri.startswith(PROVU) and a.uri[len(PROVU):] in (REF_ATTRS | TIME_ATTRS))
            if any(n > 1 for n in seen.values()):
                return True
    return False


def denotes(scope, ident):
    """URI an identifier argument denotes in a scope, without mutating the scope (the QualifiedName path of
    valid_qualified_name registers namespaces, so it must not be called from an oracle)"""
    if ident is None:
        return None
    if isinstance(ident, QualifiedName):
        return ident.uri
    q = scope.valid_qualified_name(ident)
    return q.uri if q is not None else None


def step(ctx, g, w, b, docs, fails, flags, free=()):
    r = g.rng
    k = r.random()
    d = r.choice(docs)
    dobj = w.conts[d]
    if any(has_multi_formal(w.conts[x]) for x in docs):
        ctx.count("skipped-multi-formal")
        return
    if g.chance(0.2):
        # between two derivations a record that has already been read (compared, hashed, copied) gains a type: the next
        # flattened() / update() conserves the record as it is *now*
        conts_ = [c_ for c_ in all_containers(w, [d]) if w.conts[c_].records]
        if conts_:
            c_ = r.choice(conts_)
            h_ = w.rec_at(c_, r.randrange(len(w.conts[c_].records)))
            rec_ = w.recs[h_]
            _ = (list(rec_.attributes), hash(rec_), rec_ == rec_)
            tq = QualifiedName(Namespace("ex", "http://example.org/"), "LateType%d" % r.randint(0, 9))
            if w.add_type(h_, tq) is None:
                flags.add("changed-between-derivations")
                if not any(a.uri == "http://www.w3.org/ns/prov#type" and isinstance(v, QualifiedName) and v.uri == tq.uri
                           for (a, v) in rec_.attributes):
                    fails.append(Failure("oracle", None, "a type asserted on a record that had been read before is not among its attributes",
                                         {"ops": list(w.ops)}))
    if k < 0.3:
        before = doc_bags(dobj)
        obs_before = proto.canon_cont(dobj)
        f, err = w.flattened(d)
        case = {"ops": list(w.ops)}
        if err is not None:
            fails.append(Failure("oracle", None, "flattened() raised %r" % (err,), case))
            return
        fobj = w.conts[f]
        if proto.canon_cont(dobj) != obs_before and fobj is not dobj:
            fails.append(Failure("oracle", None, "flattened() changed its source", case))
        total = Counter()
        for v in before.values():
            total += v
        if list(fobj.bundles):
            fails.append(Failure("oracle", None, "flattened() result still has bundles", case))
        if bag(fobj) != total:
            fails.append(Failure("oracle", None, "flattened() records differ from own + bundle records: missing %s extra %s" % (
                list((total - bag(fobj)).elements())[:2], list((bag(fobj) - total).elements())[:2]), case))
        if len(before) > 1:
            flags.add("flatten-bundles")
        if fobj is not dobj and g.chance(0.3):
            docs.append(f)
            b._init_scope(f)
    elif k < 0.6 and len(docs) > 1:
        o = r.choice([x for x in docs if x != d])
        oobj = w.conts[o]
        # target may also be one of d's bundles (ProvBundle.update)
        tgt = d
        if g.chance(0.25):
            bs = all_containers(w, [d])[1:]
            if bs:
                tgt = r.choice(bs)
        tobj = w.conts[tgt]
        before_t = doc_bags(tobj)
        before_o = doc_bags(oobj)
        obs_o = proto.canon_cont(oobj)
        obs_t = proto.canon_cont(tobj)
        err = w.update(tgt, o)
        case = {"ops": list(w.ops)}
        if proto.canon_cont(oobj) != obs_o:
            fails.append(Failure("oracle", None, "update() changed `other`", case))
        if tobj.is_bundle() and oobj.is_document() and len(before_o) > 1:
            if not isinstance(err, ProvException):
                fails.append(Failure("oracle", None, "bundle.update(document with bundles) answered %r instead of ProvException" % (err,), case))
            elif proto.canon_cont(tobj) != obs_t:
                fails.append(Failure("oracle", None, "refused update() changed the target", case))
            return
        if err is not None:
            fails.append(Failure("oracle", None, "update() raised %r" % (err,), case))
            return
        after_t = doc_bags(tobj)
        exp = {k_: Counter(v) for k_, v in before_t.items()}
        for k_, v in before_o.items():
            if tobj.is_bundle() and k_ != "":
                continue
            exp[k_] = exp.get(k_, Counter()) + v
        if {k_: v for k_, v in after_t.items()} != exp:
            fails.append(Failure("oracle", None, "update(): records after != records before + other's (per bundle): got %s expected %s" % (
                {k_: sum(v.values()) for k_, v in after_t.items()}, {k_: sum(v.values()) for k_, v in exp.items()}), case))
        flags.add("update")
    elif k < 0.85 and len(docs) > 1:
        cands = [x for x in docs if x != d]
        o = r.choice(list(free)) if (free and dobj.is_document() and g.chance(0.6)) else r.choice(cands)
        oobj = w.conts[o]
        own_id = oobj.identifier if o in free else None
        mode = r.random()
        ident = b.fresh_name(d)
        expect_refusal = None
        if mode < 0.15:
            ident = None
            if own_id is None:
                expect_refusal = "missing identifier"
        elif mode < 0.3 and list(dobj.bundles):
            q = r.choice(list(dobj.bundles)).identifier
            # the identifier already in use, in any spelling that denotes it in this document
            reps = [q]
            for rep in (str(q), q.uri, Identifier(q.uri)):
                # add_bundle resolves its identifier argument in the scope of the bundle being added: a spelling is only an
                # unambiguous duplicate when document and added bundle both read it as the identifier in use
                try:
                    back = dobj.valid_qualified_name(rep)       # strings and Identifiers are resolved without side effects
                    back2 = oobj.valid_qualified_name(rep)
                except Exception:  # noqa
                    back = back2 = None
                if back is not None and back.uri == q.uri and back2 is not None and back2.uri == q.uri:
                    reps.append(rep)
            ident = r.choice(reps)
            expect_refusal = "duplicate identifier"
            ctx.count("duplicate-id-as:" + type(ident).__name__)
        if oobj.is_document() and list(oobj.bundles):
            expect_refusal = "document with nested bundles"
        obs_d = proto.canon_cont(dobj)
        obs_o = proto.canon_cont(oobj)
        before_o = bag(oobj)
        nb_before = len(list(dobj.bundles))
        err = w.add_bundle(d, o, ident)
        case = {"ops": list(w.ops)}
        if expect_refusal:
            flags.add("refusal")
            if not isinstance(err, ProvException):
                fails.append(Failure("oracle", None, "add_bundle with %s answered %r instead of ProvException" % (expect_refusal, err), case))
            elif proto.canon_cont(dobj) != obs_d:
                fails.append(Failure("oracle", None, "refused add_bundle (%s) changed the document" % expect_refusal, case))
            return
        if err is not None:
            # an identifier that does not resolve is also a legitimate refusal
            if isinstance(err, ProvException) and proto.canon_cont(dobj) == obs_d:
                ctx.count("add_bundle-refused-unresolvable")
                return
            fails.append(Failure("oracle", None, "add_bundle raised %r" % (err,), case))
            return
        if o in free:
            free.remove(o)          # the very object is attached now
        elif proto.canon_cont(oobj) != obs_o:
            fails.append(Failure("oracle", None, "add_bundle(document) changed the added document", case))
        bl = list(dobj.bundles)
        if len(bl) != nb_before + 1:
            fails.append(Failure("oracle", None, "add_bundle did not attach exactly one bundle", case))
            return
        nbobj = bl[-1]
        # a QualifiedName / full URI names one URI; a 'prefix:local' string is read in the added bundle's scope,
        # falling back to the document's: either reading is accepted
        wants = set()
        if ident is None:
            wants = {own_id.uri}
        elif isinstance(ident, QualifiedName):
            wants = {ident.uri}
        else:
            for scope in (dobj, nbobj):
                u_ = denotes(scope, ident)
                if u_ is not None:
                    wants.add(u_)
        if wants and (nbobj.identifier is None or nbobj.identifier.uri not in wants):
            fails.append(Failure("oracle", None, "bundle attached under %s, requested %s" % (nbobj.identifier, ident), case))
        if bag(nbobj) != before_o:
            fails.append(Failure("oracle", None, "attached bundle's records differ from the added document's", case))
        flags.add("add_bundle")
    else:
        ident = b.fresh_name(d) if g.chance(0.8) else (r.choice(list(dobj.bundles)).identifier if list(dobj.bundles) else None)
        obs_d = proto.canon_cont(dobj)
        dup = ident is not None and any(x.identifier.uri == denotes(dobj, ident) for x in dobj.bundles)
        h, err = w.bundle(d, ident)
        if (ident is None or dup) and not isinstance(err, ProvException):
            fails.append(Failure("oracle", None, "bundle(%r) answered %r instead of ProvException" % (ident, err), {"ops": list(w.ops)}))
        if h is not None:
            b._init_scope(h)


def make_case(ctx, g):
    w = World()
    fails = []
    flags = set()
    b = DocBuilder(g, w, repeat_id=0.3, malformed=0.0, clash=0.35, defaults=0.5, foreign_formal=0.08)
    docs = []
    for _ in range(2):
        d, _scopes = b.random_document(n_records=g.rng.randint(1, 5))
        if g.chance(0.15):
            b.many_defaults(d)
        if g.chance(0.3):
            # a statement repeated with a value of another kind that == cannot tell apart (1 / True / 1.0, one instant in two zones)
            for c_ in _scopes:
                if g.chance(0.6) and b.kind_twin(c_) is not None:
                    flags.add("kind-twin-statement")
        docs.append(d)
    free = []
    if g.chance(0.4):
        # a free-standing ProvBundle that already carries an identifier of its own (attached later, under that or another name)
        src = w.conts[docs[0]]
        n = len(src.records)
        if n:
            hs = [w.rec_at(docs[0], g.rng.randrange(n)) for _ in range(g.rng.randint(1, 3))]
            h, _e = w.new_doc_from(hs, bundle=True, ident=QualifiedName(Namespace("fb", "http://free.example/"), "own1"))
            if h is not None:
                free.append(h)
    for _ in range(g.rng.randint(1, 4)):
        step(ctx, g, w, b, docs, fails, flags, free)
    for d in docs:
        w.obs(d)
    ctx.evaluations += 1
    for f in flags:
        ctx.count(f)
    if flags:
        ctx.nontrivial(w.ops)
    ctx.sample({"ops": w.ops[:6], "n_ops": len(w.ops)})
    return w, fails


def run(ctx):
    g = Gen(ctx.seed * 1000003 + 9)
    return batched(ctx, ctx.n(500, 5000), lambda: make_case(ctx, g))


def oracle_only(ctx):
    g = Gen(ctx.seed * 1000003 + 9)
    return [f for f in batched(ctx, ctx.n(500, 5000), lambda: make_case(ctx, g), use_model=False) if f.kind == "oracle"]


def replay(ctx, case):
    """replay all ops but the last on the implementation, then re-judge the last call with the conservation oracle"""
    from .replay_ops import replay_ops
    from ..world import run_model, diff_outputs
    ops = case["ops"]
    w = replay_ops(ops[:-1])
    last = ops[-1]
    fails = []
    before = {c: doc_bags(o) for c, o in w.conts.items()}
    w2 = replay_ops(ops)
    exp = case.get("expect_err")
    if exp is not None and w2.outs[-1].get("err") != exp:
        fails.append(Failure("oracle", case.get("signature"), "last call answered %s, expected %s" % (w2.outs[-1].get("err"), exp), case))
    if "expect_bundle_keys" in case:
        d = w2.conts[last["d"]]
        keys = sorted(str(b.identifier) for b in d.bundles)
        if keys != case["expect_bundle_keys"]:
            fails.append(Failure("oracle", case.get("signature"), "bundle keys %s, expected %s" % (keys, case["expect_bundle_keys"]), case))
    try:
        mo = run_model(w2.ops)
        df = diff_outputs(w2.ops, w2.outs, mo)
        if df:
            fails.append(Failure("corr", None, "op %d: %s" % df, case))
    except Exception as e:  # noqa
        ctx.notes.append("replay: model unavailable: %r" % (e,))
    return fails

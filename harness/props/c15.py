"""C15 — DOT output is always valid Graphviz: one node per element, one path per relation."""
import datetime
import html
import json
from collections import Counter

from prov.identifier import Identifier, QualifiedName
from prov.model import ProvDocument, ProvElement, ProvRelation, ProvException
from prov.constants import PROV_ATTRIBUTE_QNAMES

from ..world import World
from ..gen import Gen
from ..docgen import DocBuilder
from ..runner import Failure
from ..common import corr_failures
from .. import proto, dotjson

META = {
    "level": "proof",
    "rule": "documents with identifiers, labels, attribute values and namespace URIs containing quotes, angle brackets, ampersands, "
            "backslashes, newlines and non-ASCII text, 0..2 bundles; every combination of show_nary x use_labels x "
            "show_element_attributes x show_relation_attributes and direction in {BT,TB,LR,RL,invalid}; the DOT text is given to "
            "Graphviz (dot -Tdot_json): it must be accepted, and the graph Graphviz parsed is compared with an independent structural "
            "specification (one node per element per cluster, nodes for referenced names, one labelled path per relation with the right "
            "endpoint URIs and direction, annotations listing every non-reference attribute) and with the Lean model of prov_to_dot. "
            "Non-trivial = >= 1 relation drawn and >= 1 special character present; distinct by content hash.",
    "assumptions": ["A-EXT: Graphviz's own parser is the judge of DOT validity; pydot prints pre-quoted strings verbatim"],
    "explanation": "Theorems htmlEscape_no_markup, htmlEscape_amp_ok, dotQuoteBody_ok (syntax safety for arbitrary strings), "
                   "c15_one_node_per_element, c15_known_uri_reuses_node, attachAnnotation_spec.",
}

SHAPE = {"Entity": "oval", "Activity": "box", "Agent": "house"}
SPECIAL = set('"<>&\\\n\'')


def dot_parsed(s):
    return s.replace("\\", "\\\\")


def judge(ctx, g, doc, opts, text, out, fails, case):
    """structural specification on the graph Graphviz parsed"""
    if out.get("err"):
        fails.append(Failure("oracle", None, "prov_to_dot raised %s" % out["err"], case))
        return
    if out.get("graph") is None:
        fails.append(Failure("oracle", None, "Graphviz rejects the DOT text: %s" % out.get("graphviz_error", "")[:200], case))
        return
    graph = out["graph"]
    try:
        uni = doc.unified()
    except ProvException:
        uni = doc
    nodes = graph["nodes"]
    by_name = {n["name"]: n for n in nodes}
    conts = [(None, uni)] + [(c["name"], None) for c in graph["clusters"]]
    cluster_by_url = {c["url"]: c["name"] for c in graph["clusters"]}
    containers = [(None, uni)]
    for b in (uni.bundles if uni.is_document() else []):
        cname = cluster_by_url.get(dot_parsed(b.identifier.uri))
        if cname is None:
            fails.append(Failure("oracle", None, "bundle %s has no cluster" % b.identifier, case))
            continue
        containers.append((cname, b))
    if len(graph["clusters"]) != len(containers) - 1:
        fails.append(Failure("oracle", None, "%d clusters for %d bundles" % (len(graph["clusters"]), len(containers) - 1), case))
    declared_urls = set()
    for cname, cont in containers:
        for r in cont.records:
            if isinstance(r, ProvElement):
                url = dot_parsed(r.identifier.uri)
                declared_urls.add(url)
                hits = [n for n in nodes if n["url"] == url and n["shape"] == SHAPE[r.get_type().localpart]
                        and n["name"].startswith("n") and (cname is None or n["name"] in graph.get("members", {}).get(cname, []))]
                if len(hits) < 1:
                    fails.append(Failure("oracle", None, "element %s (%s) has no node in %s" % (r.identifier, r.get_type().localpart, cname or "the top level"), case))
                if opts.get("show_element_attributes", True):
                    others = [(a, v) for (a, v) in r.attributes if a not in PROV_ATTRIBUTE_QNAMES]
                    if others and hits:
                        anns = [by_name[e["tail"]] for e in graph["edges"] if e["head"] in {h["name"] for h in hits}
                                and e["tail"].startswith("ann") and e["style"] == "dashed"]
                        if not anns:
                            fails.append(Failure("oracle", None, "attributes of element %s are not shown" % r.identifier, case))
                        else:
                            lab = " ".join(a["label"] for a in anns)
                            for (a, v) in others:
                                if html.escape(str(a)) not in lab:
                                    fails.append(Failure("oracle", None, "annotation of %s lacks attribute %s" % (r.identifier, a), case))
                                    break
                                if isinstance(v, str) and v and not (set(v) & set('\n\r\t"\\\'')) and v == v.strip() \
                                        and html.escape(v) not in lab:
                                    # a string is shown with the characters it has (markup characters escaped for the HTML label)
                                    fails.append(Failure("oracle", None, "annotation of %s does not show %s = %r verbatim" % (
                                        r.identifier, a, v), case))
                                    break
                                if isinstance(v, datetime.datetime) and html.escape(v.isoformat()) not in lab:
                                    # a date-time is shown as its ISO 8601 text: every field, the fraction and the UTC offset
                                    fails.append(Failure("oracle", None, "annotation of %s does not show %s = %s as that date-time" % (
                                        r.identifier, a, v.isoformat()), case))
                                    break
    # relations: one labelled path with the right ends and direction
    out_edges = {}
    for e in graph["edges"]:
        out_edges.setdefault(e["tail"], []).append(e)
    want = Counter()
    got = Counter()
    want_annotated = []
    want_nary = []
    label_of = None
    from prov.dot import DOT_PROV_STYLE
    n_rel = 0
    for cname, cont in containers:
        for r in cont.records:
            if isinstance(r, ProvRelation):
                refs = [(a, v) for (a, v) in r.formal_attributes if a in PROV_ATTRIBUTE_QNAMES]
                q0, q1 = refs[0][1], refs[1][1]
                lbl = DOT_PROV_STYLE[r.get_type()]["label"]
                if q0 is not None and q1 is not None:      # the property speaks of relations with two endpoints
                    want[(lbl, dot_parsed(q0.uri), dot_parsed(q1.uri))] += 1
                    n_rel += 1
                    if opts.get("show_nary", True):
                        # further names the relation refers to (activity / generation / usage of a derivation, plan of an
                        # association, ...): merely referenced or declared, each has a node, reached from the relation's path
                        for (a_, v_) in refs[2:]:
                            if v_ is not None:
                                want_nary.append((lbl, dot_parsed(q0.uri), dot_parsed(q1.uri), a_.localpart, dot_parsed(v_.uri)))
                    others = [(a, v) for (a, v) in r.attributes if a not in PROV_ATTRIBUTE_QNAMES]
                    if others and opts.get("show_relation_attributes", True):
                        want_annotated.append((lbl, dot_parsed(q0.uri), dot_parsed(q1.uri), [str(a) for (a, _v) in others]))
    for e in graph["edges"]:
        if e["label"] is None or e["tail"].startswith("ann"):
            continue
        t, h = by_name[e["tail"]], by_name[e["head"]]
        if h["shape"] == "point" and h["name"].startswith("b") and e["arrowhead"] == "none":
            # first segment: follow the unlabelled second segment out of the blank node
            seconds = [x for x in out_edges.get(h["name"], []) if x["label"] is None]
            if len(seconds) != 1:
                fails.append(Failure("oracle", None, "blank node %s has %d unlabelled second segments" % (h["name"], len(seconds)), case))
                continue
            end = by_name[seconds[0]["head"]]
            got[(e["label"], t["url"], end["url"])] += 1
        elif t["shape"] == "point" and t["name"].startswith("b"):
            continue        # n-ary extra segment (labelled with the attribute name)
        else:
            got[(e["label"], t["url"], h["url"])] += 1
    # annotated relations: drawn through a blank node that carries a note listing every non-reference attribute (the time
    # of a generation is one of them even when it is the only one)
    ann_of_blank = {}
    for e in graph["edges"]:
        if e["tail"].startswith("ann") and e["style"] == "dashed" and by_name.get(e["head"], {}).get("shape") == "point":
            ann_of_blank.setdefault(e["head"], []).append(by_name[e["tail"]]["label"])
    blank_paths = {}
    for e in graph["edges"]:
        if e["label"] is not None and not e["tail"].startswith("ann"):
            h_ = by_name[e["head"]]
            if h_["shape"] == "point" and h_["name"].startswith("b") and e["arrowhead"] == "none":
                seconds = [x for x in out_edges.get(h_["name"], []) if x["label"] is None]
                if len(seconds) == 1:
                    key = (e["label"], by_name[e["tail"]]["url"], by_name[seconds[0]["head"]]["url"])
                    blank_paths.setdefault(key, []).append(h_["name"])
    for (lbl, u0, u1, names) in want_annotated:
        blanks = blank_paths.get((lbl, u0, u1), [])
        labels = [" ".join(ann_of_blank.get(b_, [])) for b_ in blanks]
        if not any(all(html.escape(n) in lab for n in names) for lab in labels):
            fails.append(Failure("oracle", None, "relation %s(%s, %s) has attributes %s but no annotation showing them (drawn through %d blank node(s))" % (
                lbl, u0, u1, names, len(blanks)), case))
            break
    got = Counter({k: v for k, v in got.items() if k[1] is not None and k[2] is not None})
    if got != want:
        fails.append(Failure("oracle", None, "relation paths differ: missing %s / unexpected %s" % (
            list((want - got).elements())[:2], list((got - want).elements())[:2]), case))
    # independently of unified(): whatever the document itself states is drawn -- every element of every container has a node
    # of its kind in its cluster, every two-ended relation has a path (statements of one identifier and kind share theirs)
    if uni is not doc:
        src_conts = [(None, doc)] + [(cluster_by_url.get(dot_parsed(b.identifier.uri)), b) for b in (doc.bundles if doc.is_document() else [])]
        for cname, cont in src_conts:
            for r in cont.records:
                if isinstance(r, ProvElement):
                    url = dot_parsed(r.identifier.uri)
                    if not any(n["url"] == url and n["shape"] == SHAPE[r.get_type().localpart] and n["name"].startswith("n")
                               and (cname is None or n["name"] in graph.get("members", {}).get(cname, [])) for n in nodes):
                        fails.append(Failure("oracle", None, "element %s (%s) stated in %s has no node there" % (
                            r.identifier, r.get_type().localpart, cname or "the top level"), case))
                        break
                elif isinstance(r, ProvRelation):
                    refs = [(a, v) for (a, v) in r.formal_attributes if a in PROV_ATTRIBUTE_QNAMES]
                    q0, q1 = refs[0][1], refs[1][1]
                    if q0 is not None and q1 is not None:
                        k = (DOT_PROV_STYLE[r.get_type()]["label"], dot_parsed(q0.uri), dot_parsed(q1.uri))
                        if got[k] < 1:
                            fails.append(Failure("oracle", None, "relation %s(%s, %s) stated in the document has no path" % k, case))
                            break
    # every referenced name has a node
    urls = {n["url"] for n in nodes if n["url"]}
    for (lbl, u0, u1, aname, u) in want_nary:
        if u not in urls:
            fails.append(Failure("oracle", None, "relation %s(%s, %s) refers to %s as its %s, which has no node" % (lbl, u0, u1, u, aname), case))
            break
        # the extra segment: an edge labelled with the attribute name from a blank node of this relation's path to that node
        ok = False
        for e in graph["edges"]:
            t_ = by_name.get(e["tail"], {})
            if t_.get("shape") == "point" and e["tail"].startswith("b") and e["label"] == aname and by_name[e["head"]]["url"] == u:
                ok = True
                break
        if not ok:
            fails.append(Failure("oracle", None, "relation %s(%s, %s): no %s segment to %s" % (lbl, u0, u1, aname, u), case))
            break
    for (lbl, u0, u1) in want:
        for u in (u0, u1):
            if u is not None and u not in urls:
                fails.append(Failure("oracle", None, "referenced name %s has no node" % u, case))
    # direction
    want_dir = opts.get("direction", "BT")
    if want_dir not in ("BT", "TB", "LR", "RL"):
        want_dir = "BT"
    if ("rankdir=%s;" % want_dir) not in text:
        fails.append(Failure("oracle", None, "rankdir is not %s" % want_dir, case))
    return n_rel


def run(ctx):
    g = Gen(ctx.seed * 1000003 + 15)
    fails = []
    total = ctx.n(150, 1500)
    worlds = []
    for i in range(total):
        w = World()
        b = DocBuilder(g, w, malformed=0.0, repeat_id=0.2, plain_binary=0.3, refused=0.15)
        d, scopes = b.random_document(n_records=g.rng.randint(1, 7))
        if g.chance(0.2) and b.cross_kind_cluster(g.choice(scopes)):
            ctx.count("one-identifier-two-merged-kinds")
        # identifiers / namespaces with hostile characters
        if g.chance(0.5):
            c = g.choice(scopes)
            from prov.identifier import Namespace
            ns = Namespace(g.choice(["q", "am"]), g.choice(['http://h/?a=1&b="2"#', "http://h/<x>/", "http://h/back\\slash/"]))
            w.new_record(c, "Entity", QualifiedName(ns, g.choice(['x"y', "tail\\", "a<b", "ok", "é"])),
                         [("prov:label", g.choice(['a<b & "c"', "plain", "</font>", "x\\"]))] +
                         # hostile characters in the URIs that end up in href="..." of an annotation row: the attribute name's
                         # namespace and an Identifier / QualifiedName value
                         ([(QualifiedName(ns, "attr"), g.choice(["v", 'q"v']))] if g.chance(0.5) else []) +
                         ([("prov:value", Identifier(g.choice(['http://h/res/x" bgcolor="red', "http://h/q?a=1&b=<2>", "http://h/plain"])))]
                          if g.chance(0.5) else []) +
                         ([("prov:location", QualifiedName(ns, g.choice(['l"oc', "loc"])))] if g.chance(0.3) else []))
        if g.chance(0.25) and w.conts[d].is_document():
            # a bundle whose own name is hostile: the cluster's label and URL are strings of the DOT text like any other
            from prov.identifier import Namespace
            bns = Namespace("bq", g.choice(["http://h/bundles/", "http://h/back\\slash\\", 'http://h/q"uote/']))
            hb, _e = w.bundle(d, QualifiedName(bns, g.choice(["C:\\runs\\r1", 'say "hi"', "tail\\", 'x\\"y', "plain", "a<b&c"])))
            if hb is not None:
                b._init_scope(hb)
                w.new_record(hb, "Entity", QualifiedName(Namespace("ex", "http://example.org/"), "inside%d" % g.rng.randint(0, 9)), [])
                ctx.count("hostile-bundle-name")
        if g.chance(0.2):
            if b.lookalike(d):
                ctx.count("lookalike-names")
        doc = w.conts[d]
        combos = [dict(show_nary=a, use_labels=b_, show_element_attributes=c_, show_relation_attributes=d_)
                  for a in (True, False) for b_ in (True, False) for c_ in (True, False) for d_ in (True, False)]
        picks = combos if (ctx.tier == "thorough" and i % 10 == 0) else g.rng.sample(combos, 2)
        for opts in picks:
            direction = g.choice(["BT", "TB", "LR", "RL", "sideways"])
            text, out = w.to_dot(d, **opts)
            case = {"ops": list(w.ops), "opts": opts}
            n_rel = judge(ctx, g, doc, dict(opts, direction="BT"), text or "", out, fails, case)
            # the direction option does not change the structure: check it on the text only
            try:
                from prov.dot import prov_to_dot
                t2 = prov_to_dot(doc, direction=direction, **opts).to_string()
                wd = direction if direction in ("BT", "TB", "LR", "RL") else "BT"
                if ("rankdir=%s;" % wd) not in t2:
                    fails.append(Failure("oracle", None, "direction=%s gives no rankdir=%s" % (direction, wd), case))
            except Exception as e:  # noqa
                fails.append(Failure("oracle", None, "prov_to_dot(direction=%s) raised %r" % (direction, e), case))
            ctx.evaluations += 1
            ctx.count("opts:%s" % json.dumps(opts, sort_keys=True))
            if n_rel and text and (SPECIAL & set(text)):
                ctx.nontrivial([w.ops, opts])
            if g.chance(0.15) and b.mutate_in_place([d]):
                # the document changes in place between two drawings
                ctx.count("changed-after-first-export")
        ctx.sample({"n_ops": len(w.ops)})
        worlds.append(w)
        if len(worlds) >= 50:
            fails.extend(corr_failures(ctx, worlds))
            worlds = []
    fails.extend(corr_failures(ctx, worlds))
    return fails


def oracle_only(ctx):
    return [f for f in run(ctx) if f.kind == "oracle"]


def replay(ctx, case):
    from .replay_ops import replay_ops
    w = replay_ops([o for o in case["ops"] if o["op"] != "to_dot"])
    d = next(c for c, o in w.conts.items() if o.is_document())
    fails = []
    text, out = w.to_dot(d, **case.get("opts", {}))
    judge(ctx, Gen(0), w.conts[d], dict(case.get("opts", {}), direction="BT"), text or "", out, fails, case)
    return fails

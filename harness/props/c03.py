"""C03 — qualified names keep their URI and stay unambiguous under any namespace history."""
import json

from prov.identifier import Identifier, QualifiedName, Namespace

from ..world import World, run_model, run_model_batch, diff_outputs
from ..gen import Gen, PREFIXES, LOCALS, HASHLESS_BUILTINS
from ..gen import URIS as _URIS
URIS = _URIS + HASHLESS_BUILTINS
from ..runner import Failure
from .. import proto

META = {
    "level": "proof",
    "rule": "random two-scope namespace histories (document + up to 2 bundles) over a clash-heavy alphabet; after every "
            "operation every name handed out so far is printed and resolved again in its scope. A history is non-trivial "
            "when a prefix clash/rename, a dn-minting, a URI compaction or a delegation to the parent occurred; distinct by content hash.",
    "assumptions": [
        "A-SET: Python dict preserves insertion order",
        "model envelope: Identifier/URI strings contain ':'; add_namespace is not called with an empty prefix inside the proved domain",
    ],
    "explanation": "Theorems c03a_uri_preserved, c03b_prefix_stable(_step), c03b_clash_fresh, c03c_print_resolve, "
                   "c03c_single_scope, c03c_two_level_partial (+ refutation witness c03c_two_level_refuted) about the Lean "
                   "NsMgr model; the model is tied to /repo by op-sequence correspondence on every generated history.",
}

DEFAULTS = ["http://d/", "http://a/"]


# local parts that repeat a namespace URI (a URL carried inside a URL)
NESTED_LOCALS = ["r?u=http://a/z", "http://other/x", "vocab",
                 # local parts with line ends: a name is split at its first colon and nowhere else
                 "a\n", "a\r\n", "a\nb", "\na", "a:b\n"]


def gen_history(g, w, n_ops, probes=True):
    """run one random history on the implementation; returns list of oracle failures (dicts)"""
    r = g.rng
    if r.random() < 0.2:
        # namespaces handed to the constructor, some of them under a prefix the library binds itself
        pool = [("xsd", "http://www.w3.org/2001/XMLSchema"), ("prov", "http://notprov/"), ("xsi", "urn:x:"), ("ex", "http://a/"),
                ("foo", "http://other/"), ("ex", "http://a/b/")]
        d = w.new_doc(r.sample(pool, r.randint(1, 3)))
        ctor = True
    else:
        d = w.new_doc()
        ctor = False
    scopes = [d]
    state = {d: {"delegated_bare": False}}
    handed = []          # (scope, QualifiedName)
    seen = set()
    failures = []
    flags = set()
    if ctor:
        flags.add("namespaces-given-to-the-constructor")

    def hand(c, q, via):
        if q is None:
            return
        key = (c, str(q), q.uri)
        if key in seen:
            return
        seen.add(key)
        handed.append((c, q))

    def effective_default(c):
        obj = w.conts[c]
        return obj.get_default_namespace()

    bound = {}

    def check_b(step):
        """(b): a registered prefix is never re-pointed"""
        for c in scopes:
            cur = {n.prefix: n.uri for n in w.conts[c].get_registered_namespaces()}
            old = bound.setdefault(c, {})
            for p, u in old.items():
                if cur.get(p) != u:
                    failures.append({"step": step, "scope": c, "kind": "b", "print": p, "uri": u, "got": cur.get(p),
                                     "name": [p, u, ""], "op_index": len(w.ops) - 1})
            old.update(cur)

    def recheck(step):
        check_b(step)
        for (c, q) in handed:
            q2 = w.vqn(c, str(q))
            if q2 is None or q2.uri != q.uri:
                owned = any(n.prefix == q.namespace.prefix and n.uri == q.namespace.uri
                            for n in w.conts[c].get_registered_namespaces()) or (
                    not q.namespace.prefix and w.conts[c].get_default_namespace() is not None
                    and w.conts[c].get_default_namespace().uri == q.namespace.uri)
                failures.append({"step": step, "scope": c, "kind": "c", "name": proto.enc_qn3(q), "print": str(q),
                                 "uri": q.uri, "got": None if q2 is None else q2.uri, "op_index": len(w.ops) - 1,
                                 "is_bundle": c != d, "owned_by_scope": owned})

    for i in range(n_ops):
        c = r.choice(scopes)
        obj = w.conts[c]
        k = r.random()
        if k < 0.28:
            p = r.choice(PREFIXES)
            if obj.get_default_namespace() is not None and r.random() < 0.06:
                # a Namespace object with the empty prefix offered to a scope that has its default namespace: the empty prefix is
                # taken, so this is a clash like any other ((b): a fresh prefix, the default stays what it is)
                p = ""
            u = r.choice(URIS)
            regs = list(obj.get_registered_namespaces())
            taken = {x.prefix for x in regs} | {"prov", "xsd", "xsi"}       # the scope's own table: registrations + the three built-ins
            if obj.get_default_namespace() is not None:
                taken.add("")
            known_uris = {x.uri for x in regs} | {"http://www.w3.org/ns/prov#", "http://www.w3.org/2001/XMLSchema#",
                                                  "http://www.w3.org/2001/XMLSchema-instance"}
            n = w.add_ns(c, p, u)
            if n.prefix != p:
                flags.add("clash-or-rename")
                if p not in taken and u not in known_uris:
                    # (b) read from the caller's side: a fresh prefix is the answer to a clash, and there was none
                    failures.append({"step": i, "scope": c, "kind": "b", "print": p, "uri": u, "got": "%s (prefix %s)" % (n.uri, n.prefix),
                                     "name": [p, u, ""], "op_index": len(w.ops) - 1})
        elif k < 0.36:
            u = r.choice(DEFAULTS)
            cur = effective_default(c)
            if (cur is None and not state[c]["delegated_bare"]) or (cur is not None and cur.uri == u):
                w.set_default(c, u)
        elif k < 0.42 and len(scopes) < 3:
            h, e = w.bundle(d, QualifiedName(Namespace("b", "http://bundles/"), "b%d" % len(scopes)))
            if h:
                scopes.append(h)
                state[h] = {"delegated_bare": False}
        else:
            kind = r.random()
            if kind < 0.4:
                pfx = r.choice(PREFIXES + ["", ""])
                uri = r.choice(URIS + DEFAULTS)
                loc = r.choice(LOCALS + (["a:b"] if probes and r.random() < 0.1 else []))
                if pfx == "":
                    cur = effective_default(c)
                    if cur is None and state[c]["delegated_bare"]:
                        continue
                x = w.qname(pfx, uri, loc)
                q = w.vqn(c, x)
                if q is None or q.uri != x.uri:
                    failures.append({"step": i, "scope": c, "kind": "a", "print": str(x), "uri": x.uri,
                                     "got": None if q is None else q.uri, "name": proto.enc_qn3(x), "op_index": len(w.ops) - 1})
                if q is not None and q.namespace.prefix != pfx:
                    flags.add("dn" if q.namespace.prefix.startswith("dn") else "clash-or-rename")
            elif kind < 0.65:
                x = r.choice(PREFIXES + ["nope", "ex_2", "dn_1"]) + ":" + r.choice(LOCALS)
                q = w.vqn(c, x)
            elif kind < 0.8:
                x = r.choice(LOCALS)
                own_default = obj.get_default_namespace()
                q = w.vqn(c, x)
                if q is not None and own_default is None:
                    state[c]["delegated_bare"] = True
                    flags.add("delegation")
            elif kind < 0.92:
                x = r.choice(URIS + DEFAULTS) + r.choice(LOCALS + NESTED_LOCALS)
                q = w.vqn(c, x)
                if q is not None:
                    flags.add("compaction")
                full = x
            else:
                x = Identifier(r.choice(URIS) + r.choice(LOCALS + NESTED_LOCALS))
                q = w.vqn(c, x)
                full = x.uri
            if kind >= 0.8 and q is not None and q.uri != full:
                # theorem c03_full_uri_denotes_itself: no scheme of URIS is ever a (renamed) prefix in these histories
                failures.append({"step": i, "scope": c, "kind": "a", "print": full, "uri": full, "got": q.uri,
                                 "name": ["", full, ""], "op_index": len(w.ops) - 1})
            if q is not None and c != d and isinstance(x, str):
                # was it answered by the parent?
                own = {n.prefix: n.uri for n in obj.get_registered_namespaces()}
                if q.namespace.prefix and own.get(q.namespace.prefix) != q.namespace.uri and q.namespace.prefix not in ("prov", "xsd", "xsi"):
                    flags.add("delegation")
            hand(c, q, None)
        recheck(i)
        if i % 5 == 4 or i == n_ops - 1:
            w.obs(d)
    return failures, flags


def classify(w, mo, fail):
    """ask the model why the name is not read back (DESIGN §5.1: the model is the yardstick)"""
    if fail.get("kind") in ("a", "b"):
        return None, {"clause": fail["kind"]}
    k = fail["op_index"]
    ops = w.ops[:k + 1] + [{"op": "c03_classify", "c": fail["scope"], "q": fail["name"]}]
    out = run_model(ops)[-1]
    if "fatal" in out:
        return None, out
    if not out["wf"]:
        return "C03:name-not-wf", out
    if out["owns"]:
        return None, out            # inside c03c_print_resolve's hypotheses: a real violation
    if out["parent_owns"] and not out["own_resolves"]:
        return None, out            # inside c03c_two_level_partial's hypotheses
    if out["parent_owns"] and out["own_resolves"]:
        return "C03:bundle-captures-delegated-name", out
    return None, out


def run_case(ctx, g, n_ops):
    """implementation side of one case; returns (world, failures)"""
    w = World()
    failures, flags = gen_history(g, w, n_ops)
    ctx.evaluations += 1
    for f in flags:
        ctx.count(f)
    if flags:
        ctx.nontrivial(w.ops)
    ctx.sample({"ops": w.ops[:12], "n_ops": len(w.ops)})
    return w, failures


def judge(ctx, w, failures, mo):
    out = []
    if mo is not None:
        ctx.model_ops += len(w.ops)
        df = diff_outputs(w.ops, w.outs, mo)
        if df:
            i, msg = df
            out.append(Failure("corr", None, "op %d %s: %s" % (i, json.dumps(w.ops[i])[:300], msg[:600]),
                               {"ops": w.ops[:i + 1], "impl": w.outs[i]}))
    for (what, e, at) in getattr(w, "crashes", []):
        out.append(Failure("oracle", None, "%s raised %r (the resolver answers None for what it cannot resolve)" % (what, e),
                           {"ops": list(w.ops[:at + 1])}))
    seen = set()
    for f in failures:
        key = (f.get("kind"), f["scope"], f["print"], f["uri"])
        if key in seen:
            continue
        seen.add(key)
        sig = None
        info = None
        if mo is not None:
            try:
                sig, info = classify(w, mo, f)
            except Exception as e:  # model unavailable
                info = {"error": repr(e)}
                sig = model_free_sig(f)
        else:
            sig = model_free_sig(f)
        ctx.count("oracle-fail:" + str(sig))
        what = {"a": "(a) resolving the name or full URI %s (uri %s) in scope %d returned URI %s at step %d",
                "b": "(b) registered prefix %s (uri %s) of scope %d now denotes %s after step %d",
                "c": "(c) name %s (uri %s) handed out in scope %d resolves to %s after step %d"}[f.get("kind", "c")]
        out.append(Failure("oracle", sig, what % (f["print"], f["uri"], f["scope"], f["got"], f["step"]),
                           {"ops": w.ops[:f["op_index"] + 1], "expect_uri": f["uri"], "model_says": info}))
    return out


def run(ctx):
    g = Gen(ctx.seed * 1000003 + 17)
    fails = []
    total = ctx.n(1500, 15000)
    batch = 100
    done = 0
    while done < total:
        cases = [run_case(ctx, g, g.rng.randint(4, 22)) for _ in range(min(batch, total - done))]
        done += len(cases)
        mos = run_model_batch([w.ops for (w, _) in cases])
        for (w, failures), mo in zip(cases, mos):
            fails.extend(judge(ctx, w, failures, mo))
    return fails


def model_free_sig(f):
    """the two known classes decided without the model (used when the model is unavailable): from the name alone
    (well-formedness) and from the scope's own declarations (delegated = not bound by the bundle itself)"""
    if f.get("kind") in ("a", "b"):
        return None
    p, u, l = f["name"]
    wf = (":" not in p) and p != "_" and (p != "" or (":" not in l and l != "" and not l.startswith("_:")))
    if not wf:
        return "C03:name-not-wf"
    if f.get("is_bundle") and not f.get("owned_by_scope"):
        return "C03:bundle-captures-delegated-name"
    return None


def oracle_only(ctx):
    """failing-input search on the real code alone (used when the model or a proof is broken)"""
    g = Gen(ctx.seed * 1000003 + 17)
    fails = []
    for _ in range(ctx.n(1500, 15000)):
        w, failures = run_case(ctx, g, g.rng.randint(4, 22))
        fails.extend(f for f in judge(ctx, w, failures, None) if f.kind == "oracle")
    return fails


def replay(ctx, case):
    """re-run an op list on the implementation and the model; the last op must be the re-resolution"""
    from .replay_ops import replay_ops
    w = replay_ops(case["ops"])
    fails = []
    last = w.outs[-1]
    exp = case.get("expect_uri")
    if exp is not None:
        got = last.get("q")
        if got is None or got[0] != exp:
            fails.append(Failure("oracle", case.get("signature"), "name resolves to %s, expected URI %s" % (got, exp), case))
    try:
        mo = run_model(w.ops)
        df = diff_outputs(w.ops, w.outs, mo)
        if df:
            fails.append(Failure("corr", None, "op %d: %s" % df, case))
    except Exception as e:
        ctx.notes.append("replay: model unavailable: %r" % (e,))
    return fails

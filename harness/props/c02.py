"""C02 — PROV-XML round trip preserves every document exactly."""
import json

from prov.identifier import Identifier, QualifiedName, Namespace
from prov.model import ProvDocument, ProvBundle, Literal
from prov.constants import PROV

from ..world import World
from ..gen import Gen
from ..docgen import DocBuilder
from ..runner import Failure
from ..common import batched
from .. import proto
from .c01 import unresolvable

META = {
    "level": "proof",
    "rule": "XML-expressible documents built through the public API (NCName attribute names, plain/language-tagged labels, all value "
            "kinds, subtype prov:type values, bundles with own prefixes and own default namespace); three channels per document and per "
            "force_types value: writer (infoset of the real PROV-XML text vs the model's encodeXml), reader (the same infoset to both "
            "decoders), end-to-end strict URI-level kind-aware comparison. Non-trivial = document with >= 2 records and a bundle, default "
            "namespace, subtype element or typed value; distinct by content hash.",
    "assumptions": ["A-XMLTEXT: lxml serialise/parse round-trips the infoset (names, in-scope prefix map, attributes, leaf text)",
                    "A-LEX as in C01"],
    "explanation": "Theorems in Props/C02 (per-attribute xsi:type decision inverted by the reader, for both force_types); encodeXml / "
                   "decodeXml mirror provxml.py after the fix: commits and are compared with it in both directions.",
}


def xml_unresolvable(doc):
    """names that the XML reader will not read back to the same URI in their element's scope: the element of a
    bundle carries document + bundle declarations (bundle wins), so a name whose prefix the *other* level binds
    differently is misread (inherits C03-1 / C01-1)"""
    return unresolvable(doc)


def make_case(ctx, g, prior=None):
    fails = []
    if prior is None:
        w = World()
        b = DocBuilder(g, w, malformed=0.0, repeat_id=0.2, xml=True, subtypes=0.3, refused=0.15, reinstant=0.15, builtin_names=0.05)
        d, scopes = b.random_document(n_records=g.rng.randint(1, 8))
        if g.chance(0.08):
            # a membership that names several members in one statement (the collection form of add_attributes): PROV-XML has a
            # child element per member, so every one of them is written and read back
            EXN = Namespace("ex", "http://example.org/")
            c = g.choice(scopes)
            w.new_record(c, "Membership", QualifiedName(EXN, "members") if g.chance(0.3) else None,
                         [(PROV["collection"], QualifiedName(EXN, "coll"))]
                         + [(PROV["entity"], QualifiedName(EXN, "m%d" % i)) for i in g.rng.sample(range(6), g.rng.randint(2, 4))])
            ctx.count("membership-several-members")
    else:
        # second chapter of the same history: the document was changed in place after it had been exported once
        w, b, d, scopes = prior
    doc = w.conts[d]
    flags = set()
    if len(scopes) > 1:
        flags.add("bundles")
    if any(c.get_default_namespace() is not None for c in [doc] + list(doc.bundles)):
        flags.add("default-ns")
    want = proto.strict_doc(doc)
    bad_names = None
    for ft in ([False, True] if g.chance(0.5) else [g.chance(0.5)]):
        text = w.enc_xml(d, ft)
        if text is None:
            ctx.count("writer-raised")
            continue
        if "prov:person" in text or "prov:collection" in text or "wasRevisionOf" in text or "prov:plan" in text:
            flags.add("subtype-element")
        h, err = w.dec_xml(text)
        if h is not None:
            w.obs(h)
        ctx.count("force_types=%s" % ft)
        problem = None
        got = None
        if err is not None:
            problem = "reading the emitted XML raised %s: %s" % (type(err).__name__, str(err)[:120])
        else:
            got = proto.strict_doc(w.conts[h])
            if got != want:
                problem = "reloaded document differs"
        if problem:
            if bad_names is None:
                bad_names = xml_unresolvable(doc)
            sig = "C02:name-not-resolvable-in-scope" if bad_names else None
            detail = ""
            if got is not None:
                for k in sorted(set(want) | set(got)):
                    a, b_ = want.get(k), got.get(k)
                    if a != b_:
                        detail = " bundle %r: missing %s / unexpected %s" % (
                            k, [x for x in (a or []) if x not in (b_ or [])][:1], [x for x in (b_ or []) if x not in (a or [])][:1])
                        break
            fails.append(Failure("oracle", sig, "xml force_types=%s: %s%s%s" % (ft, problem, detail[:700],
                                                                             (" [unresolvable: %s]" % (bad_names[:2],)) if bad_names else ""),
                                 {"ops": [o for o in w.ops if o["op"] not in ("enc_xml", "dec_xml", "obs")], "ft": ft}))
            break
    ctx.evaluations += 1
    for f in flags:
        ctx.count(f)
    if len(doc.records) >= 2 and flags:
        ctx.nontrivial(w.ops[:40])
    ctx.sample({"n_ops": len(w.ops)})
    if prior is None and not fails and g.chance(0.25) and b.mutate_in_place([d]):
        ctx.count("changed-after-first-export")
        fails.extend(make_case(ctx, g, prior=(w, b, d, scopes))[1])
    return w, fails


def run(ctx):
    g = Gen(ctx.seed * 1000003 + 2)
    return batched(ctx, ctx.n(400, 4000), lambda: make_case(ctx, g))


def oracle_only(ctx):
    g = Gen(ctx.seed * 1000003 + 2)
    return [f for f in batched(ctx, ctx.n(400, 4000), lambda: make_case(ctx, g), use_model=False) if f.kind == "oracle"]


def replay(ctx, case):
    from .replay_ops import replay_ops
    from ..world import run_model, diff_outputs
    w = replay_ops(case["ops"])
    d = next(c for c, o in w.conts.items() if o.is_document())
    doc = w.conts[d]
    fails = []
    want = proto.strict_doc(doc)
    try:
        back = ProvDocument.deserialize(content=doc.serialize(format="xml", force_types=case.get("ft", False)), format="xml")
        ok = proto.strict_doc(back) == want
        why = "reloaded document differs"
    except Exception as e:  # noqa
        ok = False
        why = "round trip raised %r" % (e,)
    if not ok:
        sig = "C02:name-not-resolvable-in-scope" if xml_unresolvable(doc) else None
        fails.append(Failure("oracle", sig, why, case))
    try:
        mo = run_model(w.ops)
        df = diff_outputs(w.ops, w.outs, mo)
        if df:
            fails.append(Failure("corr", None, "op %d: %s" % df, case))
    except Exception as e:  # noqa
        ctx.notes.append("replay: model unavailable: %r" % (e,))
    return fails

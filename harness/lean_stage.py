"""Lean side of a check: regenerate tables, build, audit axioms and forbidden tokens."""
import fcntl
import json
import os
import re
import subprocess
import sys
import tempfile
import time

VERIF = os.path.dirname(os.path.dirname(os.path.abspath(__file__)))
LEAN = os.path.join(VERIF, "lean")
ALLOWED_AXIOMS = {"propext", "Classical.choice", "Quot.sound"}
FORBIDDEN = re.compile(r"\b(sorry|admit|native_decide|bv_decide|implemented_by|sorryAx)\b|^\s*axiom\s|\bunsafe\s|maxHeartbeats\s+0")


def strip_comments(src):
    # remove /- ... -/ blocks (nested allowed) and -- line comments
    out = []
    i = 0
    depth = 0
    n = len(src)
    while i < n:
        if src.startswith("/-", i):
            depth += 1
            i += 2
        elif depth and src.startswith("-/", i):
            depth -= 1
            i += 2
        elif depth:
            if src[i] == "\n":
                out.append("\n")
            i += 1
        elif src.startswith("--", i):
            while i < n and src[i] != "\n":
                i += 1
        else:
            out.append(src[i])
            i += 1
    return "".join(out)


def grep_forbidden():
    hits = []
    for root, _dirs, files in os.walk(LEAN):
        if ".lake" in root:
            continue
        for f in files:
            if f.endswith(".lean"):
                p = os.path.join(root, f)
                body = strip_comments(open(p, encoding="utf-8").read())
                for ln, line in enumerate(body.splitlines(), 1):
                    if FORBIDDEN.search(line):
                        hits.append("%s:%d: %s" % (os.path.relpath(p, VERIF), ln, line.strip()[:120]))
    return hits


def theorems_of(prop):
    """names of the theorems stated in Prov/Props/<prop>.lean (namespace Prov.<prop>)"""
    import glob
    out = []
    # the property's own module and its satellite modules (<prop>T1.lean, ...: heavy kernel evaluations built in parallel)
    for p in sorted(glob.glob(os.path.join(LEAN, "Prov", "Props", prop + "*.lean"))):
        body = strip_comments(open(p, encoding="utf-8").read())
        ns = None
        m = re.search(r"^namespace\s+(\S+)", body, re.M)
        if m:
            ns = m.group(1)
        names = re.findall(r"^(?:@\[[^\]]*\]\s*)?(?:protected\s+|private\s+)?theorem\s+([A-Za-z0-9_.'?!]+)", body, re.M)
        out += [(ns + "." + n) if ns else n for n in names]
    return out


def modules_of(prop):
    """the property's theorem module and its satellites (Prov/Props/<prop>*.lean)"""
    import glob
    return ["Prov.Props." + os.path.basename(p)[:-5] for p in sorted(glob.glob(os.path.join(LEAN, "Prov", "Props", prop + "*.lean")))] \
        or ["Prov.Props." + prop]


def run(cmd, cwd=None, timeout=3600):
    p = subprocess.run(cmd, cwd=cwd, stdout=subprocess.PIPE, stderr=subprocess.STDOUT, timeout=timeout)
    return p.returncode, p.stdout.decode("utf-8", "replace")


def lean_stage(prop, extra_modules=(), clean=False, leanchecker=False):
    """returns dict: ok, build_ok, build_log, theorems, axioms{thm:[...]}, bad_axioms, forbidden, tables_changed"""
    res = {"ok": False, "build_ok": False, "build_log": "", "theorems": [], "axioms": {}, "bad_axioms": {},
           "forbidden": [], "tables_changed": False, "wall_s": 0.0}
    t0 = time.time()
    lock = open(os.path.join(LEAN, ".build.lock"), "w")
    fcntl.flock(lock, fcntl.LOCK_EX)
    try:
        rc, out = run([sys.executable, os.path.join(VERIF, "tools", "gen_tables.py")])
        res["tables_log"] = out[-2000:]
        if rc != 0:
            res["build_log"] = "gen_tables failed:\n" + out[-3000:]
            return res
        res["tables_changed"] = "CHANGED" in out
        targets = ["driver", "Prov.Props.Tables"] + modules_of(prop) + list(extra_modules)
        if clean:
            import glob
            libdir = os.path.join(LEAN, ".lake", "build", "lib", "lean", "Prov", "Props")
            for f in glob.glob(os.path.join(libdir, prop + "*")):
                try:
                    os.remove(f)
                except OSError:
                    pass
        rc, out = run(["lake", "build"] + targets, cwd=LEAN)
        res["build_log"] = "\n".join(l for l in out.splitlines() if "conda" not in l)[-6000:]
        res["build_ok"] = rc == 0
        if rc != 0:
            return res
        thms = theorems_of(prop) + theorems_of("Tables")
        res["theorems"] = thms
        with tempfile.NamedTemporaryFile("w", suffix=".lean", dir=LEAN, delete=False) as f:
            f.write("".join("import %s\n" % m for m in modules_of(prop)) + "import Prov.Props.Tables\n")
            for t in thms:
                f.write("#print axioms %s\n" % t)
            audit = f.name
        try:
            rc, out = run(["lake", "env", "lean", audit], cwd=LEAN)
        finally:
            os.remove(audit)
        cur = None
        for line in out.splitlines():
            m = re.match(r"'(.+)' depends on axioms: \[(.*)\]", line)
            m2 = re.match(r"'(.+)' does not depend on any axioms", line)
            if m:
                res["axioms"][m.group(1)] = [a.strip() for a in m.group(2).split(",") if a.strip()]
            elif m2:
                res["axioms"][m2.group(1)] = []
        # multi-line axiom lists
        for m in re.finditer(r"^'([^\n]+)' depends on axioms: \[([^\]]*)\]", out, re.S | re.M):
            res["axioms"][m.group(1)] = [a.strip() for a in m.group(2).replace("\n", " ").split(",") if a.strip()]
        for t in thms:
            if t not in res["axioms"]:
                res["bad_axioms"][t] = ["<not reported by #print axioms>"]
            else:
                bad = [a for a in res["axioms"][t] if a not in ALLOWED_AXIOMS]
                if bad:
                    res["bad_axioms"][t] = bad
        res["forbidden"] = grep_forbidden()
        if leanchecker:
            rc, out = run(["lake", "env", "leanchecker"] + modules_of(prop), cwd=LEAN, timeout=3600)
            res["leanchecker_ok"] = rc == 0
            res["leanchecker_log"] = out[-1500:]
        res["ok"] = res["build_ok"] and not res["bad_axioms"] and not res["forbidden"] and res.get("leanchecker_ok", True)
        return res
    finally:
        res["wall_s"] = round(time.time() - t0, 2)
        fcntl.flock(lock, fcntl.LOCK_UN)
        lock.close()
